From XV Require Import Base Mapper.

Lemma dget_dset d k v k' : dget (dset d k v) k' = if N.eqb k' k then Some v else dget d k'.
Proof.
  induction d as [|[k0 v0] r IH]; cbn [dset dget].
  - destruct (N.eqb k' k); reflexivity.
  - destruct (N.eqb_spec k k0) as [->|Hne]; cbn [dget].
    + destruct (N.eqb_spec k' k0); reflexivity.
    + rewrite IH. destruct (N.eqb_spec k' k0) as [->|Hne'].
      * destruct (N.eqb_spec k0 k); [congruence | reflexivity].
      * reflexivity.
Qed.

Lemma dget_In d k v : dget d k = Some v -> In (k, v) d.
Proof.
  induction d as [|[k0 v0] r IH]; cbn [dget]; [discriminate|].
  destruct (N.eqb_spec k k0) as [->|Hne].
  - intro H. injection H as ->. now left.
  - intro H. right. auto.
Qed.

Lemma dset_keys d k v : forall x, In x (map fst (dset d k v)) <-> x = k \/ In x (map fst d).
Proof.
  induction d as [|[k0 v0] r IH]; intro x; cbn [dset map fst In].
  - cbn. intuition.
  - destruct (N.eqb_spec k k0) as [->|Hne]; cbn [map fst In].
    + intuition.
    + rewrite IH. intuition.
Qed.

Lemma dset_nodup d k v : NoDup (map fst d) -> NoDup (map fst (dset d k v)).
Proof.
  induction d as [|[k0 v0] r IH]; intro H; cbn [dset map fst].
  - constructor; [intros [] | constructor].
  - inversion H as [|? ? Hn Hr]; subst. destruct (N.eqb_spec k k0) as [->|Hne]; cbn [map fst].
    + constructor; assumption.
    + constructor; [|auto]. rewrite dset_keys. intros [E|E]; [congruence | contradiction].
Qed.

Lemma dupdate_nodup kvs : forall d, NoDup (map fst d) -> NoDup (map fst (dupdate d kvs)).
Proof.
  induction kvs as [|kv kvs IH]; intros d H; cbn [dupdate fold_left]; [exact H|].
  apply IH. now apply dset_nodup.
Qed.

Lemma nodup_In_dget d k v : NoDup (map fst d) -> In (k, v) d -> dget d k = Some v.
Proof.
  induction d as [|[k0 v0] r IH]; intros H Hin; [destruct Hin|].
  inversion H as [|? ? Hn Hr]; subst. cbn [dget]. destruct Hin as [E|Hin].
  - injection E as -> ->. now rewrite N.eqb_refl.
  - destruct (N.eqb_spec k k0) as [->|Hne]; [|auto].
    exfalso. apply Hn. change k0 with (fst (k0, v)). now apply in_map.
Qed.

Lemma rev_fold_inv n l : (forall k v, In (k, v) l -> dget n k = Some v) ->
  forall r, Inv n r -> Inv n (fold_left (fun r kv => dset r (snd kv) (fst kv)) l r).
Proof.
  induction l as [|[k v] l IH]; intros Hl r Hr; cbn [fold_left]; [exact Hr|].
  apply IH; [intros; apply Hl; now right|].
  intros u p. cbn [fst snd]. rewrite dget_dset. destruct (N.eqb_spec u v) as [->|Hne].
  - intro E. injection E as <-. apply Hl. now left.
  - apply Hr.
Qed.

Theorem init_inv decls : InvSt (init_mapper decls).
Proof.
  split; [|constructor]. cbn [init_mapper ns rev].
  apply rev_fold_inv; [|intros u p H; discriminate].
  intros k v Hin. apply nodup_In_dget.
  - apply dupdate_nodup. constructor.
  - now apply in_rev.
Qed.

Lemma find_last_spec d v k : find_last d v = Some k -> dget d k = Some v.
Proof.
  unfold find_last. intro H. apply find_some in H as [_ H].
  destruct (dget d k) as [v'|]; [|discriminate]. apply N.eqb_eq in H. now subst.
Qed.

Lemma fix_rev_inv n r : Inv n (fix_rev n r).
Proof.
  intros u p H. apply dget_In in H. unfold fix_rev in H. apply in_flat_map in H as [[u0 p0] [_ H]].
  destruct (dget n p0) as [u'|] eqn:E.
  - destruct (N.eqb_spec u0 u') as [->|Hne].
    + destruct H as [H|[]]. injection H as <- <-. exact E.
    + destruct (find_last n u0) as [k|] eqn:F; [|destruct H].
      destruct H as [H|[]]. injection H as <- <-. now apply find_last_spec.
  - destruct (find_last n u0) as [k|] eqn:F; [|destruct H].
    destruct H as [H|[]]. injection H as <- <-. now apply find_last_spec.
Qed.

Lemma pop_ctxs_spec cs obj level : forall saved cs' saved' found,
  pop_ctxs cs obj level saved = (cs', saved', found) ->
  Forall (fun c => Inv (c_ns c) (c_rev c)) cs ->
  (forall nr, saved = Some nr -> Inv (fst nr) (snd nr)) ->
  Forall (fun c => Inv (c_ns c) (c_rev c)) cs' /\ (forall nr, saved' = Some nr -> Inv (fst nr) (snd nr)).
Proof.
  induction cs as [|c r IH]; intros saved cs' saved' found H F S; cbn [pop_ctxs] in H.
  - injection H as <- <- <-. auto.
  - destruct (Nat.ltb (c_level c) level); [injection H as <- <- <-; auto|].
    destruct (Nat.eqb level (c_level c) && Nat.eqb (c_obj c) obj); [injection H as <- <- <-; auto|].
    inversion F as [|? ? Hc Hr]; subst.
    apply (IH _ _ _ _ H Hr). intros nr E. injection E as <-. exact Hc.
Qed.

Theorem set_ctx_inv st obj level decls : InvSt st -> InvSt (set_ctx st obj level decls).
Proof.
  intros [Hi Hc]. unfold set_ctx.
  destruct (pop_ctxs (ctxs st) obj level None) as [[cs saved] found] eqn:E.
  destruct (pop_ctxs_spec _ _ _ _ _ _ _ E Hc) as [Hcs Hs]; [discriminate|].
  assert (H0 : Inv (fst (match saved with Some nr => nr | None => (ns st, rev st) end))
                   (snd (match saved with Some nr => nr | None => (ns st, rev st) end))).
  { destruct saved as [nr|]; [now apply Hs | exact Hi]. }
  destruct (match saved with Some nr => nr | None => (ns st, rev st) end) as [n0 r0]. cbn [fst snd] in H0.
  destruct found as [[|x xs]|]; try (destruct decls as [|d ds]); split; cbn [ns rev ctxs]; auto;
    try apply fix_rev_inv; constructor; auto.
Qed.

Corollary set_ctx_all_inv ops st :
  InvSt st ->
  InvSt (fold_left (fun s op => set_ctx s (fst (fst op)) (snd (fst op)) (snd op)) ops st).
Proof.
  revert st. induction ops as [|op ops IH]; intros st H; cbn [fold_left]; [exact H|].
  apply IH. now apply set_ctx_inv.
Qed.

Theorem map_unmap st u l :
  Inv (ns st) (rev st) -> in_scope st u -> unmap_q st [] (map_q st u l) = (u, l).
Proof.
  intros Hi Hs. unfold map_q, unmap_q. cbn [dupdate fold_left].
  destruct (N.eqb_spec u 0) as [->|Hu].
  - destruct (isnil (ns st)); [reflexivity|].
    destruct (Hs eq_refl) as [E|E]; rewrite E; reflexivity.
  - destruct (isnil (ns st)) eqn:En; [reflexivity|].
    destruct (dget (rev st) u) as [p|] eqn:Er; [|reflexivity].
    apply Hi in Er. destruct (N.eqb_spec p 0) as [->|Hp].
    + rewrite Er. destruct (N.eqb_spec u 0); [contradiction | reflexivity].
    + rewrite Er. reflexivity.
Qed.

(* push then pop restores the maps: a later node at the same or an outer level (deeper than the
   previous stack top) sees the (ns, rev) that were in force before the declaring node *)
Theorem push_pop_restores st obj level decls obj' level' :
  decls <> [] ->
  (forall c, In c (ctxs st) -> c_level c < level') ->
  level' <= level -> obj' <> obj ->
  let st1 := set_ctx st obj level decls in
  let st2 := set_ctx st1 obj' level' [] in
  ns st2 = ns st /\ rev st2 = rev st /\ ctxs st2 = ctxs st.
Proof.
  intros Hd Hlv Hle Hob st1 st2.
  assert (P0 : forall lv o, (forall c, In c (ctxs st) -> c_level c < lv) ->
                            forall sv, pop_ctxs (ctxs st) o lv sv = (ctxs st, sv, None)).
  { intros lv o H sv. destruct (ctxs st) as [|c r]; [reflexivity|].
    cbn [pop_ctxs]. specialize (H c (or_introl eq_refl)).
    destruct (Nat.ltb_spec (c_level c) lv); [reflexivity | lia]. }
  assert (E1 : st1 = {| ns := dupdate (ns st) decls;
                        rev := fix_rev (dupdate (ns st) decls)
                                 (if Nat.eqb level 0 then rev_update_level0 (rev st) decls
                                  else dupdate (rev st) (map (fun kv => (snd kv, fst kv)) decls));
                        ctxs := {| c_obj := obj; c_level := level; c_xmlns := decls;
                                   c_ns := ns st; c_rev := rev st |} :: ctxs st |}).
  { unfold st1, set_ctx. rewrite P0 by (intros c Hc; specialize (Hlv c Hc); lia).
    destruct decls; [contradiction | reflexivity]. }
  unfold st2, set_ctx. rewrite E1. cbn [ctxs pop_ctxs c_level c_obj c_ns c_rev].
  destruct (Nat.ltb_spec level level') as [Hlt|_]; [lia|].
  replace (Nat.eqb level' level && Nat.eqb obj obj') with false.
  2: { symmetry. apply andb_false_iff. right. apply Nat.eqb_neq. congruence. }
  rewrite (P0 level' obj' Hlv). cbn [ns rev ctxs]. auto.
Qed.

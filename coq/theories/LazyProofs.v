From XV Require Import Base Lazy.

Fixpoint dtree_ind' (P : dtree -> Prop)
  (H : forall id decls kids, Forall P kids -> P (DNode id decls kids)) (t : dtree) : P t :=
  match t with
  | DNode id decls kids =>
      H id decls kids ((fix go (l : list dtree) : Forall P l :=
                          match l with
                          | [] => Forall_nil P
                          | x :: r => Forall_cons x (dtree_ind' P H x) (go r)
                          end) kids)
  end.

(* ------------------------------------------------------------------ chunks *)
Lemma chunks_kids d level kids :
  Forall (fun t => forall level rest,
            chunks d level (cevents t ++ rest) =
            (if Nat.leb level d then at_depth (d - level) t else []) ++ chunks d level rest) kids ->
  forall rest,
    chunks d level (flat_map cevents kids ++ rest) =
    (if Nat.leb level d then flat_map (at_depth (d - level)) kids else []) ++ chunks d level rest.
Proof.
  induction 1 as [|t r Ht Hr IH]; intro rest; cbn [flat_map app].
  - destruct (Nat.leb level d); reflexivity.
  - rewrite <- app_assoc, Ht, IH. destruct (Nat.leb level d); [now rewrite app_assoc | reflexivity].
Qed.

Theorem chunks_spec d : forall t level rest,
  chunks d level (cevents t ++ rest) =
  (if Nat.leb level d then at_depth (d - level) t else []) ++ chunks d level rest.
Proof.
  induction t as [id decls kids IH] using dtree_ind'. intros level rest.
  cbn [cevents app chunks]. rewrite <- app_assoc.
  rewrite (chunks_kids d (S level) kids IH). cbn [app chunks pred].
  destruct (Nat.leb_spec level d) as [Hle|Hgt].
  - destruct (Nat.eqb_spec (S level) (S d)) as [E|NE].
    + assert (level = d) by lia. subst level.
      destruct (Nat.leb_spec (S d) d) as [H|_]; [lia|]. rewrite Nat.sub_diag. reflexivity.
    + destruct (Nat.leb_spec (S level) d) as [H|H]; [|lia].
      replace (d - level) with (S (d - S level)) by lia. cbn [at_depth]. reflexivity.
  - destruct (Nat.eqb_spec (S level) (S d)) as [E|NE]; [lia|].
    destruct (Nat.leb_spec (S level) d) as [H|_]; [lia|]. reflexivity.
Qed.

Theorem iter_depth_chunks d t : chunks d 0 (cevents t) = at_depth d t.
Proof.
  pose proof (chunks_spec d t 0 []) as H. rewrite app_nil_r in H. rewrite H.
  cbn [Nat.leb chunks]. rewrite Nat.sub_0_r, app_nil_r. reflexivity.
Qed.

(* a monoid-valued collector folded over the chunks of depth 1 sees every child of the root exactly once,
   in document order *)
Theorem fold_chunks {A} (f : A -> dtree -> A) (a : A) id decls kids :
  fold_left f (chunks 1 0 (cevents (DNode id decls kids))) a = fold_left f kids a.
Proof.
  rewrite iter_depth_chunks. cbn [at_depth]. f_equal.
  induction kids as [|k r IH]; [reflexivity|]. cbn [flat_map at_depth app]. now rewrite IH.
Qed.

(* ------------------------------------------------------------------ namespace-map stack *)
Definition eff (s : st) : list nsmap := if end_ns s then tl (stack s) else stack s.

Lemma run_app s a b : run (run s a) b = run s (a ++ b).
Proof. unfold run. now rewrite fold_left_app. Qed.

Lemma run_startns decls : forall s,
  run s (map (fun pu => XStartNs (fst pu) (snd pu)) decls) =
  {| stack := stack s; start_ns := start_ns s ++ decls; end_ns := end_ns s; recorded := recorded s |}.
Proof.
  unfold run. induction decls as [|[p u] r IH]; intro s; cbn [map fold_left].
  - rewrite app_nil_r. destruct s; reflexivity.
  - rewrite IH. cbn [step stack start_ns end_ns recorded fst snd]. now rewrite <- app_assoc.
Qed.

Lemma run_endns (decls : list (N * N)) : forall s, decls <> [] ->
  run s (map (fun _ => XEndNs) decls) =
  {| stack := stack s; start_ns := start_ns s; end_ns := true; recorded := recorded s |}.
Proof.
  unfold run. induction decls as [|d r IH]; intros s Hne; [congruence|]. cbn [map fold_left].
  destruct r as [|d' r']; [reflexivity|].
  rewrite IH by discriminate. reflexivity.
Qed.

Definition inv_after (E : list nsmap) (t : dtree) (s s' : st) : Prop :=
  eff s' = E /\ start_ns s' = [] /\ recorded s' = recorded s ++ scopes (top E) t.

Lemma run_kids kids : forall E,
  Forall (fun t => forall E s, start_ns s = [] -> eff s = E -> inv_after E t s (run s (events t))) kids ->
  forall s, start_ns s = [] -> eff s = E ->
  let s' := run s (flat_map events kids) in
  eff s' = E /\ start_ns s' = [] /\ recorded s' = recorded s ++ flat_map (scopes (top E)) kids.
Proof.
  intros E H. induction H as [|t r Ht Hr IH]; intros s Hs He; cbn [flat_map].
  - cbn. rewrite app_nil_r. auto.
  - rewrite <- run_app. destruct (Ht E s Hs He) as (H1 & H2 & H3).
    destruct (IH (run s (events t)) H2 H1) as (G1 & G2 & G3).
    repeat split; auto. rewrite G3, H3, <- app_assoc. reflexivity.
Qed.

Lemma step_start s id E decls :
  eff s = E -> start_ns s = decls ->
  step s (XStart id) =
  let stk' := match decls with [] => E | _ :: _ => ns_update (top E) decls :: E end in
  {| stack := stk'; start_ns := []; end_ns := false; recorded := recorded s ++ [(id, top stk')] |}.
Proof. unfold eff. intros <- <-. cbn [step]. destruct (start_ns s); reflexivity. Qed.

Lemma step_end s id E : eff s = E -> start_ns s = [] ->
  step s (XEnd id) = {| stack := E; start_ns := []; end_ns := false; recorded := recorded s |}.
Proof. unfold eff. intros <- Hs. cbn [step]. now rewrite Hs. Qed.

Theorem nsmap_stack : forall t E s,
  start_ns s = [] -> eff s = E -> inv_after E t s (run s (events t)).
Proof.
  induction t as [id decls kids IH] using dtree_ind'. intros E s Hs He.
  cbn [events]. rewrite <- run_app, run_startns, Hs. cbn [app].
  set (s0 := {| stack := stack s; start_ns := decls; end_ns := end_ns s; recorded := recorded s |}).
  assert (He0 : eff s0 = E) by exact He.
  set (stk' := match decls with [] => E | _ :: _ => ns_update (top E) decls :: E end).
  change (XStart id :: flat_map events kids ++ XEnd id :: map (fun _ => XEndNs) decls)
    with ([XStart id] ++ flat_map events kids ++ [XEnd id] ++ map (fun _ => XEndNs) decls).
  rewrite <- !run_app.
  assert (H1 : run s0 [XStart id] =
               {| stack := stk'; start_ns := []; end_ns := false; recorded := recorded s ++ [(id, top stk')] |}).
  { unfold run. cbn [fold_left]. now rewrite (step_start s0 id E decls He0 eq_refl). }
  rewrite H1. clear H1.
  set (s1 := {| stack := stk'; start_ns := []; end_ns := false; recorded := recorded s ++ [(id, top stk')] |}).
  destruct (run_kids kids stk' IH s1 eq_refl eq_refl) as (K1 & K2 & K3).
  set (s2 := run s1 (flat_map events kids)) in *.
  assert (H3 : run s2 [XEnd id] = {| stack := stk'; start_ns := []; end_ns := false; recorded := recorded s2 |}).
  { unfold run. cbn [fold_left]. now rewrite (step_end s2 id stk' K1 K2). }
  rewrite H3. clear H3.
  unfold inv_after. cbn [scopes].
  assert (Htop : (match decls with [] => top E | _ :: _ => ns_update (top E) decls end) = top stk').
  { unfold stk'. destruct decls; reflexivity. }
  rewrite Htop.
  destruct decls as [|d r].
  - cbn [map]. unfold run at 1. cbn [fold_left]. unfold eff. cbn [end_ns stack start_ns recorded].
    repeat split; auto. rewrite K3. cbn [recorded s1]. rewrite <- app_assoc. reflexivity.
  - rewrite run_endns by discriminate. unfold eff. cbn [end_ns stack start_ns recorded tl].
    repeat split; auto. rewrite K3. cbn [recorded s1]. rewrite <- app_assoc. reflexivity.
Qed.

Theorem nsmap_recorded t :
  recorded (run {| stack := [[]]; start_ns := []; end_ns := false; recorded := [] |} (events t)) = scopes [] t.
Proof.
  destruct (nsmap_stack t [[]] {| stack := [[]]; start_ns := []; end_ns := false; recorded := [] |} eq_refl eq_refl)
    as (_ & _ & H). exact H.
Qed.

(* ---- namespaces in scope for an element processed on its own ---- *)
Lemma scope_chunk_gen : forall a t inh m,
  scope_at inh t a = Some m -> fold_left ns_update (decls_along t a) (ns_update inh (d_decls t)) = m.
Proof.
  induction a as [|i r IH]; intros t inh m H; cbn [scope_at decls_along fold_left] in *.
  - now injection H.
  - destruct (nth_error (d_kids t) i) as [c|]; [|discriminate]. cbn [fold_left]. now apply IH.
Qed.

Theorem scope_chunk_is_scope t a m : scope_at [] t a = Some m -> scope_chunk t a = m.
Proof. apply scope_chunk_gen. Qed.

(* <r><a xmlns:p="1"><b/></a></r>: b, processed on its own, must see p; with the root's and its own declarations only
   it does not *)
Theorem scope_chunk_old_refuted :
  exists t a p, (exists m, scope_at [] t a = Some m /\ ns_get m p <> None) /\ ns_get (scope_chunk_old t a) p = None.
Proof.
  exists (DNode 0 [] [DNode 1 [(7, 1)%N] [DNode 2 [] []]]), [0; 0], 7%N. split.
  - eexists. split; [reflexivity | cbv; discriminate].
  - reflexivity.
Qed.

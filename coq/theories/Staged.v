(* Staged global build: model of validators/builders.py StagedMap (load: first declaration of a name
   wins; __getitem__ builds on demand and memoises; a circularity marker stops cyclic builds) and of
   GlobalMaps.build (build every loaded name).
   The factory that turns a declaration and the components it references into a component is a section
   variable: "component construction is a deterministic function of the declaration's name and of the
   components it references" is the recorded assumption that the metamorphic harness probes. *)
From XV Require Import Base.

Section Staged.
Variable payload : Type.
Variable mk : N -> list payload -> payload.

Record decl := { d_name : N; d_deps : list N }.

Fixpoint lookup_decl (ds : list decl) (n : N) : option decl :=
  match ds with
  | [] => None
  | d :: r => if N.eqb (d_name d) n then Some d else lookup_decl r n
  end.

Fixpoint all_some {A} (l : list (option A)) : option (list A) :=
  match l with
  | [] => Some []
  | None :: _ => None
  | Some x :: r => match all_some r with Some xs => Some (x :: xs) | None => None end
  end.

(* specification: the component of a name is the factory applied to the components of its references *)
Fixpoint eval (fuel : nat) (ds : list decl) (n : N) : option payload :=
  match fuel with
  | 0 => None
  | S f => match lookup_decl ds n with
           | None => None
           | Some d => match all_some (map (eval f ds) (d_deps d)) with
                       | Some ps => Some (mk n ps)
                       | None => None
                       end
           end
  end.

(* implementation: on-demand build with a memo store threaded through the references *)
Definition store := list (N * payload).
Fixpoint sget (s : store) (n : N) : option payload :=
  match s with [] => None | (k, p) :: r => if N.eqb k n then Some p else sget r n end.

(* build the references one after the other, threading the store *)
Fixpoint thread (b : store -> N -> option (payload * store)) (l : list N) (s : store)
  : option (list payload * store) :=
  match l with
  | [] => Some ([], s)
  | m :: r => match b s m with
              | Some (p, s') => match thread b r s' with
                                | Some (ps, s'') => Some (p :: ps, s'')
                                | None => None
                                end
              | None => None
              end
  end.

Fixpoint build (fuel : nat) (ds : list decl) (s : store) (n : N) : option (payload * store) :=
  match fuel with
  | 0 => None                       (* circularity marker hit / depth exhausted *)
  | S f =>
      match sget s n with
      | Some p => Some (p, s)
      | None =>
          match lookup_decl ds n with
          | None => None
          | Some d =>
              match thread (build f ds) (d_deps d) s with
              | Some (ps, s') => let p := mk n ps in Some (p, (n, p) :: s')
              | None => None
              end
          end
      end
  end.

(* GlobalMaps.build: build every name in load order *)
Fixpoint build_all (fuel : nat) (ds : list decl) (names : list N) (s : store) : option store :=
  match names with
  | [] => Some s
  | n :: r => match build fuel ds s n with Some (_, s') => build_all fuel ds r s' | None => None end
  end.

Definition store_ok (ds : list decl) (s : store) : Prop :=
  forall n p, sget s n = Some p -> exists f, eval f ds n = Some p.
End Staged.

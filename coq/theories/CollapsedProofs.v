From XV Require Import Base Collapsed.
From Coq Require Import FinFun.

Lemma peqb_eq a b : peqb a b = true <-> a = b.
Proof.
  destruct a as [a1 a2], b as [b1 b2]; unfold peqb; cbn [fst snd].
  rewrite andb_true_iff, !N.eqb_eq. split; [intros [-> ->]; reflexivity | intro H; injection H; auto].
Qed.

Lemma peqb_refl a : peqb a a = true.
Proof. apply peqb_eq; reflexivity. Qed.

Lemma peqb_spec a b : reflect (a = b) (peqb a b).
Proof. destruct (peqb a b) eqn:E; constructor; [apply peqb_eq; exact E | intro H; apply peqb_eq in H; congruence]. Qed.

Lemma fget_app n m p : fget (n ++ m) p = match fget n p with Some u => Some u | None => fget m p end.
Proof.
  induction n as [|[p' u'] r IH]; cbn [app fget]; [reflexivity|].
  destruct (peqb p p'); [reflexivity | exact IH].
Qed.

Lemma rget_app r m u : rget (r ++ m) u = match rget r u with Some p => Some p | None => rget m u end.
Proof.
  induction r as [|[u' p'] t IH]; cbn [app rget]; [reflexivity|].
  destruct (N.eqb u u'); [reflexivity | exact IH].
Qed.

Lemma fget_In n p u : fget n p = Some u -> In p (map fst n).
Proof.
  induction n as [|[p' u'] r IH]; cbn [fget map fst In]; [discriminate|].
  destruct (peqb_spec p p') as [->|Hne]; [intros _; now left | intro H; right; auto].
Qed.

(* ---- the renaming loop terminates within length n + 1 candidates *)
Fixpoint nth_succ (i : nat) (p : pfx) : pfx :=
  match i with O => p | S j => nth_succ j (psucc p) end.

Lemma nth_succ_fst i : forall p, fst (nth_succ i p) = fst p.
Proof. induction i as [|i IH]; intro p; cbn [nth_succ]; [reflexivity | rewrite IH; reflexivity]. Qed.

Lemma nth_succ_snd i : forall p, snd (nth_succ i p) = (snd p + N.of_nat i)%N.
Proof.
  induction i as [|i IH]; intro p; cbn [nth_succ].
  - rewrite N.add_0_r; reflexivity.
  - rewrite IH. unfold psucc; cbn [snd]. lia.
Qed.

Lemma pick_none fuel : forall n p u, pick fuel n p u = None ->
  forall i, i < fuel -> fget n (nth_succ i p) <> None.
Proof.
  induction fuel as [|f IH]; intros n p u H i Hi; [lia|].
  cbn [pick] in H. destruct (fget n p) as [u'|] eqn:E; [|discriminate].
  destruct (N.eqb u' u); [discriminate|].
  destruct i as [|j]; cbn [nth_succ]; [congruence|].
  apply (IH n (psucc p) u H). lia.
Qed.

Lemma pick_total n p u : pick (S (length n)) n p u <> None.
Proof.
  intro H.
  pose (cand := map (fun i => nth_succ i p) (seq 0 (S (length n)))).
  assert (Hnd : NoDup cand).
  { apply Injective_map_NoDup; [|apply seq_NoDup].
    intros i j Hij. apply (f_equal snd) in Hij. rewrite !nth_succ_snd in Hij. lia. }
  assert (Hin : incl cand (map fst n)).
  { intros x Hx. apply in_map_iff in Hx as [i [<- Hi]]. apply in_seq in Hi.
    pose proof (pick_none _ _ _ _ H i ltac:(lia)) as Hb.
    destruct (fget n (nth_succ i p)) as [u'|] eqn:E; [|congruence].
    eapply fget_In; exact E. }
  pose proof (NoDup_incl_length Hnd Hin) as Hlen.
  unfold cand in Hlen. rewrite !map_length, seq_length in Hlen. lia.
Qed.

(* what pick returns *)
Lemma pick_free fuel : forall n p u p', pick fuel n p u = Some (Some p') -> fget n p' = None.
Proof.
  induction fuel as [|f IH]; intros n p u p' H; cbn [pick] in H; [discriminate|].
  destruct (fget n p) as [u'|] eqn:E.
  - destruct (N.eqb u' u); [discriminate | eauto].
  - injection H as <-. exact E.
Qed.

Lemma pick_bound fuel : forall n p u, pick fuel n p u = Some None -> exists q, fget n q = Some u.
Proof.
  induction fuel as [|f IH]; intros n p u H; cbn [pick] in H; [discriminate|].
  destruct (fget n p) as [u'|] eqn:E; [|discriminate].
  destruct (N.eqb_spec u' u) as [->|Hne]; [exists p; exact E | eauto].
Qed.

Lemma bind_renamed_total n r p u : bind_renamed n r p u <> None.
Proof.
  unfold bind_renamed. pose proof (pick_total n p u) as H.
  destruct (pick (S (length n)) n p u) as [[q|]|]; congruence.
Qed.

Lemma decl_step_total lv st d : decl_step lv st d <> None.
Proof.
  destruct st as [n r], d as [p u]. unfold decl_step.
  destruct (peqb p p_empty); [|apply bind_renamed_total].
  destruct (N.eqb u 0); [discriminate|].
  destruct (fget n p_empty) as [d0|].
  - destruct (N.eqb d0 u); [discriminate | apply bind_renamed_total].
  - destruct (Nat.eqb lv 0); [discriminate | apply bind_renamed_total].
Qed.

Lemma decls_steps_total lv ds : forall st, decls_steps lv st ds <> None.
Proof.
  induction ds as [|d rest IH]; intro st; cbn [decls_steps]; [discriminate|].
  pose proof (decl_step_total lv st d) as H.
  destruct (decl_step lv st d) as [st'|]; [apply IH | congruence].
Qed.

Lemma run_total c ops : forall st, run c st ops <> None.
Proof.
  induction ops as [|[lv ds] rest IH]; intro st; cbn [run]; [discriminate|].
  unfold elem_step. destruct (Nat.eqb lv 0 || c).
  - pose proof (decls_steps_total lv ds st) as H.
    destruct (decls_steps lv st ds) as [st'|]; [apply IH | congruence].
  - apply IH.
Qed.

(* ---- one append keeps the invariants and every earlier binding *)
Definition extends (a b : fwd * rvs) : Prop :=
  (forall p u, fget (fst a) p = Some u -> fget (fst b) p = Some u) /\
  (forall u p, rget (snd a) u = Some p -> rget (snd b) u = Some p).

Lemma extends_refl a : extends a a.
Proof. split; auto. Qed.

Lemma extends_trans a b c : extends a b -> extends b c -> extends a c.
Proof. intros [H1 H2] [H3 H4]. split; auto. Qed.

Lemma radd_get r u p u' : rget (radd r u p) u' =
  match rget r u' with Some q => Some q | None => if N.eqb u' u then Some p else None end.
Proof.
  unfold radd. destruct (rget r u) as [q|] eqn:E.
  - destruct (rget r u') as [q'|] eqn:E'; [reflexivity|].
    destruct (N.eqb_spec u' u) as [->|]; [congruence | reflexivity].
  - rewrite rget_app. cbn [rget]. destruct (rget r u'); reflexivity.
Qed.

Lemma append_ok n r p u : fget n p = None -> Inv (n, r) -> Cov (n, r) ->
  Inv (n ++ [(p, u)], radd r u p) /\ Cov (n ++ [(p, u)], radd r u p) /\ extends (n, r) (n ++ [(p, u)], radd r u p)
  /\ rget (radd r u p) u <> None.
Proof.
  intros Hfree HI HC. unfold Inv, Cov, extends in *. cbn [fst snd] in *. repeat split.
  - intros u' q. rewrite radd_get, fget_app. destruct (rget r u') as [q'|] eqn:E.
    + intro H; injection H as <-. rewrite (HI _ _ E). reflexivity.
    + destruct (N.eqb_spec u' u) as [->|]; [|discriminate]. intro H; injection H as <-.
      rewrite Hfree. cbn [fget]. rewrite peqb_refl. reflexivity.
  - intros q u'. rewrite fget_app, radd_get. destruct (fget n q) as [u''|] eqn:E.
    + intro H; injection H as ->. pose proof (HC _ _ E) as Hc. destruct (rget r u'); congruence.
    + cbn [fget]. destruct (peqb q p); [|discriminate]. intro H; injection H as <-.
      destruct (rget r u); [discriminate|]. rewrite N.eqb_refl. discriminate.
  - intros q u' H. rewrite fget_app, H. reflexivity.
  - intros u' q H. rewrite radd_get, H. reflexivity.
  - rewrite radd_get. destruct (rget r u); [discriminate|]. rewrite N.eqb_refl. discriminate.
Qed.

Definition good_step (st st' : fwd * rvs) (u : N) : Prop :=
  Inv st' /\ Cov st' /\ extends st st' /\ rget (snd st') u <> None.

Lemma bind_renamed_ok n r p u st' : Inv (n, r) -> Cov (n, r) ->
  bind_renamed n r p u = Some st' -> good_step (n, r) st' u.
Proof.
  intros HI HC. unfold bind_renamed.
  destruct (pick (S (length n)) n p u) as [[q|]|] eqn:E; [| |discriminate]; intro H; injection H as <-.
  - pose proof (pick_free _ _ _ _ _ E) as Hfree.
    destruct (append_ok n r q u Hfree HI HC) as (A & B & C & D).
    split; [exact A | split; [exact B | split; [exact C | exact D]]].
  - destruct (pick_bound _ _ _ _ E) as [q Hq].
    split; [exact HI | split; [exact HC | split; [apply extends_refl | exact (HC _ _ Hq)]]].
Qed.

Lemma decl_step_ok lv st p u st' : Inv st -> Cov st -> decl_step lv st (p, u) = Some st' ->
  Inv st' /\ Cov st' /\ extends st st' /\ (u <> 0%N -> rget (snd st') u <> None).
Proof.
  destruct st as [n r]. intros HI HC. unfold decl_step.
  assert (G : forall q, bind_renamed n r q u = Some st' ->
              Inv st' /\ Cov st' /\ extends (n, r) st' /\ (u <> 0%N -> rget (snd st') u <> None)).
  { intros q H. destruct (bind_renamed_ok _ _ _ _ _ HI HC H) as (A & B & C & D).
    split; [exact A | split; [exact B | split; [exact C | intros _; exact D]]]. }
  destruct (peqb p p_empty); [|apply G].
  destruct (N.eqb_spec u 0) as [->|Hu].
  - intro H; injection H as <-.
    split; [exact HI | split; [exact HC | split; [apply extends_refl | congruence]]].
  - destruct (fget n p_empty) as [d0|] eqn:E.
    + destruct (N.eqb_spec d0 u) as [->|Hne]; [|apply G].
      intro H; injection H as <-.
      split; [exact HI | split; [exact HC | split; [apply extends_refl | intros _; exact (HC _ _ E)]]].
    + destruct (Nat.eqb lv 0); [|apply G].
      intro H; injection H as <-. destruct (append_ok n r p_empty u E HI HC) as (A & B & C & D).
      split; [exact A | split; [exact B | split; [exact C | intros _; exact D]]].
Qed.

Lemma decls_steps_ok lv ds : forall st st', Inv st -> Cov st -> decls_steps lv st ds = Some st' ->
  Inv st' /\ Cov st' /\ extends st st' /\ (forall p u, In (p, u) ds -> u <> 0%N -> rget (snd st') u <> None).
Proof.
  induction ds as [|[p u] rest IH]; intros st st' HI HC; cbn [decls_steps].
  - intro H; injection H as <-.
    split; [exact HI | split; [exact HC | split; [apply extends_refl | intros ? ? []]]].
  - destruct (decl_step lv st (p, u)) as [st1|] eqn:E; [|discriminate]. intro H.
    destruct (decl_step_ok _ _ _ _ _ HI HC E) as (A & B & C & D).
    destruct (IH _ _ A B H) as (A' & B' & C' & D').
    split; [exact A' | split; [exact B' | split; [eapply extends_trans; eauto|]]].
    intros q v [Hin|Hin] Hv; [|eauto].
    injection Hin as <- <-. specialize (D Hv).
    destruct (rget (snd st1) u) as [q'|] eqn:Eq; [|congruence].
    destruct C' as [_ C2]. rewrite (C2 _ _ Eq). discriminate.
Qed.

Lemma elem_step_ok c st op st' : Inv st -> Cov st -> elem_step c st op = Some st' ->
  Inv st' /\ Cov st' /\ extends st st'.
Proof.
  destruct op as [lv ds]. intros HI HC. unfold elem_step. destruct (Nat.eqb lv 0 || c).
  - intro H. destruct (decls_steps_ok _ _ _ _ HI HC H) as (A & B & C & _). auto.
  - intro H; injection H as <-. split; [exact HI | split; [exact HC | apply extends_refl]].
Qed.

Lemma run_ok c ops : forall st st', Inv st -> Cov st -> run c st ops = Some st' ->
  Inv st' /\ Cov st' /\ extends st st'.
Proof.
  induction ops as [|op rest IH]; intros st st' HI HC; cbn [run].
  - intro H; injection H as <-. split; [exact HI | split; [exact HC | apply extends_refl]].
  - destruct (elem_step c st op) as [st1|] eqn:E; [|discriminate]. intro H.
    destruct (elem_step_ok _ _ _ _ HI HC E) as (A & B & C).
    destruct (IH _ _ A B H) as (A' & B' & C').
    split; [exact A' | split; [exact B' | eapply extends_trans; eauto]].
Qed.

Lemma run_app c ops1 : forall ops2 st, run c st (ops1 ++ ops2) =
  match run c st ops1 with Some st1 => run c st1 ops2 | None => None end.
Proof.
  induction ops1 as [|op rest IH]; intros ops2 st; cbn [app run]; [reflexivity|].
  destruct (elem_step c st op); [apply IH | reflexivity].
Qed.

(* ---- the initial state *)
Lemma init_inv_cov ds : NoDup (map fst ds) -> Inv (init_state ds) /\ Cov (init_state ds).
Proof.
  intro Hnd. unfold init_state.
  assert (G : forall pre post r, ds = pre ++ post -> Inv (pre, r) -> Cov (pre, r) ->
              (forall u p, rget r u = Some p -> fget ds p = Some u) ->
              let r' := fold_left (fun r d => radd r (snd d) (fst d)) post r in
              (forall u p, rget r' u = Some p -> fget ds p = Some u) /\
              (forall p u, fget ds p = Some u -> rget r' u <> None)).
  { intros pre post. revert pre. induction post as [|[p u] rest IH]; intros pre r Hds HI HC Hr; cbn [fold_left].
    - rewrite app_nil_r in Hds. subst pre. split; [exact Hr | exact HC].
    - cbn [fst snd]. apply (IH (pre ++ [(p, u)])).
      + rewrite <- app_assoc. exact Hds.
      + assert (Hfree : fget pre p = None).
        { destruct (fget pre p) as [v|] eqn:E; [|reflexivity]. exfalso.
          apply fget_In in E. rewrite Hds, map_app in Hnd. cbn [map fst] in Hnd.
          apply NoDup_remove_2 in Hnd. apply Hnd. apply in_or_app. left. exact E. }
        exact (proj1 (append_ok pre r p u Hfree HI HC)).
      + assert (Hfree : fget pre p = None).
        { destruct (fget pre p) as [v|] eqn:E; [|reflexivity]. exfalso.
          apply fget_In in E. rewrite Hds, map_app in Hnd. cbn [map fst] in Hnd.
          apply NoDup_remove_2 in Hnd. apply Hnd. apply in_or_app. left. exact E. }
        exact (proj1 (proj2 (append_ok pre r p u Hfree HI HC))).
      + intros u' q. rewrite radd_get. destruct (rget r u') as [q'|] eqn:E.
        * intro H; injection H as <-. eauto.
        * destruct (N.eqb_spec u' u) as [->|]; [|discriminate]. intro H; injection H as <-.
          rewrite Hds, fget_app.
          destruct (fget pre p) as [v|] eqn:Ep.
          { exfalso. apply fget_In in Ep. rewrite Hds, map_app in Hnd. cbn [map fst] in Hnd.
            apply NoDup_remove_2 in Hnd. apply Hnd. apply in_or_app. left. exact Ep. }
          cbn [fget]. rewrite peqb_refl. reflexivity. }
  destruct (G [] ds [] eq_refl) as [A B].
  - intros u p H; discriminate.
  - intros p u H; discriminate.
  - intros u p H; discriminate.
  - split; [exact A | exact B].
Qed.

(* ---- the property of the collapsed / root-only modes: a key written at any moment of the traversal resolves,
   against the declarations reported at the end, to the namespace it was written for *)
Theorem keys_resolve_at_end c ds ops1 ops2 st1 st2 u l :
  NoDup (map fst ds) ->
  run c (init_state ds) ops1 = Some st1 -> run c st1 ops2 = Some st2 ->
  u <> 0%N ->
  resolve_key (fst st2) (map_key st1 u l) = Some (u, l).
Proof.
  intros Hnd H1 H2 Hu.
  destruct (init_inv_cov ds Hnd) as [I0 C0].
  destruct (run_ok _ _ _ _ I0 C0 H1) as (I1 & C1 & _).
  destruct (run_ok _ _ _ _ I1 C1 H2) as (_ & _ & [E _]).
  unfold map_key. destruct (N.eqb_spec u 0) as [|_]; [congruence|].
  destruct (rget (snd st1) u) as [p|] eqn:Er; [|reflexivity].
  pose proof (E _ _ (I1 _ _ Er)) as Hf.
  destruct (peqb_spec p p_empty) as [->|Hne]; cbn [resolve_key]; rewrite Hf; reflexivity.
Qed.

(* in collapsed mode every namespace declared on an element has a prefix from then on: its names are never left in
   the {uri}local form and never fall back to another binding *)
Theorem declared_namespace_is_mapped ds ops st lv decls st' p u :
  NoDup (map fst ds) ->
  run true (init_state ds) ops = Some st -> elem_step true st (lv, decls) = Some st' ->
  In (p, u) decls -> u <> 0%N -> rget (snd st') u <> None.
Proof.
  intros Hnd H1 H2 Hin Hu.
  destruct (init_inv_cov ds Hnd) as [I0 C0].
  destruct (run_ok _ _ _ _ I0 C0 H1) as (I1 & C1 & _).
  unfold elem_step in H2. rewrite orb_true_r in H2.
  destruct (decls_steps_ok _ _ _ _ I1 C1 H2) as (_ & _ & _ & D). eauto.
Qed.

(* the seeded change (reverse entry written before the renaming loop) breaks the invariant *)
Theorem bind_early_refuted : exists n r p u st',
  Inv (n, r) /\ Cov (n, r) /\ bind_early n r p u = Some st' /\ ~ Inv st'.
Proof.
  exists [((7, 0), 101)]%N, [(101, (7, 0))]%N, (7, 0)%N, 102%N, ([((7, 0), 101); ((7, 1), 102)]%N, [(101, (7, 0)); (102, (7, 0))]%N).
  split; [|split; [|split]].
  - intros u p. cbn. destruct (N.eqb u 101) eqn:E; [|discriminate].
    apply N.eqb_eq in E. subst. intro H; injection H as <-. reflexivity.
  - intros p u. cbn. destruct (peqb p (7, 0)%N); [|discriminate]. intro H; injection H as <-. discriminate.
  - vm_compute. reflexivity.
  - intro H. specialize (H 102%N (7, 0)%N eq_refl). vm_compute in H. discriminate.
Qed.

(* the recorded finding F-C17c: a name in no namespace is written as a bare local name; once the root reports a
   non-empty default namespace that key resolves into it *)
Theorem bare_name_refuted : exists ds ops st l,
  run true (init_state ds) ops = Some st /\ resolve_key (fst st) (map_key st 0 l) <> Some (0%N, l).
Proof.
  exists [(p_empty, 101%N)], [(1, [(p_empty, 0%N)])], ([(p_empty, 101%N)], [(101%N, p_empty)]), 5%N.
  split; [vm_compute; reflexivity | vm_compute; discriminate].
Qed.

(* Lazy (streaming) iteration: model of resources/xml_loader.py
   - the namespace-map stack driven by start-ns / start / end / end-ns events (_lazy_iterparse and, after the
     fix, _parse), and
   - iter_depth: the chunks yielded at a given depth.
   Documents are rose trees whose nodes carry an id and their own namespace declarations. *)
From XV Require Import Base.

Definition nsmap := list (N * N).
Fixpoint ns_set (m : nsmap) (p u : N) : nsmap :=
  match m with
  | [] => [(p, u)]
  | (p', u') :: r => if N.eqb p p' then (p', u) :: r else (p', u') :: ns_set r p u
  end.
Definition ns_update (m : nsmap) (decls : list (N * N)) : nsmap :=
  fold_left (fun m pu => ns_set m (fst pu) (snd pu)) decls m.

Inductive dtree := DNode (id : nat) (decls : list (N * N)) (kids : list dtree).

Inductive xev := XStartNs (p u : N) | XStart (id : nat) | XEnd (id : nat) | XEndNs.

(* the event stream expat produces: declarations before the start tag, one end-ns per declaration after the end *)
Fixpoint events (t : dtree) : list xev :=
  match t with
  | DNode id decls kids =>
      map (fun pu => XStartNs (fst pu) (snd pu)) decls ++ XStart id ::
      flat_map events kids ++ XEnd id :: map (fun _ => XEndNs) decls
  end.

Record st := { stack : list nsmap; start_ns : list (N * N); end_ns : bool; recorded : list (nat * nsmap) }.

Definition top (s : list nsmap) : nsmap := match s with m :: _ => m | [] => [] end.

Definition step (s : st) (e : xev) : st :=
  match e with
  | XStartNs p u => {| stack := stack s; start_ns := start_ns s ++ [(p, u)]; end_ns := end_ns s; recorded := recorded s |}
  | XEndNs => {| stack := stack s; start_ns := start_ns s; end_ns := true; recorded := recorded s |}
  | XStart id =>
      let stk := if end_ns s then tl (stack s) else stack s in
      let stk' := match start_ns s with [] => stk | d => ns_update (top stk) d :: stk end in
      {| stack := stk'; start_ns := []; end_ns := false; recorded := recorded s ++ [(id, top stk')] |}
  | XEnd id =>
      {| stack := if end_ns s then tl (stack s) else stack s; start_ns := start_ns s; end_ns := false;
         recorded := recorded s |}
  end.
Definition run (s : st) (evs : list xev) : st := fold_left step evs s.

(* the in-scope namespaces of every node, in document order: what a fully loaded tree reports *)
Fixpoint scopes (inherited : nsmap) (t : dtree) : list (nat * nsmap) :=
  match t with
  | DNode id decls kids =>
      let m := match decls with [] => inherited | d => ns_update inherited d end in
      (id, m) :: flat_map (scopes m) kids
  end.

(* ------------------------------------------------------------------ iter_depth chunks *)
Inductive cev := CStart (t : dtree) | CEnd (t : dtree).
Fixpoint cevents (t : dtree) : list cev :=
  match t with DNode _ _ kids => CStart t :: flat_map cevents kids ++ [CEnd t] end.

(* level counter; a subtree is yielded when its end event closes level d *)
Fixpoint chunks (d : nat) (level : nat) (evs : list cev) : list dtree :=
  match evs with
  | [] => []
  | CStart _ :: r => chunks d (S level) r
  | CEnd t :: r => if Nat.eqb level (S d) then t :: chunks d (pred level) r else chunks d (pred level) r
  end.

Fixpoint at_depth (d : nat) (t : dtree) : list dtree :=
  match d with
  | 0 => [t]
  | S d' => match t with DNode _ _ kids => flat_map (at_depth d') kids end
  end.

(* ------------------------------------------------------------------ namespaces in scope for an element processed on its own
   A chunk of a lazy resource, or an element selected by a path, is validated without its ancestors being traversed
   (schemas.py iter_errors / iter_decode, after repo fix 78d8359): the namespace map is the root's, updated with the
   declarations of the ancestors below the root and with the element's own. *)
Definition d_decls (t : dtree) : list (N * N) := match t with DNode _ d _ => d end.
Definition d_kids (t : dtree) : list dtree := match t with DNode _ _ k => k end.

Fixpoint decls_along (t : dtree) (a : list nat) : list (list (N * N)) :=
  match a with
  | [] => []
  | i :: r => match nth_error (d_kids t) i with Some c => d_decls c :: decls_along c r | None => [] end
  end.
Definition scope_chunk (t : dtree) (a : list nat) : nsmap :=
  fold_left ns_update (decls_along t a) (ns_update [] (d_decls t)).

(* what the fully loaded tree reports for the node at address a *)
Fixpoint scope_at (inherited : nsmap) (t : dtree) (a : list nat) : option nsmap :=
  let m := ns_update inherited (d_decls t) in
  match a with
  | [] => Some m
  | i :: r => match nth_error (d_kids t) i with Some c => scope_at m c r | None => None end
  end.

(* before the fix: the declarations of the root and the element's own only *)
Definition scope_chunk_old (t : dtree) (a : list nat) : nsmap :=
  ns_update (ns_update [] (d_decls t)) (last (decls_along t a) []).

Fixpoint ns_get (m : nsmap) (p : N) : option N :=
  match m with [] => None | (p', u) :: r => if N.eqb p p' then Some u else ns_get r p end.

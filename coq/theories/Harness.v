(* Executable glue used only by the correspondence harness (no theorems depend on it). *)
From XV Require Import Base Regex Particle Upa.

Fixpoint words_len (sigma : list N) (n : nat) : list (list N) :=
  match n with
  | 0 => [[]]
  | S k => flat_map (fun x => map (cons x) (words_len sigma k)) sigma
  end.
Definition words_upto (sigma : list N) (n : nat) : list (list N) :=
  flat_map (words_len sigma) (seq 0 (S n)).

(* indices of the words on which f disagrees with the bit vector `bits` (bit i = verdict on word i) *)
Fixpoint mism_aux (f : list N -> bool) (ws : list (list N)) (i : N) (bits : N) : list N :=
  match ws with
  | [] => []
  | w :: r => let rest := mism_aux f r (N.succ i) bits in
              if Bool.eqb (f w) (N.testbit bits i) then rest else i :: rest
  end.
Definition count_true (f : list N -> bool) (ws : list (list N)) : nat := length (filter f ws).

Definition pair_excused (l : list (nat * nat)) (p q : nat) : bool :=
  existsb (fun ab => (Nat.eqb (fst ab) p && Nat.eqb (snd ab) q) || (Nat.eqb (fst ab) q && Nat.eqb (snd ab) p)) l.

(* C01 case: (UPA verdict, number of accepted words, mismatching word indices) *)
Definition c01_case (p : part) (sigma : list N) (pids : list nat) (fuel n : nat) (bits : N)
  : option bool * nat * list N :=
  let ws := words_upto sigma n in
  (upa_check sigma pids (fun _ _ => false) fuel (compile p), count_true (accepts p) ws,
   mism_aux (accepts p) ws 0%N bits).

Definition c01_open_case (suffix : bool) (p : part) (wild : leaf) (sigma : list N) (pids : list nat)
  (fuel n : nat) (bits : N) : option bool * nat * list N :=
  let ws := words_upto sigma n in
  (upa_check sigma pids (fun _ _ => false) fuel (compile p), count_true (accepts_open suffix p wild) ws,
   mism_aux (accepts_open suffix p wild) ws 0%N bits).

(* XSD 1.1: an element particle and a wildcard that compete for a child are not a UPA violation (the element wins);
   `ex` lists those pairs, the language of the model is unchanged *)
Definition c01_case_ex (p : part) (sigma : list N) (pids : list nat) (ex : list (nat * nat)) (fuel n : nat) (bits : N)
  : option bool * nat * list N :=
  let ws := words_upto sigma n in
  (upa_check sigma pids (pair_excused ex) fuel (compile p), count_true (accepts p) ws,
   mism_aux (accepts p) ws 0%N bits).

(* C15 case: strict UPA verdict and verdict with the excused pairs (XSD 1.1) *)
Definition c15_case (p : part) (sigma : list N) (pids : list nat) (ex : list (nat * nat)) (fuel : nat)
  : option bool * option bool * option nat :=
  (upa_check sigma pids (fun _ _ => false) fuel (compile p),
   upa_check sigma pids (pair_excused ex) fuel (compile p),
   closure_size sigma pids fuel (compile p)).

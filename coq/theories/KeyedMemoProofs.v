From XV Require Import Base.
From XV Require Import KeyedMemo.

Section Proofs.
  Variables (A V : Type) (key : A -> N) (f : A -> V).

  Lemma call_sound c x : (forall a b, key a = key b -> f a = f b) -> sound A V key f c ->
    fst (call A V key f c x) = f x /\ sound A V key f (snd (call A V key f c x)).
  Proof.
    intros Hk Hs. unfold call. destruct (lookup V c (key x)) as [v|] eqn:E; cbn [fst snd].
    - split; [apply Hs; exact E | exact Hs].
    - split; [reflexivity|]. intros y v. cbn [lookup].
      destruct (N.eqb_spec (key y) (key x)) as [Ek|_]; [|apply Hs].
      intro H; injection H as <-. apply Hk. symmetry; exact Ek.
  Qed.

  (* if the function depends on its argument only through the key, every history of calls returns its values *)
  Theorem keyed_memo_history : (forall a b, key a = key b -> f a = f b) ->
    forall xs c, sound A V key f c -> run A V key f c xs = map f xs.
  Proof.
    intros Hk xs. induction xs as [|x r IH]; intros c Hs; cbn [run map]; [reflexivity|].
    destruct (call_sound c x Hk Hs) as [Hv Hs'].
    destruct (call A V key f c x) as [v c1]. cbn [fst snd] in *. rewrite Hv, (IH c1 Hs'). reflexivity.
  Qed.

  (* otherwise a two-call history returns a stale value *)
  Theorem coarse_key_refuted a b : key a = key b -> f a <> f b ->
    run A V key f [] [a; b] <> map f [a; b].
  Proof.
    intros Hk Hf. unfold run, call. cbn [lookup]. rewrite <- Hk. cbn [lookup]. rewrite N.eqb_refl. cbn [map].
    intro H. injection H as H. auto.
  Qed.

  Theorem empty_sound : sound A V key f [].
  Proof. intros x v H. discriminate. Qed.
End Proofs.

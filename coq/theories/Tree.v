(* Document trees, addresses and XPath-like child paths with positional predicates:
   model of utils/etree.py etree_getpath(add_position=True), the path carried by validation errors. *)
From XV Require Import Base.

Inductive tree := Node (tag : N) (kids : list tree).
Definition tag_of (t : tree) : N := match t with Node g _ => g end.
Definition kids_of (t : tree) : list tree := match t with Node _ k => k end.

Definition addr := list nat.

Fixpoint subtree (t : tree) (a : addr) : option tree :=
  match a with
  | [] => Some t
  | i :: r => match nth_error (kids_of t) i with Some c => subtree c r | None => None end
  end.

Definition count_tag (g : N) (l : list tree) : nat := length (filter (fun c => N.eqb (tag_of c) g) l).

(* a step: tag and optional 1-based position among the siblings with the same tag *)
Definition step := (N * option nat)%type.

Fixpoint getpath (t : tree) (a : addr) : option (list step) :=
  match a with
  | [] => Some []
  | i :: r =>
      match nth_error (kids_of t) i with
      | None => None
      | Some c =>
          match getpath c r with
          | None => None
          | Some p =>
              let g := tag_of c in
              let position := S (count_tag g (firstn i (kids_of t))) in
              let siblings := count_tag g (kids_of t) in
              Some ((g, if Nat.eqb siblings 1 then None else Some position) :: p)
          end
      end
  end.

(* indices (shifted by off) of the children with tag g *)
Fixpoint tag_indices (g : N) (l : list tree) (off : nat) : list nat :=
  match l with
  | [] => []
  | c :: r => if N.eqb (tag_of c) g then off :: tag_indices g r (S off) else tag_indices g r (S off)
  end.

Definition step_matches (s : step) (kids : list tree) : list nat :=
  match snd s with
  | None => tag_indices (fst s) kids 0
  | Some k => match k with
              | 0 => []
              | S k' => match nth_error (tag_indices (fst s) kids 0) k' with Some i => [i] | None => [] end
              end
  end.

(* XPath child-step semantics: the addresses selected by a path from t *)
Fixpoint select (fuel : nat) (t : tree) (p : list step) : list addr :=
  match p with
  | [] => [[]]
  | s :: r =>
      match fuel with
      | 0 => []
      | S f =>
          flat_map (fun i => match nth_error (kids_of t) i with
                             | Some c => map (cons i) (select f c r)
                             | None => []
                             end) (step_matches s (kids_of t))
      end
  end.

(* ---- single faults: where can errors appear? ------------------------------------------------------------------
   A validator reports an error at a node when the check of that node fails; the check may look at the whole subtree of
   the node (content model, attribute set, value, identity scopes below it) but at nothing outside it. *)
Fixpoint replace_kid (f : tree -> tree) (l : list tree) (i : nat) : list tree :=
  match l, i with
  | [], _ => []
  | c :: r, 0 => f c :: r
  | c :: r, S j => c :: replace_kid f r j
  end.

(* the document with the subtree at address a replaced by s (the damaged node) *)
Fixpoint replace_at (t : tree) (a : addr) (s : tree) : tree :=
  match a with
  | [] => s
  | i :: r => Node (tag_of t) (replace_kid (fun c => replace_at c r s) (kids_of t) i)
  end.

Definition err_at (chk : tree -> bool) (t : tree) (a : addr) : Prop :=
  exists s, subtree t a = Some s /\ chk s = false.
Definition prefix (x y : addr) : Prop := exists z, y = x ++ z.

From XV Require Import Base Regex Particle ParticleProofs Wildcard WildcardProofs Attrs Restrict.

Theorem occurs_sound mn1 mx1 mn2 mx2 :
  occurs_restriction mn1 mx1 mn2 mx2 = true ->
  forall k, in_range k mn1 mx1 -> in_range k mn2 mx2.
Proof.
  unfold occurs_restriction, in_range. intros H k [H1 H2].
  destruct (Nat.ltb_spec mn1 mn2) as [Hlt|Hge]; [discriminate|].
  destruct mx1 as [[|a]|], mx2 as [b|]; try discriminate; try (split; [lia | exact I]).
  - split; [lia|lia].
  - apply Nat.leb_le in H. split; lia.
Qed.

Theorem attr_use_sound base derived :
  attr_use_restriction base derived = true ->
  forall present, use_admits derived present = true -> use_admits base present = true.
Proof. destruct base, derived; cbn; intros H p Hp; try discriminate; auto. Qed.

Theorem pc_sound derived base :
  pc_restriction derived base = true -> pc_checks_value base <= pc_checks_value derived.
Proof. destruct derived, base; cbn; intro H; try discriminate; lia. Qed.

Lemma words_len_spec sigma n w : In w (words_len sigma n) <-> length w = n /\ Forall (fun x => In x sigma) w.
Proof.
  revert w. induction n as [|n IH]; intro w; cbn [words_len].
  - split.
    + intros [<-|[]]. split; [reflexivity | constructor].
    + intros [H _]. destruct w; [now left | discriminate].
  - rewrite in_flat_map. split.
    + intros [x [Hx Hw]]. apply in_map_iff in Hw as [w' [<- Hw']]. apply IH in Hw' as [Hl Hf].
      split; [cbn; lia | constructor; assumption].
    + intros [Hl Hf]. destruct w as [|x w']; [discriminate|]. inversion Hf; subst.
      exists x. split; [assumption|]. apply in_map. apply IH. split; [cbn in Hl; lia | assumption].
Qed.

Lemma words_upto_spec sigma n w :
  In w (words_upto sigma n) <-> length w <= n /\ Forall (fun x => In x sigma) w.
Proof.
  unfold words_upto. rewrite in_flat_map. split.
  - intros [k [Hk Hw]]. apply in_seq in Hk. apply words_len_spec in Hw as [Hl Hf]. split; [lia | assumption].
  - intros [Hl Hf]. exists (length w). split; [apply in_seq; lia | apply words_len_spec; auto].
Qed.

Theorem incl_upto_exact sigma n d b :
  incl_upto sigma n d b = true <->
  forall w, length w <= n -> Forall (fun x => In x sigma) w -> plang d w -> plang b w.
Proof.
  unfold incl_upto. rewrite forallb_forall. split.
  - intros H w Hl Hf Hd. specialize (H w (proj2 (words_upto_spec sigma n w) (conj Hl Hf))).
    apply accepts_iff_word in Hd. rewrite Hd in H. cbn in H. now apply accepts_iff_word.
  - intros H w Hin. apply words_upto_spec in Hin as [Hl Hf].
    destruct (accepts d w) eqn:Ed; [|reflexivity]. cbn.
    apply accepts_iff_word. apply H; auto. now apply accepts_iff_word.
Qed.

Theorem counterexample_sound sigma n d b w :
  incl_counterexample sigma n d b = Some w -> plang d w /\ ~ plang b w.
Proof.
  unfold incl_counterexample. intro H. apply find_some in H as [_ H].
  apply andb_prop in H as [H1 H2]. apply negb_true_iff in H2. split.
  - now apply accepts_iff_word.
  - intro Hb. apply accepts_iff_word in Hb. congruence.
Qed.

(* ---- monotonicity: the semantic facts behind the restriction case analysis ---- *)
Lemma repn_mono (P Q : list N -> Prop) : (forall w, P w -> Q w) -> forall k w, repn P k w -> repn Q k w.
Proof. intros H k w R. induction R; constructor; auto. Qed.

Theorem repeat_mono (P Q : list N -> Prop) mn1 mx1 mn2 mx2 :
  (forall w, P w -> Q w) -> occurs_restriction mn1 mx1 mn2 mx2 = true ->
  forall w, occ P mn1 mx1 w -> occ Q mn2 mx2 w.
Proof.
  intros H Ho w [k [Hr Hk]]. exists k. split; [now apply (occurs_sound _ _ _ _ Ho) | now apply (repn_mono P Q H)].
Qed.

Theorem leaf_mono pid pid' l l' mn1 mx1 mn2 mx2 :
  (forall x, leaf_match l x = true -> leaf_match l' x = true) ->
  occurs_restriction mn1 mx1 mn2 mx2 = true ->
  forall w, plang (PLeaf pid l mn1 mx1) w -> plang (PLeaf pid' l' mn2 mx2) w.
Proof.
  intros Hl Ho w. cbn [plang]. apply repeat_mono; [|exact Ho].
  intros u [x [-> Hx]]. exists x. auto.
Qed.

Theorem seq_mono p p' ps ps' :
  (forall w, plang p w -> plang p' w) -> (forall w, seql ps w -> seql ps' w) ->
  forall w, seql (PCons p ps) w -> seql (PCons p' ps') w.
Proof. intros H1 H2 w (u & v & -> & Hu & Hv). exists u, v. auto. Qed.

Theorem choice_branch p ps : forall w, plang p w -> plang (PGroup KChoice (PCons p ps) 1 (Some 1)) w.
Proof.
  intros w H. cbn [plang]. exists 1. split; [split; lia|].
  rewrite <- (app_nil_r w). constructor; [now left | constructor].
Qed.

Theorem choice_branch_tail p ps mn mx : forall w,
  plang (PGroup KChoice ps mn mx) w -> plang (PGroup KChoice (PCons p ps) mn mx) w.
Proof.
  intros w. cbn [plang]. apply repeat_mono.
  - intros u Hu. now right.
  - unfold occurs_restriction. rewrite Nat.ltb_irrefl. destruct mx as [[|m]|]; auto. apply Nat.leb_refl.
Qed.

(* ---- a sequence of leaves restricting one element particle ---- *)
Lemma leaf_subb_sound l l' : leaf_subb l l' = true -> forall x, leaf_match l x = true -> leaf_match l' x = true.
Proof.
  destruct l as [a|a], l' as [b|b]; cbn [leaf_subb leaf_match]; intros H x Hx; try discriminate.
  - rewrite forallb_forall in H. apply H. now apply memb_In.
  - rewrite forallb_forall in H. apply H. now apply memb_In.
  - rewrite forallb_forall in H. apply negb_true_iff. apply negb_true_iff in Hx.
    destruct (memb x b) eqn:Hb; [|reflexivity].
    apply memb_In in Hb. apply H in Hb. congruence.
Qed.

Lemma repn_app (P : list N -> Prop) k u : repn P k u -> forall k' v, repn P k' v -> repn P (k + k') (u ++ v).
Proof.
  intros R. induction R as [|k u1 u2 Hu R IH]; intros k' v Rv; [exact Rv|].
  rewrite <- app_assoc. cbn [Nat.add]. constructor; [exact Hu | now apply IH].
Qed.

Lemma repn_0 (P : list N -> Prop) w : repn P 0 w -> w = [].
Proof. intros R. inversion R. reflexivity. Qed.

Lemma items_count l' its : forallb (item_ok l') its = true ->
  forall pid w, seql (items_parts pid its) w ->
  exists k, sum_min its <= k /\ match sum_max its with Some m => k <= m | None => True end /\ repn (single l') k w.
Proof.
  induction its as [|i r IH]; intros Hok pid w Hw.
  - cbn in Hw. subst w. exists 0. cbn. repeat split; [lia | lia | constructor].
  - cbn [forallb] in Hok. apply andb_prop in Hok as [Hi Hr].
    cbn [items_parts seql] in Hw. destruct Hw as (u & v & -> & Hu & Hv).
    destruct (IH Hr _ _ Hv) as (k2 & Hk2a & Hk2b & R2).
    cbn [plang] in Hu. destruct Hu as (k1 & [Hk1a Hk1b] & R1).
    assert (R1' : repn (single l') k1 u).
    { unfold item_ok in Hi. destruct (it_max i) as [[|m]|] eqn:Hm.
      - assert (k1 = 0) by lia. subst k1. apply repn_0 in R1. subst u. constructor.
      - apply (repn_mono (single (it_leaf i))); [|exact R1].
        intros z [x [-> Hx]]. exists x. split; [reflexivity | now apply (leaf_subb_sound _ _ Hi)].
      - apply (repn_mono (single (it_leaf i))); [|exact R1].
        intros z [x [-> Hx]]. exists x. split; [reflexivity | now apply (leaf_subb_sound _ _ Hi)]. }
    exists (k1 + k2). split; [cbn [sum_min fold_right]; fold (sum_min r); lia|]. split.
    + cbn [sum_max]. destruct (it_max i) as [a|]; [|exact I]. destruct (sum_max r) as [b|]; [lia | exact I].
    + now apply repn_app.
Qed.

Theorem elem_restriction_sound its l' mn' mx' :
  elem_restriction its l' mn' mx' = true ->
  forall pid pid' w, seql (items_parts pid its) w -> plang (PLeaf pid' l' mn' mx') w.
Proof.
  unfold elem_restriction. intros H pid pid' w Hw.
  apply andb_prop in H as [H Hmax]. apply andb_prop in H as [Hok Hmin].
  destruct (items_count _ _ Hok _ _ Hw) as (k & Hk1 & Hk2 & R).
  cbn [plang]. exists k. split; [|exact R]. split.
  - apply Nat.leb_le in Hmin. lia.
  - unfold max_le in Hmax. destruct mx' as [n|]; [|exact I].
    destruct (sum_max its) as [m|]; [|discriminate]. apply Nat.leb_le in Hmax. lia.
Qed.

(* the rule before the fix accepts (x?) as a restriction of (a?) *)
Theorem elem_restriction_old_refuted :
  exists its l' mn' mx' w,
    elem_restriction_old its l' mn' mx' = true /\ elem_restriction its l' mn' mx' = false /\
    seql (items_parts 1 its) w /\ ~ plang (PLeaf 0 l' mn' mx') w.
Proof.
  exists [(Pos [2%N], 0, Some 1)], (Pos [1%N]), 0, (Some 1), [2%N].
  split; [reflexivity|]. split; [reflexivity|]. split.
  - cbn [items_parts seql it_leaf it_min it_max fst snd]. exists [2%N], []. split; [reflexivity|]. split; [|reflexivity].
    cbn [plang]. exists 1. split; [split; lia|]. rewrite <- (app_nil_r [2%N]). constructor; [|constructor].
    exists 2%N. split; reflexivity.
  - cbn [plang]. intros (k & _ & R). inversion R as [|k0 u v Hu Rv Hk Huv]; subst.
    destruct Hu as [x [-> Hx]]. cbn in Huv. inversion Huv; subst x. cbn in Hx. discriminate.
Qed.

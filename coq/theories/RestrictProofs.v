From XV Require Import Base Regex Particle ParticleProofs Wildcard WildcardProofs Attrs Restrict.

Theorem occurs_sound mn1 mx1 mn2 mx2 :
  occurs_restriction mn1 mx1 mn2 mx2 = true ->
  forall k, in_range k mn1 mx1 -> in_range k mn2 mx2.
Proof.
  unfold occurs_restriction, in_range. intros H k [H1 H2].
  destruct (Nat.ltb_spec mn1 mn2) as [Hlt|Hge]; [discriminate|].
  destruct mx1 as [[|a]|], mx2 as [b|]; try discriminate; try (split; [lia | exact I]).
  - split; [lia|lia].
  - apply Nat.leb_le in H. split; lia.
Qed.

Theorem attr_use_sound base derived :
  attr_use_restriction base derived = true ->
  forall present, use_admits derived present = true -> use_admits base present = true.
Proof. destruct base, derived; cbn; intros H p Hp; try discriminate; auto. Qed.

Theorem pc_sound derived base :
  pc_restriction derived base = true -> pc_checks_value base <= pc_checks_value derived.
Proof. destruct derived, base; cbn; intro H; try discriminate; lia. Qed.

Lemma words_len_spec sigma n w : In w (words_len sigma n) <-> length w = n /\ Forall (fun x => In x sigma) w.
Proof.
  revert w. induction n as [|n IH]; intro w; cbn [words_len].
  - split.
    + intros [<-|[]]. split; [reflexivity | constructor].
    + intros [H _]. destruct w; [now left | discriminate].
  - rewrite in_flat_map. split.
    + intros [x [Hx Hw]]. apply in_map_iff in Hw as [w' [<- Hw']]. apply IH in Hw' as [Hl Hf].
      split; [cbn; lia | constructor; assumption].
    + intros [Hl Hf]. destruct w as [|x w']; [discriminate|]. inversion Hf; subst.
      exists x. split; [assumption|]. apply in_map. apply IH. split; [cbn in Hl; lia | assumption].
Qed.

Lemma words_upto_spec sigma n w :
  In w (words_upto sigma n) <-> length w <= n /\ Forall (fun x => In x sigma) w.
Proof.
  unfold words_upto. rewrite in_flat_map. split.
  - intros [k [Hk Hw]]. apply in_seq in Hk. apply words_len_spec in Hw as [Hl Hf]. split; [lia | assumption].
  - intros [Hl Hf]. exists (length w). split; [apply in_seq; lia | apply words_len_spec; auto].
Qed.

Theorem incl_upto_exact sigma n d b :
  incl_upto sigma n d b = true <->
  forall w, length w <= n -> Forall (fun x => In x sigma) w -> plang d w -> plang b w.
Proof.
  unfold incl_upto. rewrite forallb_forall. split.
  - intros H w Hl Hf Hd. specialize (H w (proj2 (words_upto_spec sigma n w) (conj Hl Hf))).
    apply accepts_iff_word in Hd. rewrite Hd in H. cbn in H. now apply accepts_iff_word.
  - intros H w Hin. apply words_upto_spec in Hin as [Hl Hf].
    destruct (accepts d w) eqn:Ed; [|reflexivity]. cbn.
    apply accepts_iff_word. apply H; auto. now apply accepts_iff_word.
Qed.

Theorem counterexample_sound sigma n d b w :
  incl_counterexample sigma n d b = Some w -> plang d w /\ ~ plang b w.
Proof.
  unfold incl_counterexample. intro H. apply find_some in H as [_ H].
  apply andb_prop in H as [H1 H2]. apply negb_true_iff in H2. split.
  - now apply accepts_iff_word.
  - intro Hb. apply accepts_iff_word in Hb. congruence.
Qed.

(* ---- monotonicity: the semantic facts behind the restriction case analysis ---- *)
Lemma repn_mono (P Q : list N -> Prop) : (forall w, P w -> Q w) -> forall k w, repn P k w -> repn Q k w.
Proof. intros H k w R. induction R; constructor; auto. Qed.

Theorem repeat_mono (P Q : list N -> Prop) mn1 mx1 mn2 mx2 :
  (forall w, P w -> Q w) -> occurs_restriction mn1 mx1 mn2 mx2 = true ->
  forall w, occ P mn1 mx1 w -> occ Q mn2 mx2 w.
Proof.
  intros H Ho w [k [Hr Hk]]. exists k. split; [now apply (occurs_sound _ _ _ _ Ho) | now apply (repn_mono P Q H)].
Qed.

Theorem leaf_mono pid pid' l l' mn1 mx1 mn2 mx2 :
  (forall x, leaf_match l x = true -> leaf_match l' x = true) ->
  occurs_restriction mn1 mx1 mn2 mx2 = true ->
  forall w, plang (PLeaf pid l mn1 mx1) w -> plang (PLeaf pid' l' mn2 mx2) w.
Proof.
  intros Hl Ho w. cbn [plang]. apply repeat_mono; [|exact Ho].
  intros u [x [-> Hx]]. exists x. auto.
Qed.

Theorem seq_mono p p' ps ps' :
  (forall w, plang p w -> plang p' w) -> (forall w, seql ps w -> seql ps' w) ->
  forall w, seql (PCons p ps) w -> seql (PCons p' ps') w.
Proof. intros H1 H2 w (u & v & -> & Hu & Hv). exists u, v. auto. Qed.

Theorem choice_branch p ps : forall w, plang p w -> plang (PGroup KChoice (PCons p ps) 1 (Some 1)) w.
Proof.
  intros w H. cbn [plang]. exists 1. split; [split; lia|].
  rewrite <- (app_nil_r w). constructor; [now left | constructor].
Qed.

Theorem choice_branch_tail p ps mn mx : forall w,
  plang (PGroup KChoice ps mn mx) w -> plang (PGroup KChoice (PCons p ps) mn mx) w.
Proof.
  intros w. cbn [plang]. apply repeat_mono.
  - intros u Hu. now right.
  - unfold occurs_restriction. rewrite Nat.ltb_irrefl. destruct mx as [[|m]|]; auto. apply Nat.leb_refl.
Qed.

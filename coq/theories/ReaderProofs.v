From XV Require Import Base Reader.

Lemma take1_pos want sched : 0 < want -> 0 < take1 want sched <= want.
Proof. unfold take1. intros H. lia. Qed.

Lemma firstn_app_skipn_firstn (k m : nat) (l : list N) :
  firstn k l ++ firstn m (skipn k l) = firstn (k + m) l.
Proof.
  revert l. induction k as [|k IH]; intro l; cbn [firstn skipn app plus]; [reflexivity|].
  destruct l as [|x r]; cbn [firstn skipn app].
  - rewrite firstn_nil. reflexivity.
  - rewrite IH. reflexivity.
Qed.

Lemma skipn_skipn' (k m : nat) (l : list N) : skipn m (skipn k l) = skipn (m + k) l.
Proof.
  revert l. induction k as [|k IH]; intro l.
  - rewrite Nat.add_0_r. reflexivity.
  - destruct l as [|x r]; [rewrite !skipn_nil; reflexivity|].
    rewrite Nat.add_succ_r. cbn [skipn]. apply IH.
Qed.

(* whatever the stream returns per call, the buffer ends up holding the first `want` bytes *)
Lemma fill_spec fuel : forall want sched data, want <= fuel ->
  fill fuel want sched data = (firstn want data, skipn want data).
Proof.
  induction fuel as [|f IH]; intros want sched data Hle.
  - assert (want = 0) by lia. subst. reflexivity.
  - cbn [fill]. destruct want as [|w]; [reflexivity|].
    destruct data as [|x xs]; [reflexivity|].
    set (k := take1 (S w) sched).
    assert (Hk : 0 < k <= S w) by (apply take1_pos; lia).
    rewrite IH by lia.
    rewrite firstn_app_skipn_firstn, skipn_skipn'.
    replace (k + (S w - k)) with (S w) by lia. replace (S w - k + k) with (S w) by lia. reflexivity.
Qed.

Theorem fill_complete want sched data :
  fill want want sched data = (firstn want data, skipn want data).
Proof. apply fill_spec. lia. Qed.

Theorem reader_holds_stream want sched data :
  buf (mk_reader want sched data) = firstn want data /\
  buf (mk_reader want sched data) ++ rest (mk_reader want sched data) = data.
Proof.
  unfold mk_reader. rewrite fill_complete. cbn [buf rest]. split; [reflexivity | apply firstn_skipn].
Qed.

(* a document whose scanned part fits the buffer is parsed to the same bytes, whatever the read schedule *)
Theorem scan_then_parse_same want sched data scanned :
  scanned <= want ->
  scan_then_parse (mk_reader want sched data) scanned = Some data.
Proof.
  intro Hs. unfold mk_reader. rewrite fill_complete.
  unfold scan_then_parse, rd, can_rewind. cbn [pos buf rest]. rewrite firstn_skipn.
  cbn [skipn plus]. rewrite !firstn_length.
  destruct (Nat.leb_spec (Nat.min scanned (length data)) (Nat.min want (length data))) as [_|H]; [reflexivity | lia].
Qed.

(* before the repair: a short first read leaves a buffer that the scan overruns; the clean document is refused *)
Theorem fill_once_refuted : exists want sched data scanned,
  scanned <= want /\ scan_then_parse (mk_reader_once want sched data) scanned = None.
Proof. exists 8, [1], [1; 2; 3; 4; 5]%N, 4. split; [lia | vm_compute; reflexivity]. Qed.

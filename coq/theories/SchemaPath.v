(* Schema paths and partial decoding (xpath/mixin.py find on schema components, schemas.py
   get_element / path-driven decoding, max_depth):
   a schema is a tree of declarations; name-based child lookup finds the governing declaration when
   sibling declarations have distinct names (Element Declarations Consistent); decoding is a fold over
   the tree, so decoding a selected part / cutting at a depth commutes with decoding the whole. *)
From XV Require Import Base Tree.

Inductive sdecl := SDecl (name : N) (ty : N) (kids : list sdecl).
Definition d_name (d : sdecl) : N := match d with SDecl n _ _ => n end.
Definition d_ty (d : sdecl) : N := match d with SDecl _ t _ => t end.
Definition d_kids (d : sdecl) : list sdecl := match d with SDecl _ _ k => k end.

Definition find_child (d : sdecl) (n : N) : option sdecl :=
  find (fun k => N.eqb (d_name k) n) (d_kids d).

(* schema.find(path) for a child-step path given as the list of names below the root declaration *)
Fixpoint find_schema (d : sdecl) (names : list N) : option sdecl :=
  match names with
  | [] => Some d
  | n :: r => match find_child d n with Some k => find_schema k r | None => None end
  end.

(* the declaration that governs the node at address a during validation: at every step the child
   declaration matching the child's tag *)
Fixpoint governing (d : sdecl) (t : tree) (a : addr) : option sdecl :=
  match a with
  | [] => Some d
  | i :: r => match t with
              | Node _ ks => match nth_error ks i with
                             | Some c => match find_child d (tag_of c) with
                                         | Some k => governing k c r
                                         | None => None
                                         end
                             | None => None
                             end
              end
  end.

(* names along an address *)
Fixpoint names_along (t : tree) (a : addr) : list N :=
  match a with
  | [] => []
  | i :: r => match t with
              | Node _ ks => match nth_error ks i with
                             | Some c => tag_of c :: names_along c r
                             | None => []
                             end
              end
  end.

(* decoded data: the tree annotated with the type of the governing declaration (0 when none) *)
Inductive data := D (tag : N) (ty : N) (kids : list data).

Fixpoint decode (d : option sdecl) (t : tree) : data :=
  match t with
  | Node g ks =>
      D g (match d with Some dd => d_ty dd | None => 0%N end)
        (map (fun c => decode (match d with Some dd => find_child dd (tag_of c) | None => None end) c) ks)
  end.

Fixpoint subdata (x : data) (a : addr) : option data :=
  match a with
  | [] => Some x
  | i :: r => match x with D _ _ ks => match nth_error ks i with Some c => subdata c r | None => None end end
  end.

(* max_depth: nodes at depth k keep their own data and lose their children *)
Fixpoint truncate (k : nat) (x : data) : data :=
  match x with
  | D g ty ks => match k with
                 | 0 => D g ty []
                 | S k' => D g ty (map (truncate k') ks)
                 end
  end.
Fixpoint decode_depth (k : nat) (d : option sdecl) (t : tree) : data :=
  match t with
  | Node g ks =>
      let ty := match d with Some dd => d_ty dd | None => 0%N end in
      match k with
      | 0 => D g ty []
      | S k' => D g ty (map (fun c => decode_depth k' (match d with Some dd => find_child dd (tag_of c) | None => None end) c) ks)
      end
  end.

(* ---- paths with wildcard steps (schemas.py iter_errors / iter_decode with path, after repo fix e9f3327) ----
   A path such as /root/*/item selects the same name in several contexts.  The declaration used for a selected node is
   the one found with the node's own path; before the fix it was the first declaration that the path expression finds
   on the schema. *)
Inductive pstep := PName (n : N) | PAny.

Fixpoint find_schema_w (d : sdecl) (p : list pstep) : option sdecl :=
  match p with
  | [] => Some d
  | PName n :: r => match find_child d n with Some k => find_schema_w k r | None => None end
  | PAny :: r =>
      (fix first (ks : list sdecl) : option sdecl :=
         match ks with
         | [] => None
         | k :: ks' => match find_schema_w k r with Some x => Some x | None => first ks' end
         end) (d_kids d)
  end.

(* does the node at address a match the path p? *)
Fixpoint matches_path (t : tree) (a : addr) (p : list pstep) : bool :=
  match a, p with
  | [], [] => true
  | i :: r, s :: q =>
      match nth_error (kids_of t) i with
      | Some c => (match s with PName n => N.eqb (tag_of c) n | PAny => true end) && matches_path c r q
      | None => false
      end
  | _, _ => false
  end.

Definition decode_selected (d : sdecl) (t : tree) (a : addr) : option data :=
  option_map (decode (find_schema d (names_along t a))) (subtree t a).
Definition decode_selected_first (d : sdecl) (t : tree) (p : list pstep) (a : addr) : option data :=
  option_map (decode (find_schema_w d p)) (subtree t a).

From XV Require Import Base Wildcard Attrs.

Lemma app_nil_iff {A} (a b : list A) : a ++ b = [] <-> a = [] /\ b = [].
Proof. split; [apply app_eq_nil | intros [-> ->]; reflexivity]. Qed.

Lemma flat_map_nil {A B} (f : A -> list B) l : flat_map f l = [] <-> forall x, In x l -> f x = [].
Proof.
  induction l as [|a l IH]; cbn [flat_map].
  - split; [intros _ x [] | reflexivity].
  - rewrite app_nil_iff, IH. split.
    + intros [H1 H2] x [<-|Hx]; auto.
    + intro H. split; [apply H; now left | intros x Hx; apply H; now right].
Qed.

Lemma decl_errors_nil e d n v : decl_errors e d n v = [] <-> decl_ok e d v.
Proof.
  unfold decl_errors, decl_ok. rewrite app_nil_iff. split.
  - intros [Hf Ht]. destruct (canon e (a_ty d) v) as [x|] eqn:Ev; [|discriminate]. split; [eauto|].
    intros f Ef. rewrite Ef in Hf. destruct (N.eqb_spec v f) as [->|Hne]; [now left|]. right.
    destruct (canon e (a_ty d) f) as [y|] eqn:Ef'; [|discriminate].
    destruct (N.eqb_spec x y) as [->|]; [|discriminate]. eauto.
  - intros [[x Ev] Hf]. rewrite Ev. split; [|reflexivity].
    destruct (a_fixed d) as [f|]; [|reflexivity].
    destruct (Hf f eq_refl) as [->|[y [E1 E2]]]; [now rewrite N.eqb_refl|].
    destruct (N.eqb v f); [reflexivity|]. rewrite Ev in E1. injection E1 as ->. rewrite E2.
    now rewrite N.eqb_refl.
Qed.

Lemma wild_errors_nil e w p n v : wild_errors e w p n v = [] <-> wild_admits e w p n v.
Proof.
  unfold wild_errors, wild_admits. rewrite app_nil_iff.
  destruct (allowed w (fst n)) eqn:Ea.
  2: { split; [intros [H _]; discriminate | intros [H _]; discriminate]. }
  destruct p.
  - (* Strict *)
    destruct (memb (fst n) (known_ns e)) eqn:Ek.
    + destruct (find_decl (globals e) n) as [g|] eqn:Eg.
      * rewrite decl_errors_nil. split.
        -- intros [_ H]. repeat split; auto. exists g. auto.
        -- intros [_ [_ [g' [E H]]]]. injection E as <-. auto.
      * split; [intros [_ H]; discriminate | intros [_ [_ [g' [E _]]]]; discriminate].
    + split; [intros [_ H]; discriminate | intros [_ [H _]]; discriminate].
  - (* Lax *)
    destruct (memb (fst n) (known_ns e)) eqn:Ek.
    + destruct (find_decl (globals e) n) as [g|] eqn:Eg.
      * rewrite decl_errors_nil. split.
        -- intros [_ H]. split; [reflexivity|]. intros _ g' E. injection E as <-. exact H.
        -- intros [_ H]. split; [reflexivity|]. now apply H.
      * split; [intros _; split; [reflexivity | intros _ g' E; discriminate] | auto].
    + split; [intros _; split; [reflexivity | intro H; discriminate] | auto].
  - split; auto.
Qed.

Lemma attr_errors_nil e g n v : attr_errors e g (n, v) = [] <-> attr_ok e g n v.
Proof.
  unfold attr_errors, attr_ok.
  destruct (find_decl (decls g) n) as [d|].
  - destruct (a_use d); try apply decl_errors_nil.
    destruct (a_fixed d); [apply decl_errors_nil|].
    destruct (wild g) as [[w p]|].
    + destruct (allowed w (fst n)) eqn:Ea.
      * rewrite wild_errors_nil. split.
        -- intro H. exists w, p. auto.
        -- intros [w' [p' [E H]]]. injection E as <- <-. exact H.
      * split; [discriminate|]. intros [w' [p' [E [H _]]]]. injection E as <- <-. congruence.
    + split; [discriminate | intros [w' [p' [E _]]]; discriminate].
  - destruct (wild g) as [[w p]|].
    + rewrite wild_errors_nil. split.
      * intro H. exists w, p. auto.
      * intros [w' [p' [E H]]]. injection E as <- <-. exact H.
    + split; [discriminate | intros [w' [p' [E _]]]; discriminate].
Qed.

Theorem validate_correct e g attrs :
  validate_attrs e g attrs = [] <-> attrs_valid_spec e g attrs.
Proof.
  unfold validate_attrs, attrs_valid_spec, missing_errors. rewrite app_nil_iff, !flat_map_nil. split.
  - intros [Hm Ha]. split.
    + intros d Hd Hu. specialize (Hm d Hd). rewrite Hu in Hm.
      destruct (present attrs (a_name d)); [reflexivity | discriminate].
    + intros n v Hin. apply attr_errors_nil. now apply Ha.
  - intros [Hm Ha]. split.
    + intros d Hd. destruct (a_use d) eqn:Eu; try reflexivity. now rewrite (Hm d Hd Eu).
    + intros [n v] Hin. apply attr_errors_nil. now apply Ha.
Qed.

(* filling rules: exactly which absent names appear in decoded data *)
Theorem filled_spec g ud fm attrs n :
  In n (filled g ud fm attrs) <->
  exists d, In d (decls g) /\ a_name d = n /\ present attrs n = false /\
            (a_fixed d <> None \/ (a_default d <> None /\ ud = true) \/ fm = true).
Proof.
  unfold filled. rewrite in_flat_map. split.
  - intros [d [Hd H]]. exists d. split; [exact Hd|].
    destruct (present attrs (a_name d)) eqn:Ep; [destruct H|].
    destruct (a_fixed d) as [f|] eqn:Ef.
    + destruct H as [<-|[]]. repeat split; auto. left. discriminate.
    + destruct (a_default d) as [df|] eqn:Ed.
      * destruct (ud || fm) eqn:Eb; [|destruct H]. destruct H as [<-|[]]. repeat split; auto.
        apply orb_prop in Eb as [->| ->]; [right; left; split; [discriminate | reflexivity] | right; right; reflexivity].
      * destruct fm; [|destruct H]. destruct H as [<-|[]]. repeat split; auto.
  - intros [d [Hd [<- [Ep H]]]]. exists d. split; [exact Hd|]. rewrite Ep.
    destruct (a_fixed d) as [f|]; [now left|].
    destruct (a_default d) as [df|].
    + destruct H as [H|[[_ ->]| ->]]; [congruence | now left | rewrite orb_true_r; now left].
    + destruct H as [H|[[H _]| ->]]; [congruence | congruence | now left].
Qed.

(* Paths through substitution group members (xmlschema/validators/schemas.py get_element / _find_from_parent, repair
   c10bc3a).  A schema is a tree of declarations (SchemaPath.sdecl); `subst` maps the name of a member of a substitution
   group to its head and to the member's own global declaration (whose type - hence whose children - may differ from the
   head's).

     validation : a child named n of an element governed by d is governed by the child declaration named n, or, when n
                  is a member whose head is a child declaration of d, by the member's own declaration (gov_child);
     find_xpath : the XPath lookup on the schema matches a member step with the declaration of the head and goes on
                  inside the HEAD's declaration;
     get_old    : get_element before the repair = find_xpath, with the final declaration replaced by the member's own
                  when the names differ;
     get_new    : when find_xpath fails, the last step is resolved from the declaration get_new finds for the parent. *)
From XV Require Import Base SchemaPath.

Definition smap := list (N * (N * sdecl)).     (* member name -> (head name, own declaration) *)

Fixpoint slookup (s : smap) (n : N) : option (N * sdecl) :=
  match s with
  | [] => None
  | (m, hd) :: r => if N.eqb n m then Some hd else slookup r n
  end.

(* the declaration that governs a child named n below d *)
Definition gov_child (s : smap) (d : sdecl) (n : N) : option sdecl :=
  match find_child d n with
  | Some k => Some k
  | None => match slookup s n with
            | Some (h, own) => match find_child d h with Some _ => Some own | None => None end
            | None => None
            end
  end.

Fixpoint governing_path (s : smap) (d : sdecl) (names : list N) : option sdecl :=
  match names with
  | [] => Some d
  | n :: r => match gov_child s d n with Some k => governing_path s k r | None => None end
  end.

(* the XPath step: the matched node is the head's declaration *)
Definition xpath_child (s : smap) (d : sdecl) (n : N) : option sdecl :=
  match find_child d n with
  | Some k => Some k
  | None => match slookup s n with
            | Some (h, _) => find_child d h
            | None => None
            end
  end.

Fixpoint find_xpath (s : smap) (d : sdecl) (names : list N) : option sdecl :=
  match names with
  | [] => Some d
  | n :: r => match xpath_child s d n with Some k => find_xpath s k r | None => None end
  end.

(* `if xsd_element.name != tag: return self.maps.elements.get(tag)` *)
Definition own_decl (s : smap) (found : sdecl) (n : N) : option sdecl :=
  if N.eqb (d_name found) n then Some found
  else match slookup s n with Some (_, own) => Some own | None => None end.

Definition last_name (names : list N) : N := last names 0%N.

Definition get_old (s : smap) (d : sdecl) (names : list N) : option sdecl :=
  match names with
  | [] => Some d
  | _ => match find_xpath s d names with
         | Some found => own_decl s found (last_name names)
         | None => None
         end
  end.

(* get_element with the fallback, by recursion on the path seen from its end: names = front ++ [n] *)
Fixpoint get_new_rev (s : smap) (d : sdecl) (rev_names : list N) : option sdecl :=
  match rev_names with
  | [] => Some d
  | n :: front_rev =>
      match find_xpath s d (List.rev rev_names) with
      | Some found => own_decl s found n
      | None =>
          match get_new_rev s d front_rev with
          | Some parent => match xpath_child s parent n with
                           | Some found => own_decl s found n
                           | None => None
                           end
          | None => None
          end
      end
  end.

Definition get_new (s : smap) (d : sdecl) (names : list N) : option sdecl := get_new_rev s d (List.rev names).

(* get_element resolving every step from the declaration found for the parent (the repaired lookup whenever the schema
   has substitution groups) *)
Fixpoint get_parent_rev (s : smap) (d : sdecl) (rev_names : list N) : option sdecl :=
  match rev_names with
  | [] => Some d
  | n :: front_rev =>
      match get_parent_rev s d front_rev with
      | Some parent => match xpath_child s parent n with
                       | Some found => own_decl s found n
                       | None => None
                       end
      | None => None
      end
  end.
Definition get_parent (s : smap) (d : sdecl) (names : list N) : option sdecl := get_parent_rev s d (List.rev names).

(* well-formed substitution map: a member is not also declared as a child under its own name next to its head, and the
   member's own declaration carries the member's name *)
Definition wf_smap (s : smap) : Prop :=
  forall m h own, slookup s m = Some (h, own) -> d_name own = m /\ m <> h.

(* Lazy validation and the namespace mapper (xmlschema/validators/schemas.py iter_errors, lazy branch, with the
   NamespaceMapper model of Mapper.v).  For every chunk - and at the end for the pruned root - iter_errors computes the
   declarations in scope for the element (`scope`: the root's map updated with the xmlns of the ancestors and of the
   element) and stores them in the mapper's namespace map; raw_decode then enters the mapper with
   set_xmlns_context(element, level).  The mapper may still hold the stacked context of the previous chunk.

     chunk_new : the repaired order (574609a for the root pass, b0a03e4 for the chunks): enter the mapper first - this
                 pops the contexts of the previous chunk and pushes the element's own - then store the scope;
     chunk_old : the scope is stored first; entering the mapper pops the previous chunk's context and restores the map
                 saved there over it. *)
From XV Require Import Base Mapper.

Definition with_ns (st : mapper) (n : dict) : mapper := {| ns := n; rev := rev st; ctxs := ctxs st |}.

Definition chunk_new (st : mapper) (obj level : nat) (decls : list (N * N)) (scope : dict) : mapper :=
  set_ctx (with_ns (set_ctx st obj level decls) scope) obj level decls.

Definition chunk_old (st : mapper) (obj level : nat) (decls : list (N * N)) (scope : dict) : mapper :=
  set_ctx (with_ns st scope) obj level decls.

(* the element has not been entered before *)
Definition fresh (st : mapper) (obj : nat) : Prop := forall c, In c (ctxs st) -> c_obj c <> obj.

(* XSD simple-type semantics for the datatypes the model covers: whitespace normalisation, lexical
   recognisers and value functions for integer / bounded integers / decimal / boolean / string
   families / date, facets, list, union and restriction composition.
   Strings are lists of code points (N). *)
From XV Require Import Base.
From Coq Require Import DecimalN DecimalFacts.

Definition str := list N.

(* ------------------------------------------------------------------ whitespace *)
Definition is_ws (c : N) : bool := N.eqb c 32 || N.eqb c 9 || N.eqb c 10 || N.eqb c 13.
Definition ws_replace (s : str) : str := map (fun c => if is_ws c then 32%N else c) s.

(* tokens: maximal runs of non-whitespace *)
Fixpoint split_ws_aux (cur : str) (s : str) : list str :=
  match s with
  | [] => match cur with [] => [] | _ => [rev cur] end
  | c :: r => if is_ws c then match cur with [] => split_ws_aux [] r | _ => rev cur :: split_ws_aux [] r end
              else split_ws_aux (c :: cur) r
  end.
Definition split_ws (s : str) : list str := split_ws_aux [] s.
Fixpoint join_sp (l : list str) : str :=
  match l with [] => [] | [t] => t | t :: r => t ++ 32%N :: join_sp r end.
Definition ws_collapse (s : str) : str := join_sp (split_ws s).

Inductive wsmode := Preserve | Replace | Collapse.
Definition normalize (m : wsmode) (s : str) : str :=
  match m with Preserve => s | Replace => ws_replace s | Collapse => ws_collapse s end.

(* ------------------------------------------------------------------ numbers *)
Definition is_digit (c : N) : bool := N.leb 48 c && N.leb c 57.

Fixpoint uint_of_digits (s : str) : option Decimal.uint :=
  match s with
  | [] => Some Decimal.Nil
  | c :: r =>
      match uint_of_digits r with
      | None => None
      | Some u =>
          match c with
          | 48%N => Some (Decimal.D0 u) | 49%N => Some (Decimal.D1 u) | 50%N => Some (Decimal.D2 u)
          | 51%N => Some (Decimal.D3 u) | 52%N => Some (Decimal.D4 u) | 53%N => Some (Decimal.D5 u)
          | 54%N => Some (Decimal.D6 u) | 55%N => Some (Decimal.D7 u) | 56%N => Some (Decimal.D8 u)
          | 57%N => Some (Decimal.D9 u) | _ => None
          end
      end
  end.
Fixpoint digits_of_uint (u : Decimal.uint) : str :=
  match u with
  | Decimal.Nil => []
  | Decimal.D0 r => 48 :: digits_of_uint r | Decimal.D1 r => 49 :: digits_of_uint r
  | Decimal.D2 r => 50 :: digits_of_uint r | Decimal.D3 r => 51 :: digits_of_uint r
  | Decimal.D4 r => 52 :: digits_of_uint r | Decimal.D5 r => 53 :: digits_of_uint r
  | Decimal.D6 r => 54 :: digits_of_uint r | Decimal.D7 r => 55 :: digits_of_uint r
  | Decimal.D8 r => 56 :: digits_of_uint r | Decimal.D9 r => 57 :: digits_of_uint r
  end%N.

(* unsigned decimal numeral: non-empty, ASCII digits only *)
Definition nat_of_str (s : str) : option N :=
  match s with
  | [] => None
  | _ => match uint_of_digits s with Some u => Some (N.of_uint u) | None => None end
  end.
Definition print_N (n : N) : str := digits_of_uint (N.to_uint n).

(* xs:integer on a whitespace-normalised string: optional sign and one or more ASCII digits *)
Definition int_of_str (s : str) : option Z :=
  match s with
  | 43%N :: r => match nat_of_str r with Some n => Some (Z.of_N n) | None => None end
  | 45%N :: r => match nat_of_str r with Some n => Some (- Z.of_N n)%Z | None => None end
  | _ => match nat_of_str s with Some n => Some (Z.of_N n) | None => None end
  end.
Definition print_integer (z : Z) : str :=
  if Z.ltb z 0 then 45%N :: print_N (Z.to_N (- z)) else print_N (Z.to_N z).

(* xs:boolean *)
Definition bool_of_str (s : str) : option bool :=
  match s with
  | [116%N; 114%N; 117%N; 101%N] => Some true          (* true *)
  | [49%N] => Some true
  | [102%N; 97%N; 108%N; 115%N; 101%N] => Some false      (* false *)
  | [48%N] => Some false
  | _ => None
  end.
Definition print_boolean (b : bool) : str :=
  if b then [116; 114; 117; 101]%N else [102; 97; 108; 115; 101]%N.

(* xs:decimal: optional sign, digits with optional dot and fraction, or dot and fraction digits;
   value = (mantissa, scale), trailing zeros removed *)
Fixpoint split_dot (s : str) : str * option str :=
  match s with
  | [] => ([], None)
  | 46%N :: r => ([], Some r)
  | c :: r => let '(a, b) := split_dot r in (c :: a, b)
  end.
Fixpoint strip_zeros_rev (s : str) : str :=   (* on the reversed fraction *)
  match s with 48%N :: r => strip_zeros_rev r | _ => s end.
Definition strip_trailing_zeros (s : str) : str := rev (strip_zeros_rev (rev s)).

Definition udec_of_str (s : str) : option (N * nat) :=
  let '(ip, fp) := split_dot s in
  let fr := match fp with Some f => f | None => [] end in
  match ip, fr with
  | [], [] => None
  | _, _ =>
      if forallb is_digit ip && forallb is_digit fr then
        let fr' := strip_trailing_zeros fr in
        match uint_of_digits (ip ++ fr') with
        | Some u => Some (N.of_uint u, length fr')
        | None => None
        end
      else None
  end.
Definition dec_of_str (s : str) : option (Z * nat) :=
  match s with
  | 43%N :: r => match udec_of_str r with Some (m, sc) => Some (Z.of_N m, sc) | None => None end
  | 45%N :: r => match udec_of_str r with Some (m, sc) => Some (- Z.of_N m, sc)%Z | None => None end
  | _ => match udec_of_str s with Some (m, sc) => Some (Z.of_N m, sc) | None => None end
  end.

(* digit counts of a decimal value (m, sc): definitional, as XSD totalDigits / fractionDigits *)
Definition ndigits (n : N) : nat := match n with 0%N => 0 | _ => length (print_N n) end.
Definition frac_digits (v : Z * nat) : nat := snd v.
Definition total_digits (v : Z * nat) : nat := Nat.max (ndigits (Z.to_N (Z.abs (fst v)))) (snd v).

Definition dec_cmp (a b : Z * nat) : comparison :=
  Z.compare (fst a * 10 ^ Z.of_nat (snd b)) (fst b * 10 ^ Z.of_nat (snd a)).

(* ------------------------------------------------------------------ dates (xs:date, xs:gYear) *)
Definition leap (y : Z) : bool :=
  (Z.eqb (y mod 4) 0 && negb (Z.eqb (y mod 100) 0)) || Z.eqb (y mod 400) 0.
Definition days_in_month (y : Z) (m : N) : N :=
  match m with
  | 2%N => if leap y then 29%N else 28%N
  | 4%N | 6%N | 9%N | 11%N => 30%N
  | _ => 31%N
  end.

(* timezone: empty | Z | [+-]hh:mm with hh <= 14 (14 only with mm = 00), mm <= 59 *)
Definition tz_ok (s : str) : bool :=
  match s with
  | [] => true
  | [90%N] => true
  | [sg; h1; h2; 58%N; m1; m2] =>
      (N.eqb sg 43%N || N.eqb sg 45%N) && is_digit h1 && is_digit h2 && is_digit m1 && is_digit m2 &&
      let hh := ((h1 - 48) * 10 + (h2 - 48))%N in let mm := ((m1 - 48) * 10 + (m2 - 48))%N in
      ((N.ltb hh 14%N && N.ltb mm 60%N) || (N.eqb hh 14%N && N.eqb mm 0%N))
  | _ => false
  end.

(* year: -?dddd+ , no leading zero beyond four digits; year 0000 only when [year0] (XSD 1.1) *)
Definition year_of_str (year0 : bool) (s : str) : option Z :=
  let '(neg, ds) := match s with 45%N :: r => (true, r) | _ => (false, s) end in
  if Nat.ltb (length ds) 4 then None
  else if Nat.ltb 4 (length ds) && match ds with 48%N :: _ => true | _ => false end then None
  else match nat_of_str ds with
       | Some n => if N.eqb n 0 && negb year0 then None
                   else Some (if neg then (- Z.of_N n)%Z else Z.of_N n)
       | None => None
       end.

Fixpoint take_until_dash_from (k : nat) (s : str) : str * str :=
  (* the year is everything before the dash that starts -mm-dd: we split at position k *)
  match k, s with
  | 0, _ => ([], s)
  | S k', c :: r => let '(a, b) := take_until_dash_from k' r in (c :: a, b)
  | _, [] => ([], [])
  end.

Definition two_digits (a b : N) : option N :=
  if is_digit a && is_digit b then Some ((a - 48) * 10 + (b - 48))%N else None.

(* xs:date = year '-' mm '-' dd tz ; returns (year, month, day).
   The "-mm-dd" part starts at position len - 6 - |tz|; the three possible timezone lengths are tried. *)
Definition date_try (year0 : bool) (s : str) (tzlen : nat) : option (Z * N * N) :=
  let n := length s in
  if Nat.ltb n (tzlen + 6 + 4) then None
  else let '(ypart, rest) := take_until_dash_from (n - tzlen - 6) s in
       match rest with
       | 45%N :: mo1 :: mo2 :: 45%N :: da1 :: da2 :: tz =>
           if tz_ok tz && Nat.eqb (length tz) tzlen then
             match year_of_str year0 ypart, two_digits mo1 mo2, two_digits da1 da2 with
             | Some y, Some m, Some d =>
                 if N.leb 1 m && N.leb m 12 && N.leb 1 d && N.leb d (days_in_month y m) then Some (y, m, d) else None
             | _, _, _ => None
             end
           else None
       | _ => None
       end.
Definition date_of_str (year0 : bool) (s : str) : option (Z * N * N) :=
  match date_try year0 s 0 with
  | Some r => Some r
  | None => match date_try year0 s 1 with Some r => Some r | None => date_try year0 s 6 end
  end.

(* ------------------------------------------------------------------ types, values, facets *)
Inductive val := VInt (z : Z) | VDec (m : Z) (sc : nat) | VBool (b : bool) | VStr (s : str)
               | VDate (y : Z) (m d : N) | VList (l : list val).

Inductive facet :=
| FMinInc (v : Z * nat) | FMaxInc (v : Z * nat) | FMinExc (v : Z * nat) | FMaxExc (v : Z * nat)
| FLength (n : nat) | FMinLength (n : nat) | FMaxLength (n : nat)
| FTotalDigits (n : nat) | FFractionDigits (n : nat)
| FEnum (l : list val).

Inductive sty :=
| TInteger | TBounded (lo hi : Z) | TDecimal | TBoolean | TString (m : wsmode) | TDate (year0 : bool)
| TRestrict (base : sty) (m : wsmode) (fs : list facet)
| TList (item : sty)
| TUnion (a b : sty).

Fixpoint val_eqb (a b : val) : bool :=
  match a, b with
  | VInt x, VInt y => Z.eqb x y
  | VDec m s, VDec m' s' => Z.eqb m m' && Nat.eqb s s'
  | VInt x, VDec m s => Z.eqb x m && Nat.eqb s 0
  | VDec m s, VInt x => Z.eqb x m && Nat.eqb s 0
  | VBool x, VBool y => Bool.eqb x y
  | VStr x, VStr y => if list_eq_dec N.eq_dec x y then true else false
  | VDate y m d, VDate y' m' d' => Z.eqb y y' && N.eqb m m' && N.eqb d d'
  | VList l, VList l' =>
      (fix go (l l' : list val) : bool :=
         match l, l' with
         | [], [] => true
         | x :: r, y :: r' => val_eqb x y && go r r'
         | _, _ => false
         end) l l'
  | _, _ => false
  end.

Definition as_dec (v : val) : option (Z * nat) :=
  match v with VInt z => Some (z, 0) | VDec m s => Some (m, s) | _ => None end.
Definition val_length (v : val) : option nat :=
  match v with VStr s => Some (length s) | VList l => Some (length l) | _ => None end.

Definition facet_ok (v : val) (f : facet) : bool :=
  match f with
  | FMinInc b => match as_dec v with Some d => match dec_cmp d b with Lt => false | _ => true end | None => true end
  | FMaxInc b => match as_dec v with Some d => match dec_cmp d b with Gt => false | _ => true end | None => true end
  | FMinExc b => match as_dec v with Some d => match dec_cmp d b with Gt => true | _ => false end | None => true end
  | FMaxExc b => match as_dec v with Some d => match dec_cmp d b with Lt => true | _ => false end | None => true end
  | FLength n => match val_length v with Some k => Nat.eqb k n | None => true end
  | FMinLength n => match val_length v with Some k => Nat.leb n k | None => true end
  | FMaxLength n => match val_length v with Some k => Nat.leb k n | None => true end
  | FTotalDigits n => match as_dec v with Some d => Nat.leb (total_digits d) n | None => true end
  | FFractionDigits n => match as_dec v with Some d => Nat.leb (frac_digits d) n | None => true end
  | FEnum l => existsb (val_eqb v) l
  end.

Fixpoint all_some {A} (l : list (option A)) : option (list A) :=
  match l with
  | [] => Some []
  | None :: _ => None
  | Some x :: r => match all_some r with Some xs => Some (x :: xs) | None => None end
  end.

(* decode: the value denoted by a text for a type, None when the text is not valid *)
Fixpoint decode (t : sty) (s : str) : option val :=
  match t with
  | TInteger => match int_of_str (ws_collapse s) with Some z => Some (VInt z) | None => None end
  | TBounded lo hi => match int_of_str (ws_collapse s) with
                      | Some z => if Z.leb lo z && Z.leb z hi then Some (VInt z) else None
                      | None => None
                      end
  | TDecimal => match dec_of_str (ws_collapse s) with Some (m, sc) => Some (VDec m sc) | None => None end
  | TBoolean => match bool_of_str (ws_collapse s) with Some b => Some (VBool b) | None => None end
  | TString m => Some (VStr (normalize m s))
  | TDate y0 => match date_of_str y0 (ws_collapse s) with Some (y, m, d) => Some (VDate y m d) | None => None end
  | TRestrict base m fs =>
      let s' := normalize m s in
      match decode base s' with
      | Some v => if forallb (facet_ok v) fs then Some v else None
      | None => None
      end
  | TList item =>
      match all_some (map (decode item) (split_ws s)) with
      | Some vs => Some (VList vs)
      | None => None
      end
  | TUnion a b => match decode a s with Some v => Some v | None => decode b s end
  end.

Definition valid (t : sty) (s : str) : bool := match decode t s with Some _ => true | None => false end.

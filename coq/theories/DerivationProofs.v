From XV Require Import Base Derivation.

Lemma meth_eqb_spec a b : meth_eqb a b = true <-> a = b.
Proof. destruct a, b; cbn; split; congruence. Qed.

Lemma chain_le e : wf e -> forall t b ms, chain e t b ms -> b <= t /\ (ms <> [] -> b < t).
Proof.
  intros W t b ms H. induction H as [t td Hn|t td b' b ms Hn Hb Hc [IH1 IH2]].
  - split; [lia | congruence].
  - pose proof (W _ _ _ Hn Hb). split; [lia | intros _; lia].
Qed.

Lemma chain_self e : wf e -> forall t ms, chain e t t ms -> ms = [].
Proof.
  intros W t ms H. destruct ms as [|m ms]; [reflexivity|].
  apply (chain_le e W) in H as [_ H]. assert (t < t) by (apply H; discriminate). lia.
Qed.

Lemma chain_unique e : wf e -> forall t b ms, chain e t b ms -> forall ms', chain e t b ms' -> ms = ms'.
Proof.
  intros W t b ms H. induction H as [t td Hn|t td b' b ms Hn Hb Hc IH]; intros ms' H'.
  - symmetry. now apply (chain_self e W t).
  - inversion H' as [? td2 Hn2|? td2 b2 ? ms2 Hn2 Hb2 Hc2]; subst.
    + assert (E : t_meth td :: ms = []) by (apply (chain_self e W b); econstructor; eauto).
      discriminate.
    + rewrite Hn in Hn2. injection Hn2 as <-. rewrite Hb in Hb2. injection Hb2 as <-.
      f_equal. now apply IH.
Qed.

Lemma chain_defined e t b ms : chain e t b ms -> exists td, nth_error e t = Some td.
Proof. intro H. inversion H; eauto. Qed.

Lemma der_none e : wf e -> forall fuel t b, t < fuel ->
  (is_derived fuel e t b None = true <-> exists ms, chain e t b ms).
Proof.
  intros W fuel. induction fuel as [|f IH]; intros t b Hf; [lia|].
  cbn [is_derived]. destruct (nth_error e t) as [td|] eqn:En.
  2: { split; [discriminate|]. intros [ms H]. apply chain_defined in H as [td H]. congruence. }
  assert (Core :
    (if Nat.eqb t b then true
     else match t_base td with
          | None => false
          | Some b0 => if Nat.eqb b0 b then true else is_derived f e b0 b None
          end) = true <-> exists ms, chain e t b ms).
  { destruct (Nat.eqb_spec t b) as [->|Hne].
    - split; [intros _; exists []; econstructor; eauto | reflexivity].
    - destruct (t_base td) as [b0|] eqn:Eb.
      + pose proof (W _ _ _ En Eb) as Hlt.
        destruct (Nat.eqb_spec b0 b) as [->|Hne2].
        * split; [intros _|reflexivity].
          destruct (nth_error e b) as [tdb|] eqn:Enb.
          -- exists [t_meth td]. econstructor; eauto. econstructor; eauto.
          -- exfalso. apply nth_error_None in Enb.
             assert (t < length e) by (apply nth_error_Some; congruence). lia.
        * rewrite IH by lia. split.
          -- intros [ms H]. exists (t_meth td :: ms). econstructor; eauto.
          -- intros [ms H]. inversion H as [|? td2 b2 ? ms2 Hn2 Hb2 Hc2]; subst; [congruence|].
             rewrite En in Hn2. injection Hn2 as <-. rewrite Eb in Hb2. injection Hb2 as <-. eauto.
      + split; [discriminate|]. intros [ms H].
        inversion H as [|? td2 b2 ? ms2 Hn2 Hb2 Hc2]; subst; [congruence|].
        rewrite En in Hn2. injection Hn2 as <-. congruence. }
  destruct (t_simple td).
  - exact Core.
  - replace (match t_base td with Some _ => None | None => None end) with (@None meth)
      by (destruct (t_base td); reflexivity).
    destruct (Nat.eqb t b) eqn:E1; [exact Core|].
    destruct (t_base td) as [b0|]; [|exact Core].
    destruct (Nat.eqb b0 b); exact Core.
Qed.

Lemma all_complex_nth e t td : all_complex e -> nth_error e t = Some td -> t_simple td = false.
Proof.
  intros H En. unfold all_complex in H. rewrite Forall_forall in H. apply H. eapply nth_error_In; eauto.
Qed.

Lemma der_some e : wf e -> all_complex e -> forall m fuel t b, t < fuel ->
  (is_derived fuel e t b (Some m) = true <-> t < length e /\ (t = b \/ exists ms, chain e t b ms /\ In m ms)).
Proof.
  intros W C m fuel. induction fuel as [|f IH]; intros t b Hf; [lia|].
  cbn [is_derived]. destruct (nth_error e t) as [td|] eqn:En.
  2: { split; [discriminate|]. intros [Hl _]. apply nth_error_None in En. lia. }
  assert (Hl : t < length e) by (apply nth_error_Some; congruence).
  rewrite (all_complex_nth e t td C En).
  destruct (Nat.eqb_spec t b) as [->|Hne]; [split; auto|].
  destruct (t_base td) as [b0|] eqn:Eb.
  2: { split; [discriminate|]. intros [_ [E|[ms [H _]]]]; [congruence|].
       inversion H as [|? td2 b2 ? ms2 Hn2 Hb2 Hc2]; subst; [congruence|].
       rewrite En in Hn2. injection Hn2 as <-. congruence. }
  pose proof (W _ _ _ En Eb) as Hlt.
  destruct (meth_eqb m (t_meth td)) eqn:Em.
  - apply meth_eqb_spec in Em. subst m.
    destruct (Nat.eqb_spec b0 b) as [->|Hne2].
    + split; [intros _|reflexivity]. split; [exact Hl|]. right.
      destruct (nth_error e b) as [tdb|] eqn:Enb.
      * exists [t_meth td]. split; [econstructor; eauto; econstructor; eauto | now left].
      * exfalso. apply nth_error_None in Enb. lia.
    + rewrite (der_none e W) by lia. split.
      * intros [ms H]. split; [exact Hl|]. right. exists (t_meth td :: ms).
        split; [econstructor; eauto | now left].
      * intros [_ [E|[ms [H _]]]]; [congruence|].
        inversion H as [|? td2 b2 ? ms2 Hn2 Hb2 Hc2]; subst; [congruence|].
        rewrite En in Hn2. injection Hn2 as <-. rewrite Eb in Hb2. injection Hb2 as <-. eauto.
  - assert (Hm : m <> t_meth td) by (intro E; apply meth_eqb_spec in E; congruence).
    destruct (Nat.eqb_spec b0 b) as [->|Hne2].
    + split; [discriminate|]. intros [_ [E|[ms [H Hin]]]]; [congruence|].
      inversion H as [|? td2 b2 ? ms2 Hn2 Hb2 Hc2]; subst; [congruence|].
      rewrite En in Hn2. injection Hn2 as <-. rewrite Eb in Hb2. injection Hb2 as <-.
      apply (chain_self e W) in Hc2. subst ms2. destruct Hin as [E|[]]. congruence.
    + rewrite IH by lia. split.
      * intros [_ [E|[ms [H Hin]]]]; [congruence|]. split; [exact Hl|]. right.
        exists (t_meth td :: ms). split; [econstructor; eauto | now right].
      * intros [_ [E|[ms [H Hin]]]]; [congruence|].
        inversion H as [|? td2 b2 ? ms2 Hn2 Hb2 Hc2]; subst; [congruence|].
        rewrite En in Hn2. injection Hn2 as <-. rewrite Eb in Hb2. injection Hb2 as <-.
        split; [lia|]. right. exists ms2. split; [exact Hc2|].
        destruct Hin as [E|Hin]; [congruence | exact Hin].
Qed.

Theorem derived_plain e t b : wf e ->
  (derived e t b None = true <-> exists ms, chain e t b ms).
Proof. intro W. unfold derived. apply (der_none e W). lia. Qed.

Theorem derived_meth e t b m : wf e -> all_complex e ->
  (derived e t b (Some m) = true <-> t < length e /\ (t = b \/ exists ms, chain e t b ms /\ In m ms)).
Proof. intros W C. unfold derived. apply (der_some e W C). lia. Qed.

Theorem xsi_type_ok_spec e ty eb T : wf e -> all_complex e ->
  (xsi_type_ok e ty eb T = true <->
   T < length e /\ type_abstract e T = false /\
   exists ms, chain e T ty ms /\ forall m, In m (eb ++ type_block e ty) -> ~ In m ms).
Proof.
  intros W C. unfold xsi_type_ok.
  rewrite !andb_true_iff, !negb_true_iff, Nat.ltb_lt, (derived_plain e T ty W). split.
  - intros [[[Hl [ms Hc]] Hb] Ha]. repeat split; auto. exists ms. split; [exact Hc|].
    intros m Hin Hm. unfold is_blocked in Hb.
    destruct (Nat.eqb_spec T ty) as [->|Hne].
    + apply (chain_self e W) in Hc. subst ms. destruct Hm.
    + assert (Hx : existsb (fun m0 => derived e T ty (Some m0)) (eb ++ type_block e ty) = true).
      { apply existsb_exists. exists m. split; [exact Hin|].
        apply (derived_meth e T ty m W C). split; [exact Hl|]. right. eauto. }
      congruence.
  - intros [Hl [Ha [ms [Hc Hd]]]]. repeat split; eauto.
    unfold is_blocked. destruct (Nat.eqb_spec T ty) as [->|Hne]; [reflexivity|].
    destruct (existsb _ _) eqn:Ex; [|reflexivity]. exfalso.
    apply existsb_exists in Ex as [m [Hin Hm]].
    apply (derived_meth e T ty m W C) in Hm as [_ [E|[ms' [Hc' Hin']]]]; [congruence|].
    rewrite (chain_unique e W _ _ _ Hc' _ Hc) in Hin'. exact (Hd m Hin Hin').
Qed.

Theorem subst_ok_spec e ht hb hsb mt mabs : wf e -> all_complex e -> mt < length e ->
  (subst_ok e ht hb hsb mt mabs = true <->
   hsb = false /\ mabs = false /\ type_abstract e mt = false /\
   (mt = ht \/ forall m, In m (hb ++ type_block e ht) -> forall ms, chain e mt ht ms -> ~ In m ms)).
Proof.
  intros W C Hl. unfold subst_ok. rewrite !andb_true_iff, !negb_true_iff. unfold is_blocked.
  destruct (Nat.eqb_spec mt ht) as [->|Hne].
  - split; [intros [[[H1 H2] _] H4]; auto | intros [H1 [H2 [H3 _]]]; auto].
  - split.
    + intros [[[H1 H2] H3] H4]. repeat split; auto. right. intros m Hin ms Hc Hm.
      assert (Hx : existsb (fun m0 => derived e mt ht (Some m0)) (hb ++ type_block e ht) = true).
      { apply existsb_exists. exists m. split; [exact Hin|].
        apply (derived_meth e mt ht m W C). split; [exact Hl|]. right. eauto. }
      congruence.
    + intros [H1 [H2 [H3 [E|H4]]]]; [congruence|]. repeat split; auto.
      destruct (existsb _ _) eqn:Ex; [|reflexivity]. exfalso.
      apply existsb_exists in Ex as [m [Hin Hm]].
      apply (derived_meth e mt ht m W C) in Hm as [_ [E|[ms [Hc Hin']]]]; [congruence|].
      exact (H4 m Hin ms Hc Hin').
Qed.

Theorem simple_meth e t b : wf e -> all_simple e ->
  derived e t b (Some Ext) = false /\ derived e t b (Some Restr) = derived e t b None.
Proof.
  intros W S. unfold derived. cbn [is_derived].
  destruct (nth_error e t) as [td|] eqn:En; [|auto].
  unfold all_simple in S. rewrite Forall_forall in S.
  destruct (S td (nth_error_In _ _ En)) as [-> _]. auto.
Qed.

Theorem nil_accept_iff nillable v has_fixed empty :
  nil_check nillable v has_fixed empty = Nilled <->
  nillable = true /\ v = 1 /\ has_fixed = false /\ empty = true.
Proof.
  unfold nil_check. destruct nillable, has_fixed, empty; destruct v as [|[|v]]; cbn;
    split; try discriminate; try (intros (?&?&?&?); discriminate); auto.
Qed.

Theorem nil_no_error_iff nillable v has_fixed empty :
  nil_check nillable v has_fixed empty <> NilError <->
  nillable = true /\ (v = 0 \/ (v = 1 /\ has_fixed = false /\ empty = true)).
Proof.
  unfold nil_check. destruct nillable, has_fixed, empty; destruct v as [|[|v]]; cbn;
    split; try congruence; try (intros [? [?|(?&?&?)]]; congruence); try (intros _; split; auto; fail).
  all: try (intro H; exfalso; apply H; reflexivity).
  all: try (intros _; split; [reflexivity | right; repeat split; reflexivity]).
Qed.

Theorem first_alternative alts declared :
  (forall a, In a alts -> fst a = false) /\ alternative_type alts declared = declared \/
  exists pre a post, alts = pre ++ a :: post /\ fst a = true /\
                     (forall x, In x pre -> fst x = false) /\ alternative_type alts declared = snd a.
Proof.
  unfold alternative_type. induction alts as [|[c ty] r IH]; cbn [find].
  - left. split; [intros a [] | reflexivity].
  - destruct c; cbn [fst].
    + right. exists [], (true, ty), r. repeat split; auto. intros x [].
    + destruct IH as [[H1 H2]|[pre [a [post [E [Ha [Hp Hr]]]]]]].
      * left. split; [|exact H2]. intros a [<-|Ha]; auto.
      * right. exists ((false, ty) :: pre), a, post. subst r. repeat split; auto.
        intros x [<-|Hx]; auto.
Qed.

(* ---- tests that end in a dynamic error ---- *)
Theorem first_alternative_dyn alts declared :
  (forall a, In a alts -> holds (fst a) = false) /\ alternative_type_dyn alts declared = declared \/
  exists pre a post, alts = pre ++ a :: post /\ holds (fst a) = true /\
                     (forall x, In x pre -> holds (fst x) = false) /\ alternative_type_dyn alts declared = snd a.
Proof.
  unfold alternative_type_dyn, alternative_type. induction alts as [|[c ty] r IH]; cbn [map find fst snd].
  - left. split; [intros a [] | reflexivity].
  - destruct (holds c) eqn:Hc; cbn [fst].
    + right. exists [], (c, ty), r. repeat split; auto. intros x [].
    + destruct IH as [[H1 H2]|[pre [a [post [E [Ha [Hp Hr]]]]]]].
      * left. split; [|exact H2]. intros a [<-|Ha]; auto.
      * right. exists ((c, ty) :: pre), a, post. subst r. repeat split; auto.
        intros x [<-|Hx]; auto.
Qed.

Theorem raise_agrees_when_defined alts declared t :
  alternative_type_raise alts declared = Some t -> alternative_type_dyn alts declared = t.
Proof.
  unfold alternative_type_dyn, alternative_type. induction alts as [|[[[|]|] ty] r IH]; cbn [alternative_type_raise map find fst snd holds].
  - now intros [= <-].
  - now intros [= <-].
  - exact IH.
  - discriminate.
Qed.

Theorem raise_variant_refuted :
  exists alts declared, alternative_type_raise alts declared = None /\ alternative_type_dyn alts declared <> declared.
Proof. exists [(TError, 1); (TBool true, 2)], 0. split; [reflexivity | cbv; discriminate]. Qed.

(* Base definitions shared by all models: boolean list membership over N,
   set-like helpers with Python-set reading, association lists. *)
From Coq Require Export List Bool Arith NArith ZArith Lia.
Export ListNotations.

Fixpoint memb (n : N) (l : list N) : bool :=
  match l with
  | [] => false
  | x :: r => if N.eqb n x then true else memb n r
  end.

Definition isnil {A} (l : list A) : bool := match l with [] => true | _ => false end.

(* subset / set-equality of lists read as sets *)
Definition subsetb (a b : list N) : bool := forallb (fun x => memb x b) a.
Definition seteqb (a b : list N) : bool := subsetb a b && subsetb b a.

Definition inter (a b : list N) : list N := filter (fun x => memb x b) a.
Definition diff (a b : list N) : list N := filter (fun x => negb (memb x b)) a.
Definition remove1 (n : N) (a : list N) : list N := filter (fun x => negb (N.eqb x n)) a.

Lemma memb_In n l : memb n l = true <-> In n l.
Proof.
  induction l as [|x r IH]; cbn [memb In].
  - split; [discriminate | tauto].
  - destruct (N.eqb_spec n x) as [->|Hne].
    + split; auto.
    + rewrite IH. split; [auto | intros [H|H]; [congruence | exact H]].
Qed.

Lemma memb_app n a b : memb n (a ++ b) = memb n a || memb n b.
Proof.
  induction a as [|x r IH]; cbn [memb app]; [reflexivity|].
  destruct (N.eqb n x); [reflexivity | exact IH].
Qed.

Lemma memb_filter n f l : memb n (filter f l) = memb n l && f n.
Proof.
  induction l as [|x r IH]; cbn [memb filter]; [reflexivity|].
  destruct (f x) eqn:Hf; cbn [memb].
  - destruct (N.eqb_spec n x) as [->|Hne]; [now rewrite Hf | exact IH].
  - destruct (N.eqb_spec n x) as [->|Hne]; [rewrite IH, Hf; now rewrite andb_false_r | exact IH].
Qed.

Lemma memb_inter n a b : memb n (inter a b) = memb n a && memb n b.
Proof. unfold inter. apply memb_filter. Qed.

Lemma memb_diff n a b : memb n (diff a b) = memb n a && negb (memb n b).
Proof. unfold diff. apply memb_filter. Qed.

Lemma memb_remove1 n x a : memb n (remove1 x a) = memb n a && negb (N.eqb n x).
Proof. unfold remove1. apply memb_filter. Qed.

Lemma memb_nil_false n l : isnil l = true -> memb n l = false.
Proof. destruct l; [reflexivity | discriminate]. Qed.

Lemma subsetb_spec a b : subsetb a b = true <-> forall n, memb n a = true -> memb n b = true.
Proof.
  unfold subsetb. rewrite forallb_forall. split.
  - intros H n Hn. apply H. now apply memb_In.
  - intros H x Hx. apply H. now apply memb_In.
Qed.

Lemma seteqb_spec a b : seteqb a b = true <-> forall n, memb n a = memb n b.
Proof.
  unfold seteqb. rewrite andb_true_iff, !subsetb_spec. split.
  - intros [H1 H2] n. destruct (memb n a) eqn:Ha.
    + symmetry. now apply H1.
    + destruct (memb n b) eqn:Hb; [|reflexivity]. apply H2 in Hb. congruence.
  - intros H. split; intros n Hn; [rewrite <- H | rewrite H]; exact Hn.
Qed.

(* a name not in a finite list always exists: the universe of namespaces is infinite *)
Definition fresh (l : list N) : N := N.succ (fold_right N.max 0%N l).

Lemma fresh_gt l : forall x, In x l -> (x < fresh l)%N.
Proof.
  unfold fresh. induction l as [|y r IH]; cbn [fold_right In]; [tauto|].
  intros x [->|H]; [lia | specialize (IH x H); lia].
Qed.

Lemma fresh_not_in l : memb (fresh l) l = false.
Proof.
  destruct (memb (fresh l) l) eqn:H; [|reflexivity].
  apply memb_In in H. apply fresh_gt in H. lia.
Qed.

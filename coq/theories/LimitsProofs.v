From XV Require Import Base Limits.

Lemma count_start_cons_start r : count_start (EvStart :: r) = (1 + count_start r)%Z.
Proof. unfold count_start. cbn [filter length]. lia. Qed.
Lemma count_start_cons_end r : count_start (EvEnd :: r) = count_start r.
Proof. reflexivity. Qed.
Lemma count_start_cons_other r : count_start (EvOther :: r) = count_start r.
Proof. reflexivity. Qed.
Lemma count_start_nonneg r : (0 <= count_start r)%Z.
Proof. unfold count_start. lia. Qed.
Lemma maxdepth_ge lvl evs : (lvl <= maxdepth lvl evs)%Z.
Proof.
  revert lvl. induction evs as [|e r IH]; intro lvl; cbn [maxdepth]; [lia|].
  destruct e; [specialize (IH (lvl + 1)%Z) | specialize (IH (lvl - 1)%Z) | specialize (IH lvl)]; lia.
Qed.

(* invariant form: levels used so far lvl = D - rl, elements seen so far n = E - re *)
Lemma load_run_spec lazy D E evs : forall lvl n,
  (lvl <= D)%Z -> (lazy = true \/ n <= E)%Z ->
  (load_run lazy (D - lvl) (E - n) evs = Loaded <->
   (maxdepth lvl evs <= D)%Z /\ (lazy = true \/ n + count_start evs <= E)%Z).
Proof.
  induction evs as [|e r IH]; intros lvl n Hl Hn; cbn [load_run maxdepth].
  - unfold count_start; cbn. split; [intros _; split; [lia | destruct Hn; [now left | right; lia]] | reflexivity].
  - destruct e.
    + rewrite count_start_cons_start.
      destruct (Z.ltb_spec (D - lvl - 1) 0) as [Hd|Hd].
      * split; [discriminate|]. intros [H _]. pose proof (maxdepth_ge (lvl + 1) r). lia.
      * destruct lazy; cbn [negb andb].
        -- replace (D - lvl - 1)%Z with (D - (lvl + 1))%Z by lia.
           replace (E - n - 1)%Z with (E - (n + 1))%Z by lia.
           rewrite (IH (lvl + 1)%Z (n + 1)%Z) by (try lia; now left).
           split; intros [H1 H2]; (split; [lia | now left]).
        -- destruct (Z.ltb_spec (E - n - 1) 0) as [He|He].
           ++ split; [discriminate|]. intros [_ [H|H]]; [discriminate|].
              pose proof (count_start_nonneg r). lia.
           ++ replace (D - lvl - 1)%Z with (D - (lvl + 1))%Z by lia.
              replace (E - n - 1)%Z with (E - (n + 1))%Z by lia.
              rewrite (IH (lvl + 1)%Z (n + 1)%Z) by (try lia; right; lia).
              split; intros [H1 [H2|H2]]; try discriminate; (split; [lia | right; lia]).
    + rewrite count_start_cons_end.
      replace (D - lvl + 1)%Z with (D - (lvl - 1))%Z by lia.
      rewrite (IH (lvl - 1)%Z n) by (try lia; exact Hn).
      pose proof (maxdepth_ge (lvl - 1) r). split; intros [H1 H2]; (split; [lia | exact H2]).
    + rewrite count_start_cons_other. apply IH; assumption.
Qed.

Theorem limits_exact D E lazy evs : (0 <= D)%Z -> (0 <= E)%Z ->
  (parse_limited D E lazy evs = Loaded <->
   (maxdepth 0 evs <= D)%Z /\ (lazy = true \/ count_start evs <= E)%Z).
Proof.
  intros HD HE. unfold parse_limited.
  replace D with (D - 0)%Z at 1 by lia. replace E with (E - 0)%Z at 1 by lia.
  rewrite (load_run_spec lazy D E evs 0 0) by (try lia; right; lia).
  replace (0 + count_start evs)%Z with (count_start evs) by lia. reflexivity.
Qed.

Theorem lazy_has_no_element_limit D E evs : parse_limited D E true evs <> ExcElems.
Proof.
  unfold parse_limited. generalize D as rl, E as re. induction evs as [|e r IH]; intros rl re; cbn [load_run]; [discriminate|].
  destruct e; [|apply IH|apply IH]. destruct (Z.ltb (rl - 1) 0); [discriminate|]. cbn. apply IH.
Qed.

(* ------------------------------------------------------------------ modes *)
Theorem strict_raises_first {E} (es : list E) e : run_mode Strict es = Raise e <-> hd_error es = Some e.
Proof. destruct es as [|x r]; cbn; split; try discriminate; intro H; injection H as ->; reflexivity. Qed.

Theorem lax_collects_all {E} (es : list E) : run_mode Lax es = Done es.
Proof. reflexivity. Qed.

Theorem lax_never_raises {E} (es : list E) e : run_mode Lax es <> Raise e.
Proof. discriminate. Qed.

Theorem skip_collects_none {E} (es : list E) : run_mode Skip es = Done [].
Proof. reflexivity. Qed.

Theorem is_valid_iff {E} (es : list E) :
  (is_valid es = true <-> es = []) /\
  (is_valid es = true <-> run_mode Strict es = Done []) /\
  (is_valid es = true <-> validate_raises es = false) /\
  (is_valid es = true <-> run_mode Lax es = Done []).
Proof.
  unfold is_valid, validate_raises. destruct es as [|x r]; cbn; repeat split; try discriminate; auto;
    intro H; try discriminate; try (injection H; discriminate).
Qed.

Theorem cli_zero_iff_valid {E} (runs : list (list E)) :
  cli_status runs = 0%Z <-> Forall (fun es => es = []) runs.
Proof.
  unfold cli_status. split.
  - intro H. assert (Hl : length (concat runs) = 0) by lia.
    apply length_zero_iff_nil in Hl. apply Forall_forall. intros es Hin.
    destruct es as [|x r]; [reflexivity|]. exfalso.
    assert (In x (concat runs)) by (apply in_concat; exists (x :: r); split; [exact Hin | now left]).
    rewrite Hl in H0. destruct H0.
  - intro H. assert (Hc : concat runs = []).
    { induction H as [|es r -> Hr IH]; [reflexivity | exact IH]. }
    rewrite Hc. reflexivity.
Qed.

Theorem cli_status_range {E} (runs : list (list E)) : (0 <= cli_status runs <= 255)%Z.
Proof. unfold cli_status. lia. Qed.

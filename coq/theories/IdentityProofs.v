From XV Require Import Base Identity.
From Coq Require Import Permutation.

Lemma count_one_in (seen : list ctuple) x :
  NoDup seen -> (Nat.eqb (count_occ ct_eq_dec seen x) 1 = true <-> In x seen).
Proof.
  intro H. rewrite Nat.eqb_eq. split.
  - intro E. apply (count_occ_In ct_eq_dec). lia.
  - intro Hin. pose proof (proj1 (NoDup_count_occ ct_eq_dec seen) H x) as Hle.
    apply (count_occ_In ct_eq_dec) in Hin. lia.
Qed.

Lemma dup_errors_from_spec l : forall seen, NoDup seen ->
  (dup_errors_from seen l = [] <-> NoDup (l ++ seen)).
Proof.
  induction l as [|x r IH]; intros seen Hs; cbn [dup_errors_from app].
  - tauto.
  - destruct (Nat.eqb (count_occ ct_eq_dec seen x) 1) eqn:E.
    + apply (count_one_in seen x Hs) in E. split; [discriminate|].
      intro H. inversion H as [|? ? Hn _]; subst. exfalso. apply Hn, in_or_app. now right.
    + assert (Hx : ~ In x seen).
      { intro Hin. apply (count_one_in seen x Hs) in Hin. congruence. }
      rewrite (IH (x :: seen)) by (constructor; assumption).
      split; intro H.
      * apply (Permutation_NoDup (l := r ++ x :: seen)); [|exact H].
        symmetry. apply Permutation_middle.
      * apply (Permutation_NoDup (l := x :: r ++ seen)); [|exact H].
        apply Permutation_middle.
Qed.

Theorem dup_errors_spec l : dup_errors l = [] <-> NoDup l.
Proof.
  unfold dup_errors. rewrite dup_errors_from_spec by constructor. now rewrite app_nil_r.
Qed.

Theorem unique_spec ts : unique_errors ts = [] <-> NoDup (qualified ts).
Proof.
  unfold unique_errors. rewrite <- dup_errors_spec.
  destruct (dup_errors (qualified ts)); cbn; split; congruence.
Qed.

Lemma incomplete_nil ts : incomplete ts = [] <-> Forall (fun t => complete t <> None) ts.
Proof.
  unfold incomplete. induction ts as [|t r IH]; cbn [filter].
  - split; constructor.
  - destruct (complete t) eqn:E.
    + rewrite IH. split; [intro H; constructor; [congruence | exact H] | intro H; now inversion H].
    + split; [discriminate | intro H; inversion H; congruence].
Qed.

Theorem key_spec ts :
  key_errors ts = [] <-> Forall (fun t => complete t <> None) ts /\ NoDup (qualified ts).
Proof.
  unfold key_errors. rewrite <- incomplete_nil, <- dup_errors_spec. split.
  - intro H. apply app_eq_nil in H as [H1 H2].
    destruct (incomplete ts); [|discriminate]. destruct (dup_errors (qualified ts)); [|discriminate]. auto.
  - intros [-> ->]. reflexivity.
Qed.

Lemma ct_mem_In a l : ct_mem a l = true <-> In a l.
Proof. unfold ct_mem. destruct (in_dec ct_eq_dec a l); split; auto; discriminate. Qed.

Lemma nodup_keep_nil l seen : nodup_keep l seen = [] <-> forall x, In x l -> In x seen.
Proof.
  revert seen. induction l as [|x r IH]; intro seen; cbn [nodup_keep].
  - split; [intros _ y [] | reflexivity].
  - destruct (ct_mem x seen) eqn:E.
    + apply ct_mem_In in E. rewrite IH. split.
      * intros H y [<-|Hy]; auto.
      * intros H y Hy. apply H. now right.
    + split; [discriminate|]. intro H. exfalso.
      assert (In x seen) by (apply H; now left). apply ct_mem_In in H0. congruence.
Qed.

Theorem keyref_spec refer ts :
  keyref_errors refer ts = [] <-> forall v, In v (qualified ts) -> In v refer.
Proof.
  unfold keyref_errors. split.
  - intros H v Hv. destruct (ct_mem v refer) eqn:E; [now apply ct_mem_In|]. exfalso.
    assert (Hn : nodup_keep (filter (fun v0 => negb (ct_mem v0 refer)) (qualified ts)) [] = []).
    { destruct (nodup_keep _ _); [reflexivity | discriminate]. }
    rewrite nodup_keep_nil in Hn. apply (Hn v). apply filter_In. split; [exact Hv | now rewrite E].
  - intro H. replace (filter _ (qualified ts)) with (@nil ctuple); [reflexivity|].
    symmetry. induction (qualified ts) as [|x r IH]; [reflexivity|]. cbn [filter].
    assert (ct_mem x refer = true) as -> by (apply ct_mem_In, H; now left). cbn [negb].
    apply IH. intros v Hv. apply H. now right.
Qed.

Theorem scope_independent ss1 ss2 : doc_errors (ss1 ++ ss2) = doc_errors ss1 ++ doc_errors ss2.
Proof. unfold doc_errors. apply flat_map_app. Qed.

Lemma z_mem_In a l : z_mem a l = true <-> In a l.
Proof. unfold z_mem. destruct (in_dec Z.eq_dec a l); split; auto; discriminate. Qed.

Lemma zdup_spec l : forall seen, NoDup seen -> (zdup seen l = false <-> NoDup (l ++ seen)).
Proof.
  induction l as [|x r IH]; intros seen Hs; cbn [zdup app].
  - tauto.
  - rewrite orb_false_iff. destruct (z_mem x seen) eqn:E.
    + apply z_mem_In in E. split; [intros [H _]; discriminate|].
      intro H. inversion H as [|? ? Hn _]; subst. exfalso. apply Hn, in_or_app. now right.
    + assert (Hx : ~ In x seen) by (intro Hin; apply z_mem_In in Hin; congruence).
      rewrite (IH (x :: seen)) by (constructor; assumption). split.
      * intros [_ H]. apply (Permutation_NoDup (l := r ++ x :: seen)); [|exact H].
        symmetry. apply Permutation_middle.
      * intro H. split; [reflexivity|].
        apply (Permutation_NoDup (l := x :: r ++ seen)); [|exact H]. apply Permutation_middle.
Qed.

Theorem ids_spec ids refs : ids_ok ids refs = true <-> NoDup ids /\ incl refs ids.
Proof.
  unfold ids_ok. rewrite andb_true_iff, negb_true_iff, zdup_spec by constructor.
  rewrite app_nil_r, forallb_forall. unfold incl.
  split; intros [H1 H2]; split; auto; intros a Ha; apply z_mem_In; auto.
Qed.

(* ---------------------------------------------------------------- propagation *)
Theorem propagated_spec tables v :
  In v (propagated tables) <-> (exists t, In t tables /\ In v t) /\ count_tables v tables = 1.
Proof.
  unfold propagated. rewrite filter_In, in_concat, Nat.eqb_eq. tauto.
Qed.

(* with one scope instance the propagated table is the table itself (as a set) *)
Theorem propagated_single t v : NoDup t -> (In v (propagated [t]) <-> In v t).
Proof.
  intro Hnd. rewrite propagated_spec. unfold count_tables. cbn [filter]. split.
  - intros [[t' [[<-|[]] Hv]] _]. exact Hv.
  - intro Hv. split; [exists t; split; [now left | exact Hv]|].
    assert (E : ct_mem v t = true) by now apply ct_mem_In. now rewrite E.
Qed.

Theorem ancestor_keyref_spec tables ts :
  ancestor_keyref_errors tables ts = [] <->
  forall v, In v (qualified ts) -> (exists t, In t tables /\ In v t) /\ count_tables v tables = 1.
Proof.
  unfold ancestor_keyref_errors. rewrite keyref_spec. split; intros H v Hv; specialize (H v Hv).
  - now apply propagated_spec.
  - now apply propagated_spec.
Qed.

(* Model of xmlschema/namespaces.py NamespaceMapper.set_xmlns_context, branch for the xmlns processing modes
   'collapsed' and 'root-only': the declarations of the elements are added to one map that is reported on the
   root of the decoded data; a prefix that is already bound to another namespace is renamed (p -> p0 -> p1 ...).

   A prefix is a pair (stem, k): k = 0 stands for "no numeric suffix", k = i + 1 for the decimal suffix i
   (written without leading zeros), so that the renaming step of the implementation

       match = re.search(r'(\d+)$', prefix)
       prefix = prefix[:match.span()[0]] + str(int(match.group()) + 1)   if match   else   prefix + '0'

   is (stem, k) -> (stem, k + 1).  The empty prefix is (0, 0), the generated prefix 'default' is (1, 0).
   URI 0 is the empty namespace name.  In this branch both dictionaries only ever grow by appending. *)
From XV Require Import Base.

Definition pfx := (N * N)%type.
Definition peqb (a b : pfx) : bool := N.eqb (fst a) (fst b) && N.eqb (snd a) (snd b).
Definition psucc (p : pfx) : pfx := (fst p, N.succ (snd p)).
Definition p_empty : pfx := (0, 0)%N.
Definition p_default : pfx := (1, 0)%N.

Definition fwd := list (pfx * N).      (* namespaces: prefix -> uri *)
Definition rvs := list (N * pfx).      (* _reverse:   uri -> prefix *)

Fixpoint fget (d : fwd) (p : pfx) : option N :=
  match d with
  | [] => None
  | (p', u) :: r => if peqb p p' then Some u else fget r p
  end.

Fixpoint rget (d : rvs) (u : N) : option pfx :=
  match d with
  | [] => None
  | (u', p) :: r => if N.eqb u u' then Some p else rget r u
  end.

(* `if uri not in self._reverse: self._reverse[uri] = prefix` *)
Definition radd (r : rvs) (u : N) (p : pfx) : rvs :=
  match rget r u with Some _ => r | None => r ++ [(u, p)] end.

(* the while loop: Some None = the prefix is already bound to this uri (break), Some (Some p') = first free
   renaming of the prefix (else clause), None = out of fuel (excluded by pick_total) *)
Fixpoint pick (fuel : nat) (n : fwd) (p : pfx) (u : N) : option (option pfx) :=
  match fuel with
  | O => None
  | S f => match fget n p with
           | None => Some (Some p)
           | Some u' => if N.eqb u' u then Some None else pick f n (psucc p) u
           end
  end.

Definition bind_renamed (n : fwd) (r : rvs) (p : pfx) (u : N) : option (fwd * rvs) :=
  match pick (S (length n)) n p u with
  | None => None
  | Some None => Some (n, r)
  | Some (Some p') => Some (n ++ [(p', u)], radd r u p')
  end.

(* one declaration (prefix, uri) met at nesting level lv *)
Definition decl_step (lv : nat) (st : fwd * rvs) (d : pfx * N) : option (fwd * rvs) :=
  let '(n, r) := st in
  let '(p, u) := d in
  if peqb p p_empty then
    if N.eqb u 0 then Some (n, r)                       (* xmlns="" is skipped *)
    else match fget n p_empty with
         | None => if Nat.eqb lv 0 then Some (n ++ [(p_empty, u)], radd r u p_empty)
                   else bind_renamed n r p_default u
         | Some d0 => if N.eqb d0 u then Some (n, r) else bind_renamed n r p_default u
         end
  else bind_renamed n r p u.

Fixpoint decls_steps (lv : nat) (st : fwd * rvs) (ds : list (pfx * N)) : option (fwd * rvs) :=
  match ds with
  | [] => Some st
  | d :: rest => match decl_step lv st d with
                 | Some st' => decls_steps lv st' rest
                 | None => None
                 end
  end.

(* set_xmlns_context for one element: root-only processes the declarations of level 0 only *)
Definition elem_step (collapsed : bool) (st : fwd * rvs) (op : nat * list (pfx * N)) : option (fwd * rvs) :=
  let '(lv, ds) := op in
  if Nat.eqb lv 0 || collapsed then decls_steps lv st ds else Some st.

Fixpoint run (collapsed : bool) (st : fwd * rvs) (ops : list (nat * list (pfx * N))) : option (fwd * rvs) :=
  match ops with
  | [] => Some st
  | op :: rest => match elem_step collapsed st op with
                  | Some st' => run collapsed st' rest
                  | None => None
                  end
  end.

(* the trace of states after every element, for the correspondence check *)
Fixpoint trace (collapsed : bool) (st : fwd * rvs) (ops : list (nat * list (pfx * N))) : list (option (fwd * rvs)) :=
  match ops with
  | [] => []
  | op :: rest => match elem_step collapsed st op with
                  | Some st' => Some st' :: trace collapsed st' rest
                  | None => [None]
                  end
  end.

(* NamespaceMapper.__init__: namespaces = the root's declarations,
   _reverse = {v: k for k, v in reversed(namespaces.items())}: the first declared prefix of a uri wins *)
Definition init_state (root_decls : list (pfx * N)) : fwd * rvs :=
  (root_decls, fold_left (fun r d => radd r (snd d) (fst d)) root_decls []).

(* keys of decoded data: a name in namespace u is written with the prefix the reverse map holds for u *)
Inductive key := KPre (p : pfx) (l : N) | KLoc (l : N) | KExt (u l : N).

Definition map_key (st : fwd * rvs) (u l : N) : key :=
  if N.eqb u 0 then KLoc l
  else match rget (snd st) u with
       | Some p => if peqb p p_empty then KLoc l else KPre p l
       | None => KExt u l
       end.

(* resolution of a key against the declarations reported on the root (the final forward map) *)
Definition resolve_key (n : fwd) (k : key) : option (N * N) :=
  match k with
  | KExt u l => Some (u, l)
  | KPre p l => match fget n p with Some u => Some (u, l) | None => None end
  | KLoc l => match fget n p_empty with Some u => Some (u, l) | None => Some (0%N, l) end
  end.

Definition Inv (st : fwd * rvs) : Prop := forall u p, rget (snd st) u = Some p -> fget (fst st) p = Some u.
Definition Cov (st : fwd * rvs) : Prop := forall p u, fget (fst st) p = Some u -> rget (snd st) u <> None.

(* the change seeded as C17-J: the uri is entered in the reverse map before the renaming loop *)
Definition bind_early (n : fwd) (r : rvs) (p : pfx) (u : N) : option (fwd * rvs) :=
  let r1 := radd r u p in
  match pick (S (length n)) n p u with
  | None => None
  | Some None => Some (n, r1)
  | Some (Some p') => Some (n ++ [(p', u)], r1)
  end.

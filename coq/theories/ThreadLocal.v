(* The per-schema scratch validation context under threads (validators/schemas.py validation_context,
   simple_types.py text_is_valid: clear(); raw_decode(text, 'lax', ctx); return not ctx.errors).
   A use is two steps - decode (clears, then leaves the errors of the value in the context) and read.
   After fix 0061f31 every thread has its own context; before, one context was shared. *)
From XV Require Import Base.

Section TL.
Variable errors_of : N -> list N.        (* the errors a value produces (any function) *)

Inductive op := Decode (t : nat) (x : N) | Read (t : nat).

(* per-thread contexts *)
Definition tl_state := nat -> list N.
Definition tl_step (s : tl_state) (o : op) : tl_state * option (nat * bool) :=
  match o with
  | Decode t x => (fun u => if Nat.eqb u t then errors_of x else s u, None)
  | Read t => (s, Some (t, isnil (s t)))
  end.

(* one shared context *)
Definition sh_step (s : list N) (o : op) : list N * option (nat * bool) :=
  match o with
  | Decode _ x => (errors_of x, None)
  | Read t => (s, Some (t, isnil s))
  end.

Fixpoint tl_run (s : tl_state) (ops : list op) : list (nat * bool) :=
  match ops with
  | [] => []
  | o :: r => let (s1, out) := tl_step s o in
              match out with Some x => x :: tl_run s1 r | None => tl_run s1 r end
  end.
Fixpoint sh_run (s : list N) (ops : list op) : list (nat * bool) :=
  match ops with
  | [] => []
  | o :: r => let (s1, out) := sh_step s o in
              match out with Some x => x :: sh_run s1 r | None => sh_run s1 r end
  end.

(* specification: a read of thread t returns the verdict of the value thread t decoded last *)
Fixpoint last_decoded (t : nat) (hist : list op) : option N :=   (* hist: most recent first *)
  match hist with
  | [] => None
  | Decode u x :: r => if Nat.eqb u t then Some x else last_decoded t r
  | Read _ :: r => last_decoded t r
  end.
Fixpoint spec_run (hist : list op) (ops : list op) : list (nat * bool) :=
  match ops with
  | [] => []
  | Read t :: r => (t, match last_decoded t hist with Some x => isnil (errors_of x) | None => true end)
                   :: spec_run (Read t :: hist) r
  | o :: r => spec_run (o :: hist) r
  end.

Definition tl_inv (s : tl_state) (hist : list op) : Prop :=
  forall t, s t = match last_decoded t hist with Some x => errors_of x | None => [] end.
End TL.

From XV Require Import Base Datatypes Options.

Theorem verdict_option_free conv t s : is_some (decode_opts conv t s) = is_some (decode t s).
Proof. unfold decode_opts. destruct (decode t s); reflexivity. Qed.

Theorem value_is_presented conv t s w :
  decode_opts conv t s = Some w <-> exists v, decode t s = Some v /\ w = present conv v.
Proof.
  unfold decode_opts. destruct (decode t s) as [v|]; cbn [option_map]; split.
  - intros [= <-]. now exists v.
  - intros (v' & [= <-] & ->). reflexivity.
  - discriminate.
  - intros (v' & H & _). discriminate.
Qed.

Theorem same_verdict_any_options c1 c2 t s : is_some (decode_opts c1 t s) = is_some (decode_opts c2 t s).
Proof. now rewrite !verdict_option_free. Qed.

(* with the identity presentation (typed decoding) the early conversion is the specification *)
Theorem early_id_is_spec item m fs s :
  decode_list_early (fun v => v) item m fs s = decode (TRestrict (TList item) m fs) s.
Proof.
  unfold decode_list_early. cbn [decode].
  destruct (all_some (map (decode item) (split_ws (normalize m s)))) as [vs|]; [|reflexivity].
  rewrite map_id. reflexivity.
Qed.

(* decimal_type=str: the items become strings, an enumerated list of decimals then matches nothing *)
Definition to_text (v : val) : val := match v with VDec m sc => VStr [Z.to_N m; N.of_nat sc] | _ => v end.

Theorem early_conversion_refuted :
  exists item m fs s,
    is_some (decode (TRestrict (TList item) m fs) s) = true /\
    is_some (decode_opts to_text (TRestrict (TList item) m fs) s) = true /\
    is_some (decode_list_early to_text item m fs s) = false.
Proof.
  exists TDecimal, Collapse, [FEnum [VList [VDec 1 0]]], [49%N].
  vm_compute. repeat split.
Qed.

(* ---- pattern chains on unions ---- *)
Section PatternProofs.
Variable pat : Type.
Variable pmatch : pat -> str -> bool.

Lemma push_all_app levels ctx : push_all pat levels ctx = ctx ++ levels.
Proof.
  revert ctx. induction levels as [|ps r IH]; intro ctx; cbn [push_all]; [now rewrite app_nil_r|].
  rewrite IH, <- app_assoc. reflexivity.
Qed.

Theorem union_check_all_spec levels s : union_check_all pat pmatch levels s = chain_ok pat pmatch levels s.
Proof. unfold union_check_all, chain_ok. now rewrite push_all_app. Qed.

Theorem chain_ok_app l1 l2 s : chain_ok pat pmatch (l1 ++ l2) s = chain_ok pat pmatch l1 s && chain_ok pat pmatch l2 s.
Proof. unfold chain_ok. apply forallb_app. Qed.

Lemma push_first_some levels c : push_first pat levels (Some c) = Some c.
Proof. induction levels as [|ps r IH]; cbn [push_first]; auto. Qed.

Theorem union_check_first_outermost ps r s : union_check_first pat pmatch (ps :: r) s = level_ok pat pmatch ps s.
Proof. unfold union_check_first. cbn [push_first]. now rewrite push_first_some. Qed.
End PatternProofs.

Theorem union_check_first_refuted :
  exists (levels : list (list bool)) s,
    chain_ok bool (fun p _ => p) levels s = false /\ union_check_first bool (fun p _ => p) levels s = true.
Proof. exists [[true]; [false]], []. split; reflexivity. Qed.

From XV Require Import Base Context.

Section EInd.
Variable P : enode -> Prop.
Hypothesis H : forall pre copy post kids, Forall P kids -> P (ENode pre copy post kids).
Fixpoint enode_ind' (n : enode) : P n :=
  match n with
  | ENode pre copy post kids =>
      H pre copy post kids ((fix go (l : list enode) : Forall P l :=
                               match l with [] => Forall_nil _ | k :: r => Forall_cons k (enode_ind' k) (go r) end) kids)
  end.
End EInd.

Lemma fold_shared kids : Forall (fun k => forall sink, run true k sink = sink ++ all_errors k) kids ->
  forall sink, fold_left (fun s k => run true k s) kids sink = sink ++ flat_map all_errors kids.
Proof.
  induction 1 as [|k r Hk Hr IH]; intro sink; cbn [fold_left flat_map]; [now rewrite app_nil_r|].
  rewrite Hk, IH. now rewrite <- app_assoc.
Qed.

Theorem run_shared : forall n sink, run true n sink = sink ++ all_errors n.
Proof.
  induction n as [pre copy post kids IH] using enode_ind'. intro sink. cbn [run all_errors].
  rewrite andb_false_r. rewrite (fold_shared kids IH). now rewrite <- !app_assoc.
Qed.

Corollary lax_collects_document_errors n : lax_errors true n = all_errors n.
Proof. unfold lax_errors. now rewrite run_shared. Qed.

Corollary ctx_is_valid_iff_strict_passes n : ctx_is_valid true n = negb (ctx_strict_raises n).
Proof. unfold ctx_is_valid, ctx_strict_raises. rewrite lax_collects_document_errors. now rewrite negb_involutive. Qed.

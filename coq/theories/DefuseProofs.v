From XV Require Import Base Defuse.

Theorem prescan_iff cbs :
  prescan cbs = Forbidden <->
  exists pre c post, cbs = pre ++ c :: post /\ forbidden c = true /\ no_start pre = true /\
                     forallb (fun x => negb (forbidden x)) pre = true.
Proof.
  induction cbs as [|c r IH]; cbn [prescan].
  - split; [discriminate | intros (pre & c & post & E & _)]. destruct pre; discriminate.
  - destruct (forbidden c) eqn:Ef.
    + split; [intros _|reflexivity]. exists [], c, r. repeat split; auto.
    + destruct (is_start c) eqn:Es.
      * split; [discriminate|]. intros (pre & c' & post & E & Hf & Hn & _).
        destruct pre as [|x pre]; cbn in E; injection E as E1 E2; subst; [congruence|].
        cbn in Hn. rewrite Es in Hn. discriminate.
      * rewrite IH. split.
        -- intros (pre & c' & post & -> & Hf & Hn & Ha). exists (c :: pre), c', post.
           repeat split; auto; cbn; [now rewrite Es | now rewrite Ef].
        -- intros (pre & c' & post & E & Hf & Hn & Ha).
           destruct pre as [|x pre]; cbn in E; injection E as E1 E2; subst; [congruence|].
           cbn in Hn, Ha. rewrite Es in Hn. rewrite Ef in Ha. exists pre, c', post. auto.
Qed.

Lemma first_forbidden cbs : (exists c, In c cbs /\ forbidden c = true) ->
  exists pre c post, cbs = pre ++ c :: post /\ forbidden c = true /\
                     forallb (fun x => negb (forbidden x)) pre = true.
Proof.
  induction cbs as [|x r IH]; intros [c [Hin Hf]]; [destruct Hin|].
  destruct (forbidden x) eqn:Ex.
  - exists [], x, r. auto.
  - destruct Hin as [->|Hin]; [congruence|].
    destruct (IH (ex_intro _ c (conj Hin Hf))) as (pre & c' & post & -> & Hf' & Ha).
    exists (x :: pre), c', post. repeat split; auto. cbn. now rewrite Ex.
Qed.

Theorem wellformed_refused cbs :
  wellformed cbs -> (exists c, In c cbs /\ forbidden c = true) -> prescan cbs = Forbidden.
Proof.
  intros W H. destruct (first_forbidden cbs H) as (pre & c & post & E & Hf & Ha).
  apply prescan_iff. exists pre, c, post. repeat split; auto. now apply (W pre c post E).
Qed.

Lemma scanned_le cbs : scanned cbs <= length cbs.
Proof. induction cbs as [|c r IH]; cbn; [lia|]. destruct (forbidden c || is_start c); cbn; lia. Qed.

Lemma app_prefix {A} (pre : list A) : forall p x post c q,
  pre ++ x :: post = p ++ c :: q -> length pre <= length p -> exists tail, p = pre ++ tail.
Proof.
  induction pre as [|y pre IH]; intros p x post c q E Hl.
  - exists p. reflexivity.
  - destruct p as [|z p]; [cbn in Hl; lia|]. cbn in E. injection E as -> E.
    cbn in Hl. destruct (IH p x post c q E) as [tail ->]; [lia|]. exists tail. reflexivity.
Qed.

Lemma scanned_refusal p c q :
  forbidden c = true -> no_start p = true -> forallb (fun x => negb (forbidden x)) p = true ->
  scanned (p ++ c :: q) = S (length p).
Proof.
  intros Hf Hn Ha. induction p as [|x p IH]; cbn.
  - now rewrite Hf.
  - cbn in Hn, Ha. apply andb_prop in Hn as [H1 H2]. apply andb_prop in Ha as [H3 H4].
    apply negb_true_iff in H1, H3. rewrite H1, H3. cbn. f_equal. now apply IH.
Qed.

(* nothing at or after an entity use is reached by a refusing pre-scan: the refusal precedes expansion *)
Theorem before_expansion cbs pre post :
  wellformed cbs -> prescan cbs = Forbidden -> cbs = pre ++ EntityUse :: post -> scanned cbs <= length pre.
Proof.
  intros W Hp E. apply prescan_iff in Hp as (p & c & q & E2 & Hf & Hn & Ha).
  rewrite E2, (scanned_refusal p c q Hf Hn Ha).
  destruct (W pre EntityUse post E) as [_ Hu]. specialize (Hu eq_refl).
  destruct (Nat.le_gt_cases (length pre) (length p)) as [Hle|Hgt]; [exfalso | lia].
  rewrite E in E2. destruct (app_prefix pre p EntityUse post c q E2 Hle) as [tail ->].
  unfold no_start in Hn, Hu. rewrite forallb_app in Hn. apply andb_prop in Hn as [Hn _]. congruence.
Qed.

Theorem clean_unchanged cbs : prescan cbs = Clean -> parse_after cbs = Some cbs.
Proof. unfold parse_after. now intros ->. Qed.

Theorem refused_no_parse cbs : prescan cbs = Forbidden -> parse_after cbs = None.
Proof. unfold parse_after. now intros ->. Qed.

Theorem is_defused_table :
  (forall l, is_defused DAlways l = true) /\ (forall l, is_defused DNever l = false) /\
  (forall l, is_defused DRemote l = true <-> l = RemoteBase) /\
  (forall l, is_defused DNonlocal l = true <-> l <> LocalBase).
Proof.
  repeat split; try (intro l; destruct l; cbn; try reflexivity; try discriminate; try congruence; auto);
    try (intro H; discriminate).
  all: try (destruct l; cbn; congruence).
Qed.

(* a boolean well-formedness checker, sound for [wellformed] *)
Fixpoint wfb (seen_start : bool) (cbs : list cb) : bool :=
  match cbs with
  | [] => true
  | c :: r => (if forbidden c then negb seen_start else true)
              && (match c with EntityUse => seen_start | _ => true end)
              && wfb (seen_start || is_start c) r
  end.

Lemma wfb_sound_gen cbs : forall seen, wfb seen cbs = true ->
  forall pre c post, cbs = pre ++ c :: post ->
    (forbidden c = true -> seen = false /\ no_start pre = true) /\
    (c = EntityUse -> seen = true \/ no_start pre = false).
Proof.
  induction cbs as [|x r IH]; intros seen H pre c post E; [destruct pre; discriminate|].
  cbn [wfb] in H. apply andb_prop in H as [H H3]. apply andb_prop in H as [H1 H2].
  destruct pre as [|y pre]; cbn in E; injection E as E1 E2; subst.
  - split.
    + intro Hf. rewrite Hf in H1. apply negb_true_iff in H1. auto.
    + intros ->. left. exact H2.
  - destruct (IH _ H3 pre c post eq_refl) as [G1 G2]. split.
    + intro Hf. destruct (G1 Hf) as [Hs Hn]. apply orb_false_iff in Hs as [Hs1 Hs2].
      split; [exact Hs1|]. unfold no_start in *. cbn [forallb]. now rewrite Hs2, Hn.
    + intro Hc. destruct (G2 Hc) as [Hs|Hn].
      * apply orb_prop in Hs as [Hs|Hs]; [now left|]. right. unfold no_start. cbn [forallb]. now rewrite Hs.
      * right. unfold no_start in *. cbn [forallb]. rewrite Hn. apply andb_false_r.
Qed.

Theorem wfb_sound cbs : wfb false cbs = true -> wellformed cbs.
Proof.
  intros H pre c post E. destruct (wfb_sound_gen cbs false H pre c post E) as [G1 G2]. split.
  - intro Hf. now destruct (G1 Hf).
  - intro Hc. destruct (G2 Hc) as [Hs|Hn]; [discriminate | exact Hn].
Qed.

From XV Require Import Base Tree SchemaPath.

Theorem find_governs : forall a d t k,
  governing d t a = Some k -> find_schema d (names_along t a) = Some k.
Proof.
  induction a as [|i r IH]; intros d t k H; cbn [governing names_along find_schema] in *; [exact H|].
  destruct t as [g ks]. destruct (nth_error ks i) as [c|]; [|discriminate].
  cbn [find_schema]. destruct (find_child d (tag_of c)) as [k'|]; [|discriminate].
  now apply IH.
Qed.

(* decoding the part at address a = the part of the full decoding, with the governing declaration *)
Theorem partial_decode : forall a d t s,
  subtree t a = Some s ->
  subdata (decode d t) a =
  Some (decode (match d with Some dd => governing dd t a | None => None end) s).
Proof.
  induction a as [|i r IH]; intros d t s Hs.
  - cbn in Hs. injection Hs as ->. cbn. destruct d; reflexivity.
  - destruct t as [g ks]. cbn [subtree kids_of] in Hs.
    destruct (nth_error ks i) as [c|] eqn:Hn; [|discriminate].
    cbn [decode subdata]. rewrite nth_error_map, Hn. cbn [option_map].
    rewrite (IH _ c s Hs). f_equal. f_equal.
    destruct d as [dd|]; [|reflexivity]. cbn [governing]. rewrite Hn.
    destruct (find_child dd (tag_of c)); reflexivity.
Qed.

Lemma map_ext_in' {A B} (f g : A -> B) l : (forall x, In x l -> f x = g x) -> map f l = map g l.
Proof. apply map_ext_in. Qed.

(* cutting at depth k commutes with decoding *)
Theorem depth_cut : forall k t d, truncate k (decode d t) = decode_depth k d t.
Proof.
  induction k as [|k IH]; intros [g ks] d; cbn [decode truncate decode_depth]; [reflexivity|].
  f_equal. rewrite map_map. apply map_ext. intro c. apply IH.
Qed.

(* what is above the cut does not change: the truncated decodings of depth k and of the whole agree *)
Corollary depth_cut_stable k t d : truncate k (decode_depth (S k) d t) = truncate k (decode d t).
Proof.
  rewrite <- depth_cut. revert t d. induction k as [|k IH]; intros [g ks] d; cbn; [reflexivity|].
  f_equal. rewrite !map_map. apply map_ext. intro c.
  specialize (IH c (match d with Some dd => find_child dd (tag_of c) | None => None end)).
  destruct (decode (match d with Some dd => find_child dd (tag_of c) | None => None end) c) as [g' ty' ks'] eqn:E.
  cbn in *. exact IH.
Qed.

(* the assignment a validator may make: any child declaration whose name is the child's tag *)
Inductive governs_rel : sdecl -> tree -> addr -> sdecl -> Prop :=
| GR_here d t : governs_rel d t [] d
| GR_step d g ks i c k' r k :
    nth_error ks i = Some c -> In k' (d_kids d) -> d_name k' = tag_of c ->
    governs_rel k' c r k -> governs_rel d (Node g ks) (i :: r) k.

(* Element Declarations Consistent, structurally: sibling declarations have distinct names *)
Fixpoint edc (fuel : nat) (d : sdecl) : Prop :=
  match fuel with
  | 0 => True
  | S f => NoDup (map d_name (d_kids d)) /\ Forall (edc f) (d_kids d)
  end.

Lemma find_unique (ks : list sdecl) k n :
  NoDup (map d_name ks) -> In k ks -> d_name k = n -> find (fun x => N.eqb (d_name x) n) ks = Some k.
Proof.
  induction ks as [|x r IH]; intros Hnd Hin Hn; [destruct Hin|].
  cbn [map] in Hnd. inversion Hnd as [|? ? Hx Hr]; subst. cbn [find].
  destruct Hin as [->|Hin].
  - now rewrite N.eqb_refl.
  - destruct (N.eqb_spec (d_name x) (d_name k)) as [E|_]; [|now apply IH].
    exfalso. apply Hx. rewrite E. now apply in_map.
Qed.

Theorem find_governs_rel : forall a d t k fuel,
  length a <= fuel -> edc fuel d -> governs_rel d t a k -> find_schema d (names_along t a) = Some k.
Proof.
  induction a as [|i r IH]; intros d t k fuel Hf He H.
  - inversion H; subst. reflexivity.
  - inversion H as [|d0 g ks i0 c k' r0 k0 Hn Hin Hname Hrest]; subst.
    destruct fuel as [|f]; [cbn in Hf; lia|]. destruct He as [Hnd Hall].
    cbn [names_along]. rewrite Hn. cbn [find_schema]. unfold find_child.
    rewrite (find_unique _ k' (tag_of c) Hnd Hin Hname).
    apply (IH k' c k f); [cbn in Hf; lia | | exact Hrest].
    rewrite Forall_forall in Hall. now apply Hall.
Qed.

(* ---- wildcard steps ---- *)
Theorem selected_is_full : forall a d t s k,
  subtree t a = Some s -> governing d t a = Some k ->
  decode_selected d t a = subdata (decode (Some d) t) a.
Proof.
  intros a d t s k Hs Hg. unfold decode_selected. rewrite Hs. cbn [option_map].
  rewrite (partial_decode a (Some d) t s Hs), Hg. now rewrite (find_governs a d t k Hg).
Qed.

(* root(a(item : 11), b(item : 12)) and the document root(a(item), b(item)): /root/*/item selects both items, the first
   declaration found on the schema is a/item *)
Theorem first_match_refuted :
  exists d t p a,
    matches_path t a p = true /\
    decode_selected d t a = subdata (decode (Some d) t) a /\
    decode_selected_first d t p a <> subdata (decode (Some d) t) a.
Proof.
  exists (SDecl 1 0 [SDecl 2 0 [SDecl 5 11 []]; SDecl 3 0 [SDecl 5 12 []]]),
         (Node 1 [Node 2 [Node 5 []]; Node 3 [Node 5 []]]), [PAny; PName 5%N], [1; 0].
  repeat split; try reflexivity. cbv. discriminate.
Qed.

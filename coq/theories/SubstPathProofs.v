From XV Require Import Base SchemaPath SubstPath.

Lemma find_child_name d n k : find_child d n = Some k -> d_name k = n.
Proof.
  unfold find_child. intro H. apply find_some in H as [_ H]. apply N.eqb_eq in H. exact H.
Qed.

Lemma step_agrees s parent n : wf_smap s ->
  match xpath_child s parent n with Some found => own_decl s found n | None => None end = gov_child s parent n.
Proof.
  intro Hwf. unfold xpath_child, gov_child, own_decl.
  destruct (find_child parent n) as [k|] eqn:Ek.
  - rewrite (find_child_name _ _ _ Ek), N.eqb_refl. reflexivity.
  - destruct (slookup s n) as [[h own]|] eqn:Es; [|reflexivity].
    destruct (find_child parent h) as [kh|] eqn:Eh; [|reflexivity].
    destruct (Hwf _ _ _ Es) as [_ Hne].
    rewrite (find_child_name _ _ _ Eh).
    destruct (N.eqb_spec h n) as [E|_]; [congruence | reflexivity].
Qed.

Lemma governing_path_app s names1 : forall d names2,
  governing_path s d (names1 ++ names2) =
  match governing_path s d names1 with Some p => governing_path s p names2 | None => None end.
Proof.
  induction names1 as [|n r IH]; intros d names2; cbn [app governing_path]; [reflexivity|].
  destruct (gov_child s d n); [apply IH | reflexivity].
Qed.

Theorem get_parent_is_governing s d names : wf_smap s -> get_parent s d names = governing_path s d names.
Proof.
  intro Hwf. unfold get_parent. rewrite <- (rev_involutive names) at 2.
  generalize (List.rev names) as rn. clear names.
  induction rn as [|n fr IH]; [reflexivity|].
  cbn [get_parent_rev List.rev]. rewrite governing_path_app, <- IH.
  destruct (get_parent_rev s d fr) as [parent|]; [|reflexivity].
  cbn [governing_path]. rewrite step_agrees by exact Hwf.
  destruct (gov_child s parent n); reflexivity.
Qed.

(* names: 1 root, 2 head, 3 member, 4 v, 5 extra; types 10.. *)
Definition v_str := SDecl 4 13 [].
Definition v_int := SDecl 4 11 [].
Definition extra := SDecl 5 11 [].
Definition head := SDecl 2 20 [v_str].
Definition root := SDecl 1 20 [head].

(* before the repair: a child that only the member's (extension) type declares is not found *)
Theorem get_old_refuted : exists s d names g,
  wf_smap s /\ governing_path s d names = Some g /\ get_old s d names = None.
Proof.
  exists [(3%N, (2%N, SDecl 3 21 [v_str; extra]))], root, [3; 5]%N, extra.
  split; [|split; vm_compute; reflexivity].
  intros m h own. cbn [slookup]. destruct (N.eqb_spec m 3) as [->|]; [|discriminate].
  intro H; injection H as <- <-. split; [reflexivity | discriminate].
Qed.

(* the fallback alone is not enough: when the member's type re-declares a child of the head's type, the plain lookup
   succeeds with the head's child *)
Theorem fallback_only_refuted : exists s d names g,
  wf_smap s /\ governing_path s d names = Some g /\ get_new s d names <> Some g.
Proof.
  exists [(3%N, (2%N, SDecl 3 21 [v_int]))], root, [3; 4]%N, v_int.
  split; [|split; [vm_compute; reflexivity | vm_compute; discriminate]].
  intros m h own. cbn [slookup]. destruct (N.eqb_spec m 3) as [->|]; [|discriminate].
  intro H; injection H as <- <-. split; [reflexivity | discriminate].
Qed.

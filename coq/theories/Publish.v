(* Publication of lazily built shared entries (xmlschema/validators/identities.py XsdIdentity.update_elements: the field
   selectors of an element bound to an identity constraint on the first use of an xsi:type, shared by every thread that
   validates with the schema).  The shared table maps an element to its list of selectors.  Any interleaving of the
   threads is a list of atomic steps.

     Pub e        : the code as it is: the complete list is built first and stored by ONE assignment
                    (`self.elements[e] = [FieldValueSelector(f, e) for f in self.fields]`), only when e is absent;
     Begin e /
     Add e x      : the two-phase variant (seeded as C18-L): an empty list is stored first, the selectors are appended
                    one by one afterwards.

   A reader that finds e in the table uses the list it finds. *)
From XV Require Import Base.

Definition table := list (N * list N).

Fixpoint tget (t : table) (e : N) : option (list N) :=
  match t with
  | [] => None
  | (e', l) :: r => if N.eqb e e' then Some l else tget r e
  end.

Fixpoint tset (t : table) (e : N) (l : list N) : table :=
  match t with
  | [] => [(e, l)]
  | (e', l') :: r => if N.eqb e e' then (e', l) :: r else (e', l') :: tset r e l
  end.

Section Publish.
  Variable full : N -> list N.        (* the selectors of an element: a function of the element and the constraint *)

  Inductive op := Pub (e : N) | Begin (e : N) | Add (e x : N).

  Definition step (t : table) (o : op) : table :=
    match o with
    | Pub e => match tget t e with Some _ => t | None => tset t e (full e) end
    | Begin e => match tget t e with Some _ => t | None => tset t e [] end
    | Add e x => match tget t e with Some l => tset t e (l ++ [x]) | None => t end
    end.

  Definition atomic (o : op) : bool := match o with Pub _ => true | _ => false end.

  (* what a reader relies on: an entry that is present is complete *)
  Definition Complete (t : table) : Prop := forall e l, tget t e = Some l -> l = full e.
End Publish.

From XV Require Import Base Staged StagedProofs Redefine.
From Coq Require Import Permutation.

Section Proofs.
Variable payload : Type.
Variable mk : N -> list payload -> payload.
Variable mkr : N -> payload -> list payload -> payload.
Notation evalr := (evalr payload mk mkr).

Lemma staged_perm base base' n : NoDup (map d_name base) -> Permutation base base' -> staged base n = staged base' n.
Proof. intros Hnd Hp. unfold staged. now rewrite (lookup_perm base base' n Hnd Hp). Qed.

Lemma load_redefs_perm base base' : NoDup (map d_name base) -> Permutation base base' ->
  forall rs l, load_redefs base rs l = load_redefs base' rs l.
Proof.
  intros Hnd Hp. induction rs as [|r rest IH]; intro l; cbn [load_redefs]; [reflexivity|].
  rewrite (staged_perm base base' _ Hnd Hp). destruct (staged base' (d_name r)); [apply IH | reflexivity].
Qed.

Theorem evalr_perm base base' l : NoDup (map d_name base) -> Permutation base base' ->
  forall f n, evalr f base l n = evalr f base' l n.
Proof.
  intros Hnd Hp. induction f as [|f IH]; intro n; [reflexivity|]. cbn [Redefine.evalr].
  rewrite (lookup_perm base base' n Hnd Hp). destruct (lookup_decl base' n) as [d|]; [|reflexivity].
  rewrite (map_ext _ _ IH).
  destruct (all_some (map (evalr f base' l) (d_deps d))); [|reflexivity].
  assert (E : map (fun deps => all_some (map (evalr f base l) deps)) (lget l n) =
              map (fun deps => all_some (map (evalr f base' l) deps)) (lget l n)).
  { apply map_ext. intro deps. now rewrite (map_ext _ _ IH). }
  now rewrite E.
Qed.

(* two document trees with the same declarations (in any order, split in any way) and the same redefinitions
   assemble to schemas with the same components *)
Theorem assemble_arrangement d d' rs :
  NoDup (map d_name (closure d)) -> Permutation (closure d) (closure d') ->
  match assemble d rs, assemble d' rs with
  | Some (b, l), Some (b', l') => l = l' /\ forall f n, evalr f b l n = evalr f b' l' n
  | None, None => True
  | _, _ => False
  end.
Proof.
  intros Hnd Hp. unfold assemble. rewrite (load_redefs_perm _ _ Hnd Hp rs []).
  destruct (load_redefs (closure d') rs []) as [l|]; [|exact I].
  split; [reflexivity|]. intros f n. now apply evalr_perm.
Qed.

(* splitting the declarations of the redefined document into an included document keeps the closure *)
Lemma closure_split a b incs :
  Permutation (closure (Doc (a ++ b) incs)) (closure (Doc a (Doc b [] :: incs))).
Proof.
  cbn [closure]. rewrite app_nil_r. rewrite <- app_assoc. apply Permutation_refl.
Qed.

Theorem split_invariance a b incs rs : NoDup (map d_name (closure (Doc (a ++ b) incs))) ->
  match assemble (Doc (a ++ b) incs) rs, assemble (Doc a (Doc b [] :: incs)) rs with
  | Some (bs, l), Some (bs', l') => l = l' /\ forall f n, evalr f bs l n = evalr f bs' l' n
  | None, None => True
  | _, _ => False
  end.
Proof. intro Hnd. apply assemble_arrangement; [exact Hnd | apply closure_split]. Qed.

(* without redefinitions the layered build is the plain staged build *)
Theorem evalr_no_redefs base : forall f n, evalr f base [] n = eval payload mk f base n.
Proof.
  induction f as [|f IH]; intro n; [reflexivity|]. cbn [Redefine.evalr Staged.eval lget map all_some stack].
  destruct (lookup_decl base n) as [d|]; [|reflexivity].
  rewrite (map_ext _ _ IH). destruct (all_some (map (eval payload mk f base) (d_deps d))); reflexivity.
Qed.
End Proofs.

(* the variant that requires the redefined component in the redefined document itself depends on the split *)
Theorem assemble_own_refuted :
  exists a b rs,
    assemble (Doc (a ++ b) []) rs <> None /\ assemble_own (Doc (a ++ b) []) rs <> None /\
    assemble (Doc a [Doc b []]) rs <> None /\ assemble_own (Doc a [Doc b []]) rs = None.
Proof.
  exists [{| d_name := 1; d_deps := [] |}], [{| d_name := 2; d_deps := [] |}], [{| d_name := 2; d_deps := [1%N] |}].
  repeat split; cbv; discriminate.
Qed.

From XV Require Import Base.
From XV Require Import Publish.

Lemma tget_tset t e l e' : tget (tset t e l) e' = if N.eqb e' e then Some l else tget t e'.
Proof.
  induction t as [|[e0 l0] r IH]; cbn [tset tget].
  - destruct (N.eqb e' e); reflexivity.
  - destruct (N.eqb_spec e e0) as [->|Hne]; cbn [tget].
    + destruct (N.eqb_spec e' e0); reflexivity.
    + rewrite IH. destruct (N.eqb_spec e' e0) as [->|]; [|reflexivity].
      destruct (N.eqb_spec e0 e); [congruence | reflexivity].
Qed.

Section Proofs.
  Variable full : N -> list N.

  Lemma pub_complete t e : Complete full t -> Complete full (step full t (Pub e)).
  Proof.
    intros H. cbn [step]. destruct (tget t e) eqn:E; [exact H|].
    intros e' l. rewrite tget_tset. destruct (N.eqb_spec e' e) as [->|]; [|apply H].
    intro Hl; injection Hl as <-. reflexivity.
  Qed.

  (* every state reachable by any interleaving of atomic publications keeps the entries complete *)
  Theorem atomic_publication_complete ops : forall t,
    forallb atomic ops = true -> Complete full t -> Complete full (fold_left (step full) ops t).
  Proof.
    induction ops as [|o r IH]; intros t Ha Hc; cbn [fold_left]; [exact Hc|].
    cbn [forallb] in Ha. apply andb_true_iff in Ha as [Ho Hr].
    apply IH; [exact Hr|]. destruct o; try discriminate. apply pub_complete. exact Hc.
  Qed.

  Theorem empty_complete : Complete full [].
  Proof. intros e l H. discriminate. Qed.
End Proofs.

(* the two-phase variant: between Begin and the last Add a reader finds an incomplete entry *)
Theorem two_phase_refuted : exists (full : N -> list N) ops,
  ~ Complete full (fold_left (step full) ops []).
Proof.
  exists (fun _ => [1; 2]%N), [Begin 7%N; Add 7%N 1%N].
  intro H. specialize (H 7%N [1%N] eq_refl). discriminate.
Qed.

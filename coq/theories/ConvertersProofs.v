From XV Require Import Base Converters.
From Coq Require Import Permutation.

(* ---------------------------------------------------------------- JsonML round trip *)
Section XmlInd.
Variable P : xml -> Prop.
Hypothesis HS : forall t a v, P (Simple t a v).
Hypothesis HC : forall t a cs, Forall P cs -> P (Complex t a cs).
Hypothesis HT : forall s, P (Txt s).
Fixpoint xml_ind' (x : xml) : P x :=
  match x with
  | Simple t a v => HS t a v
  | Complex t a cs =>
      HC t a cs ((fix go (l : list xml) : Forall P l :=
                    match l with
                    | [] => Forall_nil _
                    | c :: r => Forall_cons c (xml_ind' c) (go r)
                    end) cs)
  | Txt s => HT s
  end.
End XmlInd.

Lemma enc_arr_obj kind t a items :
  jml_encode kind (JArr (JStr t :: JObj a :: items)) = finish kind t a items (opt_all (map (jml_encode kind) items)).
Proof. reflexivity. Qed.

Lemma enc_arr_noobj kind t items :
  match items with JObj _ :: _ => False | _ => True end ->
  jml_encode kind (JArr (JStr t :: items)) = finish kind t [] items (opt_all (map (jml_encode kind) items)).
Proof. destruct items as [|[s|a|l] r]; intro H; try reflexivity; destruct H. Qed.

Lemma dec_not_obj c : match jml_decode c with JObj _ => False | _ => True end.
Proof. destruct c; exact I. Qed.

Lemma enc_children kind cs :
  Forall (fun c => wf kind c = true -> jml_encode kind (jml_decode c) = Some c) cs ->
  forallb (wf kind) cs = true ->
  opt_all (map (jml_encode kind) (map jml_decode cs)) = Some cs.
Proof.
  induction 1 as [|c r Hc Hr IH]; intro Hw; [reflexivity|].
  cbn [forallb] in Hw. apply andb_true_iff in Hw as [Hw1 Hw2].
  cbn [map opt_all]. now rewrite (Hc Hw1), (IH Hw2).
Qed.

Theorem jsonml_roundtrip kind : forall x, wf kind x = true -> jml_encode kind (jml_decode x) = Some x.
Proof.
  induction x as [t a v|t a cs IH|s] using xml_ind'; intro Hw.
  - cbn [wf] in Hw. destruct a as [|p a]; destruct v as [s|]; cbn [jml_decode jobj app];
      [rewrite enc_arr_noobj by exact I | rewrite enc_arr_noobj by exact I | rewrite enc_arr_obj | rewrite enc_arr_obj];
      unfold finish; now rewrite Hw.
  - cbn [wf] in Hw. apply andb_true_iff in Hw as [Hk Hw]. apply negb_true_iff in Hk.
    pose proof (enc_children kind cs IH Hw) as He.
    destruct a as [|p a]; cbn [jml_decode jobj app].
    + rewrite enc_arr_noobj.
      * unfold finish. now rewrite Hk, He.
      * destruct cs as [|c r]; [exact I|]. cbn [map]. apply dec_not_obj.
    + rewrite enc_arr_obj. unfold finish. now rewrite Hk, He.
  - reflexivity.
Qed.

Corollary jsonml_injective kind x y : wf kind x = true -> wf kind y = true -> jml_decode x = jml_decode y -> x = y.
Proof.
  intros Hx Hy E. pose proof (jsonml_roundtrip kind x Hx) as E1. rewrite E, (jsonml_roundtrip kind y Hy) in E1.
  now injection E1.
Qed.

(* ---------------------------------------------------------------- grouping *)
Section GroupProofs.
Variable V : Type.
Notation add := (add V).
Notation addp := (addp V).
Notation group := (group V).
Notation ungroup := (ungroup V).
Notation contiguous := (contiguous V).
Definition keys (g : list (N * list V)) : list N := map fst g.
Definition good (g : list (N * list V)) : Prop := NoDup (keys g) /\ Forall (fun kvs => snd kvs <> []) g.

Lemma add_notin k v g : ~ In k (keys g) -> add k v g = g ++ [(k, [v])].
Proof.
  induction g as [|[k' vs] r IH]; intro H; [reflexivity|]. cbn [Converters.add app].
  destruct (N.eqb_spec k' k) as [->|Hne]; [exfalso; apply H; now left|].
  rewrite IH; [reflexivity|]. intro Hi. apply H. now right.
Qed.

Lemma add_last k v vs g1 : ~ In k (keys g1) -> add k v (g1 ++ [(k, vs)]) = g1 ++ [(k, vs ++ [v])].
Proof.
  induction g1 as [|[k' vs'] r IH]; intro H; cbn [Converters.add app].
  - now rewrite N.eqb_refl.
  - destruct (N.eqb_spec k' k) as [->|Hne]; [exfalso; apply H; now left|].
    rewrite IH; [reflexivity|]. intro Hi. apply H. now right.
Qed.

Lemma add_block k g1 : ~ In k (keys g1) -> forall vs vs0,
  fold_left addp (map (fun v => (k, v)) vs) (g1 ++ [(k, vs0)]) = g1 ++ [(k, vs0 ++ vs)].
Proof.
  intro H. induction vs as [|v r IH]; intro vs0; cbn [map fold_left]; [now rewrite app_nil_r|].
  unfold Converters.addp at 2. cbn [fst snd]. rewrite add_last by exact H. rewrite IH. now rewrite <- app_assoc.
Qed.

Lemma keys_app g1 g2 : keys (g1 ++ g2) = keys g1 ++ keys g2.
Proof. unfold keys. apply map_app. Qed.

Lemma fold_ungroup : forall g2 g1, NoDup (keys (g1 ++ g2)) -> Forall (fun kvs => snd kvs <> []) g2 ->
  fold_left addp (ungroup g2) g1 = g1 ++ g2.
Proof.
  induction g2 as [|[k vs] r IH]; intros g1 Hnd Hne; [now rewrite app_nil_r|].
  inversion Hne as [|? ? Hvs Hr]; subst. cbn [snd] in Hvs. destruct vs as [|v vs]; [congruence|].
  assert (Hk : ~ In k (keys g1)).
  { rewrite keys_app in Hnd. cbn [keys map fst] in Hnd. apply NoDup_remove_2 in Hnd. intro Hi. apply Hnd, in_or_app. now left. }
  unfold Converters.ungroup. cbn [flat_map fst snd map]. rewrite <- app_comm_cons. cbn [fold_left].
  rewrite fold_left_app. unfold Converters.addp at 3. cbn [fst snd]. rewrite (add_notin k v g1 Hk).
  rewrite (add_block k g1 Hk vs [v]). cbn [app].
  change (flat_map _ r) with (ungroup r). rewrite IH.
  - now rewrite <- app_assoc.
  - now rewrite <- app_assoc.
  - exact Hr.
Qed.

Lemma group_ungroup_blocks g : good g -> group (ungroup g) = g.
Proof. intros [Hnd Hne]. unfold Converters.group. now rewrite (fold_ungroup g [] Hnd Hne). Qed.

Lemma keys_ungroup g k : In k (map fst (ungroup g)) -> In k (keys g).
Proof.
  induction g as [|[k' vs] r IH]; [auto|]. unfold Converters.ungroup. cbn [flat_map fst snd]. rewrite map_app, in_app_iff.
  intros [H|H].
  - rewrite map_map in H. cbn [fst] in H. apply in_map_iff in H as [x [<- _]]. now left.
  - right. now apply IH.
Qed.

Lemma ungroup_keys g k : Forall (fun kvs => snd kvs <> []) g -> In k (keys g) -> In k (map fst (ungroup g)).
Proof.
  induction 1 as [|[k' vs] r Hvs Hr IH]; [auto|]. unfold Converters.ungroup. cbn [flat_map fst snd keys map]. rewrite map_app, in_app_iff.
  intros [->|H].
  - left. cbn [snd] in Hvs. destruct vs as [|v vs]; [congruence|]. now left.
  - right. now apply IH.
Qed.

(* decomposition of a contiguous list into blocks *)
Lemma blocks_of_contiguous : forall l, contiguous l = true -> exists g, good g /\ ungroup g = l.
Proof.
  induction l as [|[k v] r IH]; intro Hc.
  - exists []. repeat split; constructor.
  - cbn [Converters.contiguous] in Hc. apply andb_true_iff in Hc as [Hh Hr]. destruct (IH Hr) as [g [[Hnd Hne] Hg]].
    destruct r as [|[k' v'] r'].
    + exists [(k, [v])]. assert (g = []) as ->.
      { destruct g as [|[k0 [|v0 vs0]] g']; [reflexivity| |discriminate].
        inversion Hne as [|? ? Hx]; subst. now cbn in Hx. }
      repeat split; [constructor; [intros []|constructor] | constructor; [cbn; congruence | constructor]].
    + destruct (N.eqb_spec k k') as [<-|Hkk].
      * (* the block of k continues *)
        destruct g as [|[k0 vs0] g']; [discriminate|].
        inversion Hne as [|? ? Hvs0 Hne']; subst. cbn [snd] in Hvs0. destruct vs0 as [|v0 vs0]; [congruence|].
        unfold Converters.ungroup in Hg. cbn [flat_map fst snd map] in Hg. rewrite <- app_comm_cons in Hg. injection Hg as Hk0 Hv0 Hrest.
        subst k0. exists ((k, v :: v0 :: vs0) :: g'). split; [split|].
        -- exact Hnd.
        -- constructor; [cbn; congruence | exact Hne'].
        -- unfold Converters.ungroup. cbn [flat_map fst snd map]. rewrite <- !app_comm_cons. now rewrite Hv0, Hrest.
      * cbn [orb] in Hh. apply negb_true_iff in Hh.
        exists ((k, [v]) :: g). split; [split|].
        -- cbn [keys map fst]. constructor; [|exact Hnd]. intro Hi.
           assert (Hm : memb k (map fst ((k', v') :: r')) = true).
           { apply memb_In. rewrite <- Hg. now apply ungroup_keys. }
           congruence.
        -- constructor; [cbn; congruence | exact Hne].
        -- unfold Converters.ungroup. cbn [flat_map fst snd map app]. f_equal. exact Hg.
Qed.

Theorem contiguous_roundtrip l : contiguous l = true -> ungroup (group l) = l.
Proof.
  intro Hc. destruct (blocks_of_contiguous l Hc) as [g [Hg <-]]. now rewrite group_ungroup_blocks.
Qed.

(* converse: the flattening of a dictionary is always contiguous *)
Lemma keys_add k v g : keys (add k v g) = if memb k (keys g) then keys g else keys g ++ [k].
Proof.
  induction g as [|[k' vs] r IH]; [reflexivity|]. cbn [Converters.add keys map fst memb].
  rewrite (N.eqb_sym k k'). destruct (N.eqb_spec k' k) as [->|Hne]; [reflexivity|].
  cbn [map fst]. fold (keys (add k v r)). rewrite IH. fold (keys r). now destruct (memb k (keys r)).
Qed.

Lemma nodup_add k v g : NoDup (keys g) -> NoDup (keys (add k v g)).
Proof.
  intro H. rewrite keys_add. destruct (memb k (keys g)) eqn:E; [exact H|].
  apply (Permutation_NoDup (Permutation_cons_append (keys g) k)). constructor; [|exact H].
  intro Hi. apply memb_In in Hi. congruence.
Qed.

Lemma nodup_group l : NoDup (keys (group l)).
Proof.
  unfold Converters.group. assert (H : NoDup (keys [])) by constructor. revert H. generalize (@nil (N * list V)).
  induction l as [|[k v] r IH]; intros g H; [exact H|]. cbn [fold_left]. apply IH. now apply nodup_add.
Qed.

Lemma contiguous_block k vs rest : ~ In k (map fst rest) -> contiguous rest = true ->
  contiguous (map (fun v => (k, v)) vs ++ rest) = true.
Proof.
  intros Hk Hr. induction vs as [|v r IH]; [exact Hr|]. cbn [map app Converters.contiguous]. rewrite IH, andb_true_r.
  destruct r as [|v' r']; cbn [map app].
  - destruct rest as [|[k' x] rest']; [reflexivity|]. apply orb_true_iff. right. apply negb_true_iff.
    destruct (memb k (map fst ((k', x) :: rest'))) eqn:E; [|reflexivity]. apply memb_In in E. contradiction.
  - now rewrite N.eqb_refl.
Qed.

Lemma contiguous_ungroup g : NoDup (keys g) -> contiguous (ungroup g) = true.
Proof.
  induction g as [|[k vs] r IH]; intro H; [reflexivity|]. cbn [keys map fst] in H. inversion H as [|? ? Hk Hr]; subst.
  unfold Converters.ungroup. cbn [flat_map fst snd]. apply contiguous_block; [|now apply IH].
  intro Hi. apply Hk. now apply keys_ungroup.
Qed.

Theorem roundtrip_contiguous l : ungroup (group l) = l -> contiguous l = true.
Proof. intro E. rewrite <- E. apply contiguous_ungroup, nodup_group. Qed.

Theorem group_roundtrip_iff l : ungroup (group l) = l <-> contiguous l = true.
Proof. split; [apply roundtrip_contiguous | apply contiguous_roundtrip]. Qed.
End GroupProofs.

(* ---------------------------------------------------------------- key decoration *)
Lemma leqb_eq a : forall b, leqb a b = true <-> a = b.
Proof.
  induction a as [|x a IH]; destruct b as [|y b]; cbn; try (split; [discriminate | congruence]); [tauto|].
  rewrite andb_true_iff, N.eqb_eq, IH. split; [intros [-> ->]; reflexivity | intro H; injection H; auto].
Qed.

Lemma starts_app p n : starts p (p ++ n) = true.
Proof. induction p as [|x p IH]; [reflexivity|]. cbn. now rewrite N.eqb_refl. Qed.

Theorem decorate_inj prefix textkey s1 s2 :
  prefix <> [] -> starts prefix textkey = false ->
  slot_ok prefix textkey s1 = true -> slot_ok prefix textkey s2 = true ->
  decorate prefix textkey s1 = decorate prefix textkey s2 -> s1 = s2.
Proof.
  intros Hp Ht H1 H2 E.
  destruct s1 as [n1|n1|], s2 as [n2|n2|]; cbn [decorate slot_ok] in *; try reflexivity.
  - apply app_inv_head in E. now subst.
  - apply andb_true_iff in H2 as [H2 _]. rewrite <- E, starts_app in H2. discriminate.
  - rewrite <- E, starts_app in Ht. discriminate.
  - apply andb_true_iff in H1 as [H1 _]. rewrite E, starts_app in H1. discriminate.
  - now subst.
  - apply andb_true_iff in H1 as [_ H1]. apply negb_true_iff in H1. subst n1.
    assert (leqb textkey textkey = true) by now apply leqb_eq. congruence.
  - rewrite E, starts_app in Ht. discriminate.
  - apply andb_true_iff in H2 as [_ H2]. apply negb_true_iff in H2. subst n2.
    assert (leqb textkey textkey = true) by now apply leqb_eq. congruence.
Qed.

(* ---------------------------------------------------------------- single values and lists *)
Section ItemsProofs.
Variable V : Type.
Variable single : N -> bool.
Variable force_list : bool.
Notation addi := (addi V single force_list).
Notation wrap := (wrap V single force_list).
Notation decode_children := (decode_children V single force_list).
Notation encode_children := (encode_children V).

Lemma fst_wrap kvs : fst (wrap kvs) = fst kvs.
Proof.
  destruct kvs as [k vs]. unfold Converters.wrap. cbn [fst snd].
  destruct vs as [|v0 [|v1 vs']]; reflexivity.
Qed.

Lemma snd_wrap_app k vs v : vs <> [] ->
  snd (wrap (k, vs ++ [v])) =
  match snd (wrap (k, vs)) with One v0 => Many [v0; v] | Many vs' => Many (vs' ++ [v]) end.
Proof.
  intro Hne. unfold Converters.wrap. cbn [fst snd].
  destruct vs as [|v0 [|v1 vs']]; [congruence| |reflexivity].
  cbn [app]. now destruct (single k && negb force_list).
Qed.

Lemma wrap_add k v : forall g, Forall (fun kvs => snd kvs <> []) g ->
  map wrap (add V k v g) = addi k v (map wrap g).
Proof.
  induction g as [|[k' vs] r IH]; intro Hne; [reflexivity|].
  inversion Hne as [|? ? Hvs Hr]; subst. cbn [snd] in Hvs. cbn [Converters.add map].
  pose proof (fst_wrap (k', vs)) as Hf. cbn [fst] in Hf.
  destruct (wrap (k', vs)) as [kw it] eqn:Ew. cbn [fst] in Hf. subst kw. cbn [Converters.addi].
  destruct (N.eqb_spec k' k) as [->|Hneq].
  - cbn [map]. f_equal. pose proof (snd_wrap_app k vs v Hvs) as Hs. rewrite Ew in Hs. cbn [snd] in Hs.
    pose proof (fst_wrap (k, vs ++ [v])) as Hf2. cbn [fst] in Hf2.
    destruct (wrap (k, vs ++ [v])) as [k2 it2]. cbn [fst snd] in *. now subst.
  - cbn [map]. rewrite Ew. now rewrite IH.
Qed.

Lemma add_nonempty k v g : Forall (fun kvs : N * list V => snd kvs <> []) g ->
  Forall (fun kvs : N * list V => snd kvs <> []) (add V k v g).
Proof.
  induction g as [|[k' vs] r IH]; intro H; cbn [Converters.add].
  - constructor; [cbn; congruence | constructor].
  - inversion H as [|? ? Hvs Hr]; subst. destruct (N.eqb k' k).
    + constructor; [cbn [snd] in *; destruct vs; cbn; congruence | exact Hr].
    + constructor; [exact Hvs | now apply IH].
Qed.

Lemma decode_is_wrapped_group : forall l g, Forall (fun kvs => snd kvs <> []) g ->
  fold_left (fun g kv => addi (fst kv) (snd kv) g) l (map wrap g) = map wrap (fold_left (addp V) l g).
Proof.
  induction l as [|[k v] r IH]; intros g Hg; [reflexivity|]. cbn [fold_left fst snd].
  unfold addp at 2. cbn [fst snd]. rewrite <- (wrap_add k v g Hg). apply IH. now apply add_nonempty.
Qed.

Lemma encode_wrap g : encode_children (map wrap g) = ungroup V g.
Proof.
  induction g as [|[k vs] r IH]; [reflexivity|]. unfold Converters.encode_children, Converters.ungroup in *.
  cbn [map flat_map fst snd]. rewrite IH. f_equal. unfold Converters.wrap. cbn [fst snd].
  destruct vs as [|v0 [|v1 vs']]; [reflexivity| |reflexivity].
  destruct (single k && negb force_list); reflexivity.
Qed.

Theorem children_roundtrip l : contiguous V l = true -> encode_children (decode_children l) = l.
Proof.
  intro Hc. unfold Converters.decode_children.
  change (@nil (N * item V)) with (map wrap (@nil (N * list V))).
  rewrite decode_is_wrapped_group by constructor. rewrite encode_wrap. now apply contiguous_roundtrip.
Qed.
End ItemsProofs.

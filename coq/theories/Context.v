(* Validation context copies (validators/validation.py ValidationContext.__copy__, elements.py raw_decode):
   an element that carries XSD 1.1 inheritable attributes, or for which a validation hook returns a mode, continues
   with a copy of the context.  After fix 8044325 the copy shares the error list (and the xs:ID map) with the original;
   before, the copy had a private list and what the subtree reported was lost to the caller. *)
From XV Require Import Base.

Inductive enode := ENode (pre : list N) (copy : bool) (post : list N) (kids : list enode).
(* pre: errors reported before the copy is made (attributes), post: errors of the element's own content model *)

Fixpoint all_errors (n : enode) : list N :=
  match n with ENode pre _ post kids => pre ++ flat_map all_errors kids ++ post end.

(* the traversal threads the error list; `share` = the copy aliases the list *)
Fixpoint run (share : bool) (n : enode) (sink : list N) : list N :=
  match n with
  | ENode pre copy post kids =>
      let sink1 := sink ++ pre in
      let inner := fold_left (fun s k => run share k s) kids sink1 ++ post in
      if copy && negb share then sink1 else inner
  end.

Definition lax_errors (share : bool) (n : enode) : list N := run share n [].
Definition ctx_is_valid (share : bool) (n : enode) : bool := isnil (lax_errors share n).
Definition ctx_strict_raises (n : enode) : bool := negb (isnil (all_errors n)).   (* strict mode raises at the first error *)

From XV Require Import Base Regex Particle.

Section Rep.
Variable r : rex.
Variable P : list N -> Prop.
Hypothesis HP : forall w, langN r w <-> P w.

Lemma power_spec n : forall w, langN (power r n) w <-> repn P n w.
Proof.
  induction n as [|n IH]; intro w; cbn [power].
  - rewrite lang_Eps. split; [intros ->; constructor | intro H; inversion H; reflexivity].
  - rewrite lang_Cat. split.
    + intros (u & v & -> & H1 & H2). constructor; [now apply HP | now apply IH].
    + intro H. inversion H; subst. eexists _, _. repeat split; [now apply HP | now apply IH].
Qed.

Lemma star_spec w : langN (Star r) w <-> exists k, repn P k w.
Proof.
  split.
  - intro H. remember (Star r) as s eqn:Es. induction H; try discriminate.
    + exists 0. constructor.
    + injection Es as ->. destruct (IHlang2 eq_refl) as [k Hk].
      exists (S k). constructor; [now apply HP | exact Hk].
  - intros [k Hk]. induction Hk as [|k u v Hu Hv IH].
    + constructor.
    + constructor; [now apply HP | exact IH].
Qed.

Lemma optchain_spec n : forall w, langN (optchain r n) w <-> exists k, k <= n /\ repn P k w.
Proof.
  induction n as [|n IH]; intro w; cbn [optchain].
  - rewrite lang_Eps. split.
    + intros ->. exists 0. split; [lia | constructor].
    + intros [k [Hk H]]. assert (k = 0) by lia. subst. inversion H. reflexivity.
  - rewrite lang_Alt, lang_Eps, lang_Cat. split.
    + intros [-> | (u & v & -> & H1 & H2)].
      * exists 0. split; [lia | constructor].
      * apply IH in H2 as [k [Hk H2]]. exists (S k). split; [lia|].
        constructor; [now apply HP | exact H2].
    + intros [k [Hk H]]. inversion H; subst.
      * left. reflexivity.
      * right. eexists _, _. repeat split; [now apply HP|]. apply IH. eexists. split; [|eassumption]. lia.
Qed.
End Rep.

Lemma repn_app P a b u v : repn P a u -> repn P b v -> repn P (a + b) (u ++ v).
Proof.
  intros Ha Hb. induction Ha as [|k x y Hx Hy IH]; cbn [plus app]; [exact Hb|].
  rewrite <- app_assoc. constructor; assumption.
Qed.

Lemma repn_split P a b : forall w, repn P (a + b) w ->
  exists u v, w = u ++ v /\ repn P a u /\ repn P b v.
Proof.
  induction a as [|a IH]; intros w H; cbn [plus] in H.
  - exists [], w. repeat split; [constructor | exact H].
  - inversion H; subst. destruct (IH _ H2) as (u' & v' & -> & Hu & Hv).
    exists (u ++ u'), v'. rewrite app_assoc. repeat split; [constructor; assumption | exact Hv].
Qed.

Lemma rep_spec r P mn mx :
  (forall w, langN r w <-> P w) -> forall w, langN (rep r mn mx) w <-> occ P mn mx w.
Proof.
  intros HP w. unfold rep, occ, in_range. destruct mx as [m|].
  - destruct (Nat.ltb_spec m mn) as [Hlt|Hge].
    + split; [intro H; now apply lang_Emp in H | intros [k [[H1 H2] _]]; lia].
    + rewrite lang_Cat. split.
      * intros (u & v & -> & H1 & H2).
        apply (power_spec r P HP) in H1. apply (optchain_spec r P HP) in H2 as [k [Hk H2]].
        exists (mn + k). split; [lia | now apply repn_app].
      * intros [k [[H1 H2] H]]. replace k with (mn + (k - mn)) in H by lia.
        apply repn_split in H as (u & v & -> & Hu & Hv). exists u, v. repeat split.
        -- now apply (power_spec r P HP).
        -- apply (optchain_spec r P HP). exists (k - mn). split; [lia | exact Hv].
  - rewrite lang_Cat. split.
    + intros (u & v & -> & H1 & H2).
      apply (power_spec r P HP) in H1. apply (star_spec r P HP) in H2 as [k H2].
      exists (mn + k). split; [split; [lia | exact I] | now apply repn_app].
    + intros [k [[H1 _] H]]. replace k with (mn + (k - mn)) in H by lia.
      apply repn_split in H as (u & v & -> & Hu & Hv). exists u, v. repeat split.
      * now apply (power_spec r P HP).
      * apply (star_spec r P HP). eauto.
Qed.

Lemma atom_single pid lf w : langN (Atom (pid, lf)) w <-> single lf w.
Proof.
  unfold single. split.
  - intro H. inversion H; subst. eauto.
  - intros [x [-> H]]. constructor. exact H.
Qed.

Theorem compile_correct : forall p w0, langN (compile p) w0 <-> plang p w0.
Proof.
  apply (part_mut
    (fun p => forall w, langN (compile p) w <-> plang p w)
    (fun ps => (forall w, langN (cseq ps) w <-> seql ps w) /\
               (forall w, langN (cch ps) w <-> chl ps w) /\
               (forall w, langN (call ps) w <-> alll ps w))).
  - intros pid lf mn mx w. cbn [compile plang]. apply rep_spec. intro. apply atom_single.
  - intros k ps (Hs & Hc & Ha) mn mx w. destruct k; cbn [compile plang]; apply rep_spec; assumption.
  - split; [|split]; intro w; cbn [cseq cch call seql chl alll].
    + apply lang_Eps.
    + split; [intro H; inversion H | tauto].
    + apply lang_Eps.
  - intros p Hp ps (Hs & Hc & Ha). split; [|split]; intro w; cbn [cseq cch call seql chl alll].
    + rewrite lang_Cat. split; intros (u & v & E & H1 & H2); exists u, v; repeat split; auto;
        first [now apply Hp | now apply Hs].
    + rewrite lang_Alt, Hp, Hc. reflexivity.
    + rewrite lang_Shuf. split; intros (u & v & H1 & H2 & H3); exists u, v; repeat split; auto;
        first [now apply Hp | now apply Ha].
Qed.

Theorem accepts_iff_word p w : accepts p w = true <-> plang p w.
Proof. unfold accepts. rewrite matches_correct. apply compile_correct. Qed.

Lemma star_atom_forall wild v :
  langN (Star (Atom (0, wild))) v <-> Forall (fun x => leaf_match wild x = true) v.
Proof.
  split.
  - intro H. remember (Star (Atom (0, wild))) as s eqn:Es. induction H; try discriminate.
    + constructor.
    + injection Es as ->. inversion H; subst. cbn. constructor; [assumption | now apply IHlang2].
  - intro H. induction H as [|x v Hx Hv IH]; [constructor|].
    change (x :: v) with ([x] ++ v). constructor; [now constructor | exact IH].
Qed.

Theorem open_interleave_correct p wild w :
  accepts_open false p wild w = true <-> plang_open_interleave p wild w.
Proof.
  unfold accepts_open, open_interleave, plang_open_interleave.
  rewrite matches_correct, lang_Shuf.
  split; intros (u & v & H1 & H2 & H3); exists u, v; repeat split; auto;
    first [now apply compile_correct | now apply star_atom_forall].
Qed.

Theorem open_suffix_correct p wild w :
  accepts_open true p wild w = true <-> plang_open_suffix p wild w.
Proof.
  unfold accepts_open, open_suffix, plang_open_suffix.
  rewrite matches_correct, lang_Cat.
  split; intros (u & v & E & H1 & H2); exists u, v; repeat split; auto;
    first [now apply compile_correct | now apply star_atom_forall].
Qed.

(* C02, decode options: the decoded value is presented as the options prescribe (decimal_type, datetime_types,
   binary_types turn typed values into strings / floats); the presentation is applied after the facets have been
   checked on the XSD value.  XsdAtomicRestriction.raw_decode / XsdList.raw_decode / convert_items (simple_types.py,
   after fix 3f2fed5); the variant that converts the items of a list first is the code before that fix. *)
From XV Require Import Base Datatypes.

Section Present.
Variable conv : val -> val.          (* the presentation of an atomic value under the options of the call *)

Definition present (v : val) : val :=
  match v with VList l => VList (map conv l) | _ => conv v end.

Definition decode_opts (t : sty) (s : str) : option val := option_map present (decode t s).

(* items converted before the facets of a restricted list are checked *)
Definition decode_list_early (item : sty) (m : wsmode) (fs : list facet) (s : str) : option val :=
  match decode (TList item) (normalize m s) with
  | Some (VList vs) => let v' := VList (map conv vs) in if forallb (facet_ok v') fs then Some v' else None
  | _ => None
  end.
End Present.

Definition is_some {A} (o : option A) : bool := match o with Some _ => true | None => false end.

(* ---- pattern facets of a chain of restrictions of a union (simple_types.py, after fix ad76452) ----
   The patterns of one restriction level are alternatives; every level is in force.  A restriction of a union cannot
   check its patterns itself (the text is normalised for the member type that accepts it), so each level pushes its
   patterns on the validation context and the union checks everything that was pushed. *)
Section Patterns.
Variable pat : Type.
Variable pmatch : pat -> str -> bool.

Definition level_ok (ps : list pat) (s : str) : bool := existsb (fun p => pmatch p s) ps.
Definition chain_ok (levels : list (list pat)) (s : str) : bool := forallb (fun ps => level_ok ps s) levels.

(* levels are visited outermost first *)
Fixpoint push_all (levels : list (list pat)) (ctx : list (list pat)) : list (list pat) :=
  match levels with [] => ctx | ps :: r => push_all r (ctx ++ [ps]) end.
Definition union_check_all (levels : list (list pat)) (s : str) : bool :=
  forallb (fun ps => level_ok ps s) (push_all levels []).

(* before the fix: a level pushed its patterns only when the context was still empty *)
Fixpoint push_first (levels : list (list pat)) (ctx : option (list pat)) : option (list pat) :=
  match levels with
  | [] => ctx
  | ps :: r => push_first r (match ctx with None => Some ps | Some c => Some c end)
  end.
Definition union_check_first (levels : list (list pat)) (s : str) : bool :=
  match push_first levels None with None => true | Some ps => level_ok ps s end.
End Patterns.

From XV Require Import Base Staged.
From Coq Require Import Permutation.

Section Proofs.
Variable payload : Type.
Variable mk : N -> list payload -> payload.
Notation eval := (eval payload mk).
Notation build := (build payload mk).
Notation thread := (thread payload).
Notation store_ok := (store_ok payload mk).
Notation sget := (sget payload).

Lemma all_some_map_mono (g h : N -> option payload) l ps :
  (forall n p, g n = Some p -> h n = Some p) ->
  all_some (map g l) = Some ps -> all_some (map h l) = Some ps.
Proof.
  intro H. revert ps. induction l as [|x r IH]; intros ps E; cbn [map all_some] in *; [exact E|].
  destruct (g x) as [p|] eqn:Eg; [|discriminate]. rewrite (H x p Eg).
  destruct (all_some (map g r)) as [qs|]; [|discriminate]. now rewrite (IH qs eq_refl).
Qed.

Lemma eval_mono ds : forall f f' n p, eval f ds n = Some p -> f <= f' -> eval f' ds n = Some p.
Proof.
  induction f as [|f IH]; intros f' n p E Hle; [discriminate|].
  destruct f' as [|f']; [lia|]. cbn [Staged.eval] in *.
  destruct (lookup_decl ds n) as [d|]; [|discriminate].
  destruct (all_some (map (eval f ds) (d_deps d))) as [ps|] eqn:Ea; [|discriminate].
  rewrite (all_some_map_mono (eval f ds) (eval f' ds) _ ps); [exact E | | exact Ea].
  intros m q Hq. apply (IH f' m q Hq). lia.
Qed.

Lemma thread_spec ds b :
  (forall s n p s', store_ok ds s -> b s n = Some (p, s') -> (exists f, eval f ds n = Some p) /\ store_ok ds s') ->
  forall l s ps s', store_ok ds s -> thread b l s = Some (ps, s') ->
    (exists f, all_some (map (eval f ds) l) = Some ps) /\ store_ok ds s'.
Proof.
  intro Hb. induction l as [|m r IH]; intros s ps s' Hs E; cbn [Staged.thread] in E.
  - injection E as <- <-. split; [exists 0; reflexivity | exact Hs].
  - destruct (b s m) as [[p s1]|] eqn:Eb; [|discriminate].
    destruct (thread b r s1) as [[qs s2]|] eqn:Et; [|discriminate]. injection E as <- <-.
    destruct (Hb s m p s1 Hs Eb) as [[f1 E1] Hs1].
    destruct (IH s1 qs s2 Hs1 Et) as [[f2 E2] Hs2]. split; [|exact Hs2].
    exists (Nat.max f1 f2). cbn [map all_some].
    rewrite (eval_mono ds f1 (Nat.max f1 f2) m p E1) by lia.
    rewrite (all_some_map_mono (eval f2 ds) (eval (Nat.max f1 f2) ds) r qs); [reflexivity | | exact E2].
    intros k q Hq. apply (eval_mono ds f2 _ k q Hq). lia.
Qed.

Lemma sget_cons (s : Staged.store payload) n p k : sget ((n, p) :: s) k = if N.eqb n k then Some p else sget s k.
Proof. reflexivity. Qed.

Theorem build_spec ds : forall fuel s n p s',
  store_ok ds s -> build fuel ds s n = Some (p, s') ->
  (exists f, eval f ds n = Some p) /\ store_ok ds s'.
Proof.
  induction fuel as [|f IH]; intros s n p s' Hs E; [discriminate|].
  cbn [Staged.build] in E. destruct (sget s n) as [q|] eqn:Eg.
  - injection E as <- <-. split; [now apply Hs | exact Hs].
  - destruct (lookup_decl ds n) as [d|] eqn:El; [|discriminate].
    destruct (thread (build f ds) (d_deps d) s) as [[ps s1]|] eqn:Et; [|discriminate].
    injection E as <- <-.
    destruct (thread_spec ds (build f ds) (IH) (d_deps d) s ps s1 Hs Et) as [[f1 E1] Hs1].
    assert (Hev : eval (S f1) ds n = Some (mk n ps)).
    { cbn [Staged.eval]. now rewrite El, E1. }
    split; [eauto|]. intros k q Hk. rewrite sget_cons in Hk.
    destruct (N.eqb_spec n k) as [<-|Hne]; [injection Hk as <-; eauto | now apply Hs1].
Qed.

(* the memoised store after building any list of names holds only specification values *)
Theorem store_is_eval ds fuel : forall names s s',
  store_ok ds s -> build_all payload mk fuel ds names s = Some s' -> store_ok ds s'.
Proof.
  induction names as [|n r IH]; intros s s' Hs E; cbn [build_all] in E; [now injection E as <-|].
  destruct (build fuel ds s n) as [[p s1]|] eqn:Eb; [|discriminate].
  apply (IH s1 s'); [|exact E]. exact (proj2 (build_spec ds fuel s n p s1 Hs Eb)).
Qed.

Theorem empty_store_ok ds : store_ok ds [].
Proof. intros n p H. discriminate. Qed.

(* order independence: with distinct names the declaration found for a name does not depend on the order *)
Lemma lookup_in ds n d : lookup_decl ds n = Some d -> In d ds /\ d_name d = n.
Proof.
  induction ds as [|x r IH]; cbn [lookup_decl]; [discriminate|].
  destruct (N.eqb_spec (d_name x) n) as [E|NE].
  - intro H. injection H as <-. split; [now left | exact E].
  - intro H. destruct (IH H) as [H1 H2]. split; [now right | exact H2].
Qed.

Lemma lookup_nodup ds n d : NoDup (map d_name ds) -> In d ds -> d_name d = n -> lookup_decl ds n = Some d.
Proof.
  induction ds as [|x r IH]; intros Hnd Hin Hn; [destruct Hin|].
  cbn [map] in Hnd. inversion Hnd as [|? ? Hx Hr]; subst. cbn [lookup_decl].
  destruct Hin as [->|Hin].
  - now rewrite N.eqb_refl.
  - destruct (N.eqb_spec (d_name x) (d_name d)) as [E|_]; [|now apply IH].
    exfalso. apply Hx. rewrite E. now apply in_map.
Qed.

Lemma lookup_perm ds ds' n : NoDup (map d_name ds) -> Permutation ds ds' ->
  lookup_decl ds n = lookup_decl ds' n.
Proof.
  intros Hnd Hp.
  assert (Hnd' : NoDup (map d_name ds')) by (eapply Permutation_NoDup; [apply Permutation_map; exact Hp | exact Hnd]).
  destruct (lookup_decl ds n) as [d|] eqn:E.
  - apply lookup_in in E as [Hin Hn]. symmetry. apply lookup_nodup; auto. eapply Permutation_in; eauto.
  - destruct (lookup_decl ds' n) as [d'|] eqn:E'; [|reflexivity].
    apply lookup_in in E' as [Hin Hn]. apply Permutation_sym in Hp.
    rewrite (lookup_nodup ds n d' Hnd (Permutation_in _ Hp Hin) Hn) in E. discriminate.
Qed.

Theorem eval_permutation ds ds' : NoDup (map d_name ds) -> Permutation ds ds' ->
  forall f n, eval f ds n = eval f ds' n.
Proof.
  intros Hnd Hp. induction f as [|f IH]; intro n; [reflexivity|]. cbn [Staged.eval].
  rewrite (lookup_perm ds ds' n Hnd Hp). destruct (lookup_decl ds' n) as [d|]; [|reflexivity].
  now rewrite (map_ext _ _ IH).
Qed.

Corollary eval_split ds1 ds2 : NoDup (map d_name (ds1 ++ ds2)) ->
  forall f n, eval f (ds1 ++ ds2) n = eval f (ds2 ++ ds1) n.
Proof. intro H. apply eval_permutation; [exact H | apply Permutation_app_comm]. Qed.
End Proofs.

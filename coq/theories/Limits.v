(* Depth / element limits of the XML loader (resources/xml_loader.py _parse and _lazy_iterparse, after
   the fix: a limit is exceeded, not reached) and the strict / lax / skip collection policy with the
   exit status of the console scripts (validators/validation.py, schemas.py, cli.py after the fix). *)
From XV Require Import Base.

Inductive ev := EvStart | EvEnd | EvOther.
Inductive load := ExcDepth | ExcElems | Loaded.

(* rl = remaining_levels, re = remaining_elements; lazy resources do not count elements *)
Fixpoint load_run (lazy : bool) (rl re : Z) (evs : list ev) : load :=
  match evs with
  | [] => Loaded
  | EvStart :: r =>
      let rl' := (rl - 1)%Z in let re' := (re - 1)%Z in
      if Z.ltb rl' 0 then ExcDepth
      else if negb lazy && Z.ltb re' 0 then ExcElems
      else load_run lazy rl' re' r
  | EvEnd :: r => load_run lazy (rl + 1)%Z re r
  | EvOther :: r => load_run lazy rl re r
  end.
Definition parse_limited (max_depth max_elems : Z) (lazy : bool) (evs : list ev) : load :=
  load_run lazy max_depth max_elems evs.

(* the quantities the documentation talks about *)
Fixpoint maxdepth (lvl : Z) (evs : list ev) : Z :=
  match evs with
  | [] => lvl
  | EvStart :: r => Z.max (lvl + 1) (maxdepth (lvl + 1) r)
  | EvEnd :: r => Z.max lvl (maxdepth (lvl - 1) r)
  | EvOther :: r => maxdepth lvl r
  end.
Definition count_start (evs : list ev) : Z := Z.of_nat (length (filter (fun e => match e with EvStart => true | _ => false end) evs)).

(* ------------------------------------------------------------------ validation modes *)
Inductive mode := Strict | Lax | Skip.
Inductive outcome (E : Type) := Raise (e : E) | Done (collected : list E).
Arguments Raise {E} e.
Arguments Done {E} collected.

Definition run_mode {E} (m : mode) (es : list E) : outcome E :=
  match m with
  | Strict => match es with [] => Done [] | e :: _ => Raise e end
  | Lax => Done es
  | Skip => Done []
  end.
Definition is_valid {E} (es : list E) : bool := isnil es.
Definition validate_raises {E} (es : list E) : bool := match run_mode Strict es with Raise _ => true | Done _ => false end.
Definition cli_status {E} (runs : list (list E)) : Z :=
  Z.min (Z.of_nat (length (concat runs))) 255.

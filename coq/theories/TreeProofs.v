From XV Require Import Base Tree.

Lemma count_tag_cons g c r : count_tag g (c :: r) = (if N.eqb (tag_of c) g then 1 else 0) + count_tag g r.
Proof. unfold count_tag. cbn [filter]. destruct (N.eqb (tag_of c) g); reflexivity. Qed.

Lemma tag_indices_length g l : forall off, length (tag_indices g l off) = count_tag g l.
Proof.
  induction l as [|c r IH]; intro off; cbn [tag_indices]; [reflexivity|].
  rewrite count_tag_cons. destruct (N.eqb (tag_of c) g); cbn [length]; rewrite IH; reflexivity.
Qed.

Lemma nth_tag_index g l : forall i off c,
  nth_error l i = Some c -> tag_of c = g ->
  nth_error (tag_indices g l off) (count_tag g (firstn i l)) = Some (off + i).
Proof.
  induction l as [|x r IH]; intros i off c Hn Hg; [destruct i; discriminate|].
  destruct i as [|i]; cbn [nth_error firstn] in *.
  - injection Hn as ->. cbn [tag_indices]. rewrite Hg, N.eqb_refl. unfold count_tag. cbn. f_equal. lia.
  - cbn [tag_indices]. rewrite count_tag_cons.
    destruct (N.eqb (tag_of x) g); cbn [plus nth_error];
      rewrite (IH i (S off) c Hn Hg); f_equal; lia.
Qed.

Lemma count_firstn_le g l i : count_tag g (firstn i l) <= count_tag g l.
Proof.
  revert i. induction l as [|x r IH]; intro i; [destruct i; cbn; lia|].
  destruct i as [|i]; cbn [firstn]; [unfold count_tag; cbn; lia|].
  rewrite !count_tag_cons. specialize (IH i). lia.
Qed.

Lemma count_firstn_lt g l : forall i c, nth_error l i = Some c -> tag_of c = g ->
  count_tag g (firstn i l) < count_tag g l.
Proof.
  induction l as [|x r IH]; intros i c Hn Hg; [destruct i; discriminate|].
  destruct i as [|i]; cbn [nth_error firstn] in *.
  - injection Hn as ->. rewrite count_tag_cons, Hg, N.eqb_refl. unfold count_tag at 1. cbn. lia.
  - rewrite !count_tag_cons. specialize (IH i c Hn Hg). lia.
Qed.

Lemma step_matches_self kids i c :
  nth_error kids i = Some c ->
  step_matches (tag_of c, if Nat.eqb (count_tag (tag_of c) kids) 1 then None
                          else Some (S (count_tag (tag_of c) (firstn i kids)))) kids = [i].
Proof.
  intro Hn. set (g := tag_of c). unfold step_matches. cbn [fst snd].
  pose proof (nth_tag_index g kids i 0 c Hn eq_refl) as Hk. cbn [plus] in Hk.
  destruct (Nat.eqb_spec (count_tag g kids) 1) as [H1|H1].
  - (* unique tag among the siblings *)
    pose proof (count_firstn_lt g kids i c Hn eq_refl) as Hlt.
    assert (H0 : count_tag g (firstn i kids) = 0) by lia. rewrite H0 in Hk.
    pose proof (tag_indices_length g kids 0) as Hl. rewrite H1 in Hl.
    destruct (tag_indices g kids 0) as [|x [|y r]]; try discriminate.
    cbn in Hk. now injection Hk as ->.
  - now rewrite Hk.
Qed.

Theorem path_unique : forall a t fuel s,
  subtree t a = Some s -> length a <= fuel ->
  exists p, getpath t a = Some p /\ select fuel t p = [a].
Proof.
  induction a as [|i r IH]; intros t fuel s Hs Hf.
  - exists []. split; [reflexivity|]. destruct fuel; reflexivity.
  - cbn [subtree] in Hs. destruct (nth_error (kids_of t) i) as [c|] eqn:Hn; [|discriminate].
    destruct fuel as [|f]; [cbn in Hf; lia|].
    destruct (IH c f s Hs) as [p [Hp Hsel]]; [cbn in Hf; lia|].
    cbn [getpath]. rewrite Hn, Hp. eexists. split; [reflexivity|].
    cbn [select]. rewrite (step_matches_self (kids_of t) i c Hn). cbn [flat_map].
    rewrite Hn, Hsel. reflexivity.
Qed.

Theorem path_injective t a b sa sb p :
  subtree t a = Some sa -> subtree t b = Some sb ->
  getpath t a = Some p -> getpath t b = Some p -> a = b.
Proof.
  intros Ha Hb Pa Pb.
  destruct (path_unique a t (length a + length b) sa Ha) as [pa [E1 S1]]; [lia|].
  destruct (path_unique b t (length a + length b) sb Hb) as [pb [E2 S2]]; [lia|].
  rewrite Pa in E1. rewrite Pb in E2. injection E1 as <-. injection E2 as <-.
  rewrite S1 in S2. now injection S2.
Qed.

(* ---- single faults ---- *)
Lemma replace_kid_nth f l : forall i j,
  nth_error (replace_kid f l i) j = if Nat.eqb j i then option_map f (nth_error l i) else nth_error l j.
Proof.
  induction l as [|c r IH]; intros i j.
  - cbn [replace_kid]. destruct i; cbn [replace_kid]; destruct (Nat.eqb j _); destruct j; reflexivity.
  - destruct i as [|i]; cbn [replace_kid].
    + destruct j as [|j]; reflexivity.
    + destruct j as [|j]; cbn [nth_error Nat.eqb]; [reflexivity | apply IH].
Qed.

Theorem single_fault_local chk : forall d t s' a,
  (forall b, ~ err_at chk t b) -> err_at chk (replace_at t d s') a -> prefix a d \/ prefix d a.
Proof.
  induction d as [|i r IH]; intros t s' a Hvalid Herr.
  - right. exists a. reflexivity.
  - destruct a as [|j b]; [left; exists (i :: r); reflexivity|].
    destruct Herr as (s & Hs & Hc). cbn [replace_at subtree kids_of] in Hs.
    rewrite replace_kid_nth in Hs. destruct (Nat.eqb_spec j i) as [->|Hne].
    + destruct (nth_error (kids_of t) i) as [c|] eqn:Hc'; cbn [option_map] in Hs; [|discriminate].
      assert (Hvc : forall b', ~ err_at chk c b').
      { intros b' (s0 & Hs0 & Hc0). apply (Hvalid (i :: b')). exists s0. split; [|exact Hc0].
        cbn [subtree]. now rewrite Hc'. }
      destruct (IH c s' b Hvc) as [[z Hz]|[z Hz]].
      * exists s. split; assumption.
      * left. exists z. now rewrite Hz.
      * right. exists z. now rewrite Hz.
    + exfalso. apply (Hvalid (j :: b)). exists s. split; [|exact Hc]. cbn [subtree]. exact Hs.
Qed.

(* the location of a fault is reported at the damaged node when its own check fails *)
Theorem fault_reported_at_node chk : forall d t s' old,
  subtree t d = Some old -> chk s' = false -> err_at chk (replace_at t d s') d.
Proof.
  induction d as [|i r IH]; intros t s' old Hsub Hchk.
  - exists s'. split; [reflexivity | exact Hchk].
  - cbn [subtree] in Hsub. destruct (nth_error (kids_of t) i) as [c|] eqn:Hc; [|discriminate].
    destruct (IH c s' old Hsub Hchk) as (s & Hs & Hcs).
    exists s. split; [|exact Hcs]. cbn [replace_at subtree kids_of]. rewrite replace_kid_nth, Nat.eqb_refl, Hc. exact Hs.
Qed.

(* a check that looks outside the node's subtree (an IDREF resolved against the whole document) is not local *)
Definition err_at_ctx (chk : tree -> tree -> bool) (t : tree) (a : addr) : Prop :=
  exists s, subtree t a = Some s /\ chk t s = false.
Definition idref_chk (root s : tree) : bool :=
  if N.eqb (tag_of s) 9 then existsb (fun c => N.eqb (tag_of c) 7) (kids_of root) else true.

Theorem context_check_not_local :
  exists t d s' a,
    (forall b, ~ err_at_ctx idref_chk t b) /\ err_at_ctx idref_chk (replace_at t d s') a /\
    ~ prefix a d /\ ~ prefix d a.
Proof.
  exists (Node 1 [Node 7 []; Node 9 []]), [0], (Node 8 []), [1]. repeat split.
  - intros b (s & Hs & Hc). destruct b as [|i b].
    + cbn in Hs. injection Hs as <-. cbn in Hc. discriminate.
    + destruct i as [|[|i]]; destruct b as [|j b]; cbn in Hs.
      * injection Hs as <-. cbn in Hc. discriminate.
      * destruct j; discriminate.
      * injection Hs as <-. cbn in Hc. discriminate.
      * destruct j; discriminate.
      * destruct i; discriminate.
      * destruct i; discriminate.
  - exists (Node 9 []). split; reflexivity.
  - intros [z Hz]. discriminate.
  - intros [z Hz]. discriminate.
Qed.

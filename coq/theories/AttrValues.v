(* Values reported for absent attributes (xmlschema/validators/attributes.py XsdAttributeGroup.iter_value_constraints /
   raw_decode): an absent attribute with a fixed value is reported with that value, one with a default exactly when default
   filling is enabled; a declaration can carry both (a reference with `fixed` to a global attribute with `default`): the
   fixed value wins.  `fill_missing` adds the remaining declared names with no value (None). *)
From XV Require Import Base Wildcard Attrs.

Definition absent_value (use_defaults fill_missing : bool) (d : adecl) : option (option N) :=
  match a_fixed d, a_default d with
  | Some f, _ => Some (Some f)
  | None, Some v => if use_defaults then Some (Some v) else if fill_missing then Some None else None
  | None, None => if fill_missing then Some None else None
  end.

Definition filled_values (g : agroup) (use_defaults fill_missing : bool) (attrs : list (name * N)) : list (name * option N) :=
  flat_map (fun d =>
    if present attrs (a_name d) then []
    else match absent_value use_defaults fill_missing d with Some v => [(a_name d, v)] | None => [] end) (decls g).

(* the order of the two tests exchanged (seeded as C03-K): a default hides the fixed value *)
Definition absent_value_default_first (use_defaults fill_missing : bool) (d : adecl) : option (option N) :=
  match a_default d, a_fixed d with
  | Some v, _ => if use_defaults then Some (Some v) else if fill_missing then Some None else None
  | None, Some f => Some (Some f)
  | None, None => if fill_missing then Some None else None
  end.

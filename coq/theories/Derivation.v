(* Type derivation, blocking, xsi:type / substitution / nil decisions:
   model of XsdComplexType.is_derived, XsdSimpleType.is_derived, XsdType.is_blocked
   (complex_types.py, simple_types.py, xsdbase.py), the xsi:type and xsi:nil steps of
   XsdElement.raw_decode and the substitution checks of XsdGroup.check_dynamic_context.
   A type environment is a list of definitions; type i may only derive from a type j < i. *)
From XV Require Import Base.

Inductive meth := Ext | Restr.
Definition meth_eqb (a b : meth) : bool :=
  match a, b with Ext, Ext => true | Restr, Restr => true | _, _ => false end.

Record tdef := { t_base : option nat; t_meth : meth; t_simple : bool; t_abstract : bool;
                 t_block : list meth }.
Definition env := list tdef.

Fixpoint is_derived (fuel : nat) (e : env) (t other : nat) (d : option meth) : bool :=
  match fuel with
  | 0 => false
  | S f =>
      match nth_error e t with
      | None => false
      | Some td =>
          if t_simple td then
            match d with
            | Some Ext => false            (* a simple type is never derived by extension *)
            | _ =>
                if Nat.eqb t other then true
                else match t_base td with
                     | None => false
                     | Some b => if Nat.eqb b other then true else is_derived f e b other None
                     end
            end
          else
            let d' := match t_base td, d with
                      | Some _, Some m => if meth_eqb m (t_meth td) then None else d
                      | _, _ => d
                      end in
            if Nat.eqb t other then true
            else match t_base td with
                 | None => false
                 | Some b => if Nat.eqb b other
                             then match d' with None => true | Some _ => false end
                             else is_derived f e b other d'
                 end
      end
  end.

Definition derived (e : env) (t other : nat) (d : option meth) : bool := is_derived (S t) e t other d.

Definition type_block (e : env) (t : nat) : list meth :=
  match nth_error e t with Some td => t_block td | None => [] end.
Definition type_abstract (e : env) (t : nat) : bool :=
  match nth_error e t with Some td => t_abstract td | None => false end.

(* XsdType.is_blocked(self = t, element with declared type ty and block eb) *)
Definition is_blocked (e : env) (t ty : nat) (eb : list meth) : bool :=
  if Nat.eqb t ty then false
  else existsb (fun m => derived e t ty (Some m)) (eb ++ type_block e ty).

(* xsi:type = T on an element of declared type ty with block eb *)
Definition xsi_type_ok (e : env) (ty : nat) (eb : list meth) (T : nat) : bool :=
  Nat.ltb T (length e) && derived e T ty None && negb (is_blocked e T ty eb) && negb (type_abstract e T).

(* substitution-group member (type mt, abstract flag) in place of its head (type ht, block hb,
   `substitution` blocked or not) *)
Definition subst_ok (e : env) (ht : nat) (hb : list meth) (hsubst_blocked : bool)
           (mt : nat) (mabstract : bool) : bool :=
  negb hsubst_blocked && negb mabstract && negb (is_blocked e mt ht hb) && negb (type_abstract e mt).

(* xsi:nil: value id 0 = 'false'/'0', 1 = 'true'/'1', 2 = not a boolean *)
Inductive nil_res := NilError | NotNilled | Nilled.
Definition nil_check (nillable : bool) (v : nat) (has_fixed empty : bool) : nil_res :=
  if negb nillable then NilError
  else match v with
       | 0 => NotNilled
       | 1 => if has_fixed then NilError else if empty then Nilled else NilError
       | _ => NilError
       end.

(* XSD 1.1 type alternatives: the first alternative whose test holds, else the declared type *)
Definition alternative_type (alts : list (bool * nat)) (declared : nat) : nat :=
  match find (fun a => fst a) alts with Some a => snd a | None => declared end.

(* the outcome of evaluating a test expression: a boolean, or a dynamic XPath error (year overflow, invalid cast,
   division by zero).  XsdAlternative.test (elements.py, after fix 7f56e74): a test that raises does not hold. *)
Inductive tres := TBool (b : bool) | TError.
Definition holds (r : tres) : bool := match r with TBool b => b | TError => false end.
Definition alternative_type_dyn (alts : list (tres * nat)) (declared : nat) : nat :=
  alternative_type (map (fun a => (holds (fst a), snd a)) alts) declared.
(* before the fix an error that is neither a type nor a value error escaped from validation (None) *)
Fixpoint alternative_type_raise (alts : list (tres * nat)) (declared : nat) : option nat :=
  match alts with
  | [] => Some declared
  | (TError, _) :: _ => None
  | (TBool true, t) :: _ => Some t
  | (TBool false, _) :: r => alternative_type_raise r declared
  end.

(* ------------------------------------------------------------------ declarative side *)
Inductive chain (e : env) : nat -> nat -> list meth -> Prop :=
| chain_refl t td : nth_error e t = Some td -> chain e t t []
| chain_step t td b' b ms :
    nth_error e t = Some td -> t_base td = Some b' -> chain e b' b ms -> chain e t b (t_meth td :: ms).

Definition wf (e : env) : Prop :=
  forall i td b, nth_error e i = Some td -> t_base td = Some b -> b < i.
Definition all_complex (e : env) : Prop := Forall (fun td => t_simple td = false) e.
Definition all_simple (e : env) : Prop := Forall (fun td => t_simple td = true /\ t_meth td = Restr) e.

From XV Require Import Base ThreadLocal.

Section Proofs.
Variable errors_of : N -> list N.
Notation tl_run := (tl_run errors_of).
Notation spec_run := (spec_run errors_of).
Notation tl_inv := (tl_inv errors_of).

Theorem tl_run_spec : forall ops s hist, tl_inv s hist -> tl_run s ops = spec_run hist ops.
Proof.
  induction ops as [|o r IH]; intros s hist Hinv; [reflexivity|].
  destruct o as [t x|t]; cbn [ThreadLocal.tl_run tl_step ThreadLocal.spec_run].
  - apply IH. intro u. cbn [last_decoded]. rewrite (Nat.eqb_sym t u). destruct (Nat.eqb u t); [reflexivity | apply Hinv].
  - rewrite (Hinv t). f_equal.
    + f_equal. destruct (last_decoded t hist); reflexivity.
    + apply IH. intro u. cbn [last_decoded]. apply Hinv.
Qed.

(* every interleaving of the threads' decode / read steps gives each read its own thread's verdict *)
Corollary thread_local_isolated ops : tl_run (fun _ => []) ops = spec_run [] ops.
Proof. apply tl_run_spec. intro t. reflexivity. Qed.
End Proofs.

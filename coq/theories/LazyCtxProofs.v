From XV Require Import Base Mapper MapperProofs LazyCtx.

(* what the pop phase leaves: nothing found for a fresh element, and a stack whose contexts all lie above the level *)
Lemma pop_fresh cs : forall obj level saved,
  (forall c, In c cs -> c_obj c <> obj) ->
  exists cs' saved', pop_ctxs cs obj level saved = (cs', saved', None)
    /\ (forall c, In c cs' -> In c cs)
    /\ match cs' with [] => True | c :: _ => c_level c < level end.
Proof.
  induction cs as [|c r IH]; intros obj level saved Hf; cbn [pop_ctxs].
  - exists [], saved. repeat split; auto.
  - destruct (Nat.ltb_spec (c_level c) level) as [Hlt|Hge].
    + exists (c :: r), saved. repeat split; auto.
    + assert (Hobj : Nat.eqb (c_obj c) obj = false) by (apply Nat.eqb_neq, Hf; now left).
      rewrite Hobj, andb_false_r.
      destruct (IH obj level (Some (c_ns c, c_rev c))) as (cs' & saved' & E & Hin & Hhd).
      { intros c' Hc'. apply Hf. now right. }
      exists cs', saved'. repeat split; auto. intros c' Hc'. right. auto.
Qed.

Lemma pop_below cs obj level saved :
  match cs with [] => True | c :: _ => c_level c < level end ->
  pop_ctxs cs obj level saved = (cs, saved, None).
Proof.
  destruct cs as [|c r]; cbn [pop_ctxs]; [reflexivity|].
  intro H. apply Nat.ltb_lt in H. rewrite H. reflexivity.
Qed.

Theorem chunk_new_scope st obj level decls scope :
  fresh st obj -> ns (chunk_new st obj level decls scope) = scope.
Proof.
  intro Hf. unfold chunk_new, set_ctx at 2.
  destruct (pop_fresh (ctxs st) obj level None Hf) as (cs' & saved' & E & _ & Hhd).
  rewrite E.
  destruct (match saved' with Some nr => nr | None => (ns st, rev st) end) as [n0 r0] eqn:En.
  destruct decls as [|d ds].
  - (* no declaration on the element: nothing is pushed *)
    unfold with_ns, set_ctx; cbn [ctxs ns rev].
    rewrite (pop_below cs' obj level None Hhd). reflexivity.
  - (* the element's own context is on top: the second entry finds it and restores nothing *)
    unfold with_ns, set_ctx; cbn [ctxs ns rev pop_ctxs c_level c_obj c_xmlns].
    rewrite Nat.ltb_irrefl, !Nat.eqb_refl. cbn [andb]. reflexivity.
Qed.

(* the order before the repairs: the map saved by the previous chunk comes back *)
Theorem chunk_old_refuted : exists st obj level decls scope,
  fresh st obj /\ ns (chunk_old st obj level decls scope) <> scope.
Proof.
  (* previous chunk (object 1, level 1) declared prefix 7 -> 102; its context saved the map [(7,102); (5,101)] *)
  exists {| ns := [(5, 101)]%N; rev := [];
            ctxs := [{| c_obj := 1; c_level := 1; c_xmlns := [(7, 102)]%N; c_ns := [(5, 101); (7, 102)]%N; c_rev := [] |}] |},
         2, 1, [], [(5, 101)]%N.
  split.
  - intros c [<-|[]]. cbn. discriminate.
  - vm_compute. discriminate.
Qed.

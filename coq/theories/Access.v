(* Resource access control: model of XMLResource.access_control (after the fix), of the URL
   classification (utils/urls.py is_local_scheme) and of posixpath.normpath on absolute paths
   (LocationPath.normalize).  Strings are lists of code points; '/' = 47, '.' = 46. *)
From XV Require Import Base.

Definition str := list N.
Definition slash : N := 47%N.

Fixpoint str_eqb (a b : str) : bool :=
  match a, b with
  | [], [] => true
  | x :: a', y :: b' => N.eqb x y && str_eqb a' b'
  | _, _ => false
  end.
Fixpoint startswith (p s : str) : bool :=
  match p, s with
  | [], _ => true
  | x :: p', y :: s' => N.eqb x y && startswith p' s'
  | _ :: _, [] => false
  end.

(* split on '/' *)
Fixpoint split_aux (cur : str) (s : str) : list str :=
  match s with
  | [] => [rev cur]
  | c :: r => if N.eqb c slash then rev cur :: split_aux [] r else split_aux (c :: cur) r
  end.
Definition split (s : str) : list str := split_aux [] s.

Fixpoint rstrip_rev (s : str) : str := match s with c :: r => if N.eqb c slash then rstrip_rev r else s | [] => [] end.
Definition rstrip_slash (s : str) : str := rev (rstrip_rev (rev s)).

Fixpoint is_prefix (a b : list str) : bool :=
  match a, b with
  | [], _ => true
  | x :: a', y :: b' => str_eqb x y && is_prefix a' b'
  | _ :: _, [] => false
  end.

(* posixpath.normpath on the segments of an absolute path: '' and '.' dropped, '..' pops *)
Definition dot : str := [46%N].
Definition dotdot : str := [46%N; 46%N].
Fixpoint norm_segs (acc : list str) (l : list str) : list str :=
  match l with
  | [] => rev acc
  | s :: r => if str_eqb s [] || str_eqb s dot then norm_segs acc r
              else if str_eqb s dotdot then norm_segs (tl acc) r
              else norm_segs (s :: acc) r
  end.
Definition normalize_segments (l : list str) : list str := norm_segs [] l.

(* utils/urls.py is_local_scheme: '', 'file' or a single ASCII letter (a drive) *)
Definition is_ascii_letter (c : N) : bool := (N.leb 65 c && N.leb c 90) || (N.leb 97 c && N.leb c 122).
Definition is_local_scheme (scheme : str) : bool :=
  match scheme with
  | [] => true
  | [c] => is_ascii_letter c
  | _ => str_eqb scheme [102; 105; 108; 101]%N     (* "file" *)
  end.

Inductive allow := AAll | ANone | ALocal | ARemote | ASandbox.

(* the sandbox test on normalised URL strings (after the fix) *)
Definition sandbox_test (base url : str) : bool :=
  str_eqb url base || startswith (rstrip_slash base ++ [slash]) url.

(* true = access granted *)
Definition access_control (a : allow) (base : option str) (scheme : str) (url : str) : bool :=
  match a with
  | AAll => true
  | ANone => false
  | ARemote => negb (is_local_scheme scheme)
  | ALocal => is_local_scheme scheme
  | ASandbox => is_local_scheme scheme &&
                match base with None => true | Some b => sandbox_test b url end
  end.

(* the class of locations each mode is meant to admit *)
Definition confined (a : allow) (base : option str) (scheme : str) (url : str) : Prop :=
  match a with
  | AAll => True
  | ANone => False
  | ARemote => is_local_scheme scheme = false
  | ALocal => is_local_scheme scheme = true
  | ASandbox => is_local_scheme scheme = true /\
                match base with
                | None => True
                | Some b => is_prefix (split (rstrip_slash b)) (split url) = true
                end
  end.

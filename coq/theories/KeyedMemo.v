(* A memo table keyed by a projection of the arguments (the pattern behind the seeded changes C10-K: instance types
   remembered per element declaration; C10-N: dummy declarations of a wildcard cached by tag; C12-L: lru_cache on URL
   normalisation keyed without the working directory; C20-M: XPath selectors cached without the default namespace).
   The table is unbounded here; History.v treats eviction for the identity key. *)
From XV Require Import Base.

Section KeyedMemo.
  Variables (A V : Type) (key : A -> N) (f : A -> V).

  Definition cache := list (N * V).

  Fixpoint lookup (c : cache) (k : N) : option V :=
    match c with
    | [] => None
    | (k', v) :: r => if N.eqb k k' then Some v else lookup r k
    end.

  Definition call (c : cache) (x : A) : V * cache :=
    match lookup c (key x) with
    | Some v => (v, c)
    | None => (f x, (key x, f x) :: c)
    end.

  Fixpoint run (c : cache) (xs : list A) : list V :=
    match xs with
    | [] => []
    | x :: r => let (v, c1) := call c x in v :: run c1 r
    end.

  (* every cached value is the value of the function for every argument with that key *)
  Definition sound (c : cache) : Prop := forall x v, lookup c (key x) = Some v -> v = f x.
End KeyedMemo.

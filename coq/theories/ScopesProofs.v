From XV Require Import Base Scopes.

Lemma items_stack_spec (f : stree -> nat) : forall items tbl,
  items_stack f items tbl = dups_of (own_values items) tbl + sum_subs f items.
Proof.
  induction items as [|it r IH]; intro tbl; cbn [items_stack own_values sum_subs dups_of]; [reflexivity|].
  destruct it as [v|s]; cbn [dups_of]; rewrite IH; lia.
Qed.

Lemma sum_subs_ext (f g : stree -> nat) items :
  (forall s, In (Sub s) items -> f s = g s) -> sum_subs f items = sum_subs g items.
Proof.
  induction items as [|it r IH]; intro H; cbn [sum_subs]; [reflexivity|].
  destruct it as [v|s].
  - apply IH. intros s Hs. apply H. now right.
  - rewrite (H s (or_introl eq_refl)). f_equal. apply IH. intros s' Hs. apply H. now right.
Qed.

(* size for the induction over nested instances *)
Fixpoint size (s : stree) : nat :=
  match s with SNode items => S (sum_subs size items) end.

Lemma size_sub s items : In (Sub s) items -> size s <= sum_subs size items.
Proof.
  induction items as [|it r IH]; intro H; [destruct H|].
  destruct H as [->|H]; cbn [sum_subs]; [lia|]. destruct it; specialize (IH H); lia.
Qed.

Theorem stack_is_spec : forall s, run_stack s = spec s.
Proof.
  assert (H : forall n s, size s <= n -> run_stack s = spec s).
  { induction n as [|n IH]; intros [items] Hs; cbn [size] in Hs; [lia|].
    cbn [run_stack spec]. rewrite items_stack_spec. f_equal.
    apply sum_subs_ext. intros s Hin. apply IH. pose proof (size_sub s items Hin). lia. }
  intro s. apply (H (size s)). lia.
Qed.

(* <s><s><e n="5"/></s><e n="1"/><e n="1"/></s>: the duplicates that follow the nested instance are lost *)
Theorem single_counter_refuted :
  exists s, spec s = 1 /\ run_stack s = 1 /\ snd (run_single s) = 0.
Proof. exists (SNode [Sub (SNode [Val 5%Z]); Val 1%Z; Val 1%Z]). repeat split. Qed.

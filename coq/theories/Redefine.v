(* xs:redefine (C09): model of StagedMap.load_redefine / GlobalMaps.load (validators/builders.py) and of the way a
   redefining declaration is built.
   The redefined schema is the document named by the xs:redefine together with everything it includes (its closure);
   a child of xs:redefine is accepted iff its name is already staged by that schema (else "not a redefinition!"), and
   is stacked on the staged item.  A stacked declaration is built from the previous version of the same name (its
   base type / the group it references) and from the current versions of its other references. *)
From XV Require Import Base Staged.

Section Redefine.
Variable payload : Type.
Variable mk : N -> list payload -> payload.            (* base declarations *)
Variable mkr : N -> payload -> list payload -> payload. (* a redefinition: name, previous version, other references *)

(* a document tree: own declarations and included documents *)
Inductive doc := Doc (decls : list decl) (includes : list doc).

Fixpoint closure (d : doc) : list decl :=
  match d with
  | Doc ds incs => ds ++ (fix go (l : list doc) : list decl := match l with [] => [] | x :: r => closure x ++ go r end) incs
  end.
Definition own (d : doc) : list decl := match d with Doc ds _ => ds end.

(* staging: the redefinitions stacked on a staged name, oldest first *)
Definition layers := list (N * list (list N)).
Fixpoint lget (l : layers) (n : N) : list (list N) :=
  match l with [] => [] | (k, v) :: r => if N.eqb k n then v else lget r n end.
Fixpoint lpush (l : layers) (n : N) (deps : list N) : layers :=
  match l with
  | [] => [(n, [deps])]
  | (k, v) :: r => if N.eqb k n then (k, v ++ [deps]) :: r else (k, v) :: lpush r n deps
  end.

Definition staged (base : list decl) (n : N) : bool :=
  match lookup_decl base n with Some _ => true | None => false end.

(* load_redefine for every child of the xs:redefine elements, in order; None = "not a redefinition!" *)
Fixpoint load_redefs (base : list decl) (rs : list decl) (l : layers) : option layers :=
  match rs with
  | [] => Some l
  | r :: rest => if staged base (d_name r) then load_redefs base rest (lpush l (d_name r) (d_deps r)) else None
  end.

(* the schema assembled from a redefined document tree and the children of the xs:redefine elements *)
Definition assemble (d : doc) (rs : list decl) : option (list decl * layers) :=
  match load_redefs (closure d) rs [] with Some l => Some (closure d, l) | None => None end.

(* the variant that looks for the redefined component in the redefined document itself *)
Definition assemble_own (d : doc) (rs : list decl) : option (list decl * layers) :=
  match load_redefs (own d) rs [] with Some l => Some (closure d, l) | None => None end.

(* building: the current version of a name is its last layer applied to the version below it *)
Fixpoint stack (n : N) (p : payload) (ls : list (list payload)) : payload :=
  match ls with [] => p | deps :: r => stack n (mkr n p deps) r end.

Fixpoint evalr (fuel : nat) (base : list decl) (l : layers) (n : N) : option payload :=
  match fuel with
  | 0 => None
  | S f =>
      match lookup_decl base n with
      | None => None
      | Some d =>
          match all_some (map (evalr f base l) (d_deps d)) with
          | None => None
          | Some ps =>
              match all_some (map (fun deps => all_some (map (evalr f base l) deps)) (lget l n)) with
              | Some lps => Some (stack n (mk n ps) lps)
              | None => None
              end
          end
      end
  end.
End Redefine.

From XV Require Import Base Access.

Lemma str_eqb_eq a : forall b, str_eqb a b = true <-> a = b.
Proof.
  induction a as [|x a IH]; intros [|y b]; cbn [str_eqb]; try (split; congruence).
  rewrite andb_true_iff, N.eqb_eq, IH. split; [intros [-> ->]; reflexivity | intro H; injection H; auto].
Qed.

Lemma str_eqb_refl a : str_eqb a a = true.
Proof. now apply str_eqb_eq. Qed.

Lemma startswith_spec p : forall s, startswith p s = true <-> exists r, s = p ++ r.
Proof.
  induction p as [|x p IH]; intro s; cbn [startswith].
  - split; [intros _; exists s; reflexivity | reflexivity].
  - destruct s as [|y s].
    + split; [discriminate | intros [r H]; discriminate].
    + rewrite andb_true_iff, N.eqb_eq, IH. split.
      * intros [-> [r ->]]. exists r. reflexivity.
      * intros [r H]. injection H as -> ->. eauto.
Qed.

Lemma is_prefix_refl l : is_prefix l l = true.
Proof. induction l as [|x l IH]; cbn; [reflexivity | now rewrite str_eqb_refl]. Qed.

Lemma is_prefix_app a b : is_prefix a (a ++ b) = true.
Proof. induction a as [|x a IH]; cbn; [reflexivity | now rewrite str_eqb_refl]. Qed.

Lemma split_aux_app x : forall cur y,
  Forall (fun c => N.eqb c slash = false) x ->
  split_aux cur (x ++ slash :: y) = List.rev (List.rev x ++ cur) :: split_aux [] y.
Proof.
  induction x as [|c x IH]; intros cur y H; cbn [app split_aux].
  - rewrite N.eqb_refl. reflexivity.
  - inversion H as [|? ? Hc Hx]; subst. rewrite Hc, (IH (c :: cur) y Hx). cbn [List.rev].
    now rewrite <- app_assoc.
Qed.

(* general form: splitting x ++ "/" ++ y gives the segments of x followed by those of y *)
Lemma split_aux_cat x : forall cur y,
  split_aux cur (x ++ slash :: y) = split_aux cur x ++ split_aux [] y.
Proof.
  induction x as [|c x IH]; intros cur y; cbn [app split_aux].
  - rewrite N.eqb_refl. reflexivity.
  - destruct (N.eqb c slash); [cbn [app]; f_equal; apply IH | apply IH].
Qed.

Lemma split_cat x y : split (x ++ slash :: y) = split x ++ split y.
Proof. apply split_aux_cat. Qed.

Theorem sandbox_test_sound base url :
  sandbox_test base url = true ->
  is_prefix (split (rstrip_slash base)) (split url) = true \/ url = base.
Proof.
  unfold sandbox_test. intro H. apply orb_prop in H as [H|H].
  - right. now apply str_eqb_eq.
  - left. apply startswith_spec in H as [r ->]. rewrite <- app_assoc. cbn [app].
    rewrite split_cat. apply is_prefix_app.
Qed.

(* when url = base the stripped base is a prefix as well, except for trailing separators *)
Lemma rstrip_rev_prefix s : exists k, s = repeat slash k ++ rstrip_rev s.
Proof.
  induction s as [|c r [k IH]]; [exists 0; reflexivity|].
  cbn [rstrip_rev]. destruct (N.eqb_spec c slash) as [->|Hne].
  - exists (S k). cbn [repeat app]. now f_equal.
  - exists 0. reflexivity.
Qed.

Lemma split_trailing_slashes x k : is_prefix (split x) (split (x ++ repeat slash k)) = true.
Proof.
  destruct k as [|k]; [rewrite app_nil_r; apply is_prefix_refl|].
  cbn [repeat]. rewrite split_cat. apply is_prefix_app.
Qed.

Lemma rev_repeat (c : N) k : List.rev (repeat c k) = repeat c k.
Proof.
  induction k as [|k IH]; [reflexivity|]. cbn [repeat List.rev]. rewrite IH.
  clear. induction k as [|k IH]; [reflexivity|]. cbn [repeat app]. now f_equal.
Qed.

Lemma rstrip_decomp s : exists k, s = rstrip_slash s ++ repeat slash k.
Proof.
  unfold rstrip_slash. remember (List.rev s) as r eqn:Er.
  destruct (rstrip_rev_prefix r) as [k H]. exists k.
  assert (Hs : s = List.rev r) by (rewrite Er; symmetry; apply rev_involutive).
  rewrite Hs at 1. rewrite H at 1. rewrite rev_app_distr, rev_repeat. reflexivity.
Qed.

Theorem decision_sound a base scheme url :
  access_control a base scheme url = true -> confined a base scheme url.
Proof.
  destruct a; cbn [access_control confined]; try tauto; try discriminate.
  - now rewrite negb_true_iff.
  - intro H. apply andb_prop in H as [H1 H2]. split; [exact H1|].
    destruct base as [b|]; [|exact I].
    destruct (sandbox_test_sound b url H2) as [H| ->]; [exact H|].
    destruct (rstrip_decomp b) as [k Hk]. rewrite Hk at 2. apply split_trailing_slashes.
Qed.

Theorem decision_complete_modes a base scheme url :
  a <> ASandbox -> confined a base scheme url -> access_control a base scheme url = true.
Proof.
  destruct a; cbn [access_control confined]; try tauto; try congruence.
  intros _ H. now rewrite H.
Qed.

(* ------------------------------------------------------------------ path normalisation *)
Definition clean_seg (s : str) : Prop := s <> [] /\ s <> dot /\ s <> dotdot.

Lemma norm_segs_clean l : forall acc, Forall clean_seg acc -> Forall clean_seg (norm_segs acc l).
Proof.
  induction l as [|s r IH]; intros acc Ha; cbn [norm_segs].
  - apply Forall_rev. exact Ha.
  - destruct (str_eqb s [] || str_eqb s dot) eqn:E1; [now apply IH|].
    destruct (str_eqb s dotdot) eqn:E2.
    + apply IH. destruct acc; [constructor | now inversion Ha].
    + apply IH. constructor; [|exact Ha]. apply orb_false_iff in E1 as [E0 E1].
      repeat split; intro H; subst s; cbn in *; discriminate.
Qed.

Theorem normalized_no_dotdot l : Forall clean_seg (normalize_segments l).
Proof. apply norm_segs_clean. constructor. Qed.

Lemma norm_segs_of_clean l : Forall clean_seg l -> forall acc, norm_segs acc l = List.rev acc ++ l.
Proof.
  induction 1 as [|s r [H0 [H1 H2]] Hr IH]; intro acc; cbn [norm_segs].
  - now rewrite app_nil_r.
  - assert (E0 : str_eqb s [] = false) by (destruct (str_eqb s []) eqn:E; [apply str_eqb_eq in E; congruence | reflexivity]).
    assert (E1 : str_eqb s dot = false) by (destruct (str_eqb s dot) eqn:E; [apply str_eqb_eq in E; congruence | reflexivity]).
    assert (E2 : str_eqb s dotdot = false) by (destruct (str_eqb s dotdot) eqn:E; [apply str_eqb_eq in E; congruence | reflexivity]).
    rewrite E0, E1, E2. cbn [orb]. rewrite IH. cbn [List.rev]. now rewrite <- app_assoc.
Qed.

Theorem normalize_idem l : normalize_segments (normalize_segments l) = normalize_segments l.
Proof.
  unfold normalize_segments at 1. rewrite norm_segs_of_clean; [reflexivity | apply normalized_no_dotdot].
Qed.

(* the spellings a/./b, a//b, a/x/../b of one path normalise identically *)
Theorem spellings_equal pre x post : clean_seg x ->
  normalize_segments (pre ++ dot :: post) = normalize_segments (pre ++ post) /\
  normalize_segments (pre ++ [] :: post) = normalize_segments (pre ++ post) /\
  normalize_segments (pre ++ x :: dotdot :: post) = normalize_segments (pre ++ post).
Proof.
  intros [H0 [H1 H2]]. unfold normalize_segments.
  assert (G : forall acc tail1 tail2, (forall acc', norm_segs acc' tail1 = norm_segs acc' tail2) ->
              norm_segs acc (pre ++ tail1) = norm_segs acc (pre ++ tail2)).
  { intros acc t1 t2 H. revert acc. induction pre as [|s r IH]; intro acc; cbn [app norm_segs]; [apply H|].
    destruct (str_eqb s [] || str_eqb s dot); [apply IH|]. destruct (str_eqb s dotdot); apply IH. }
  repeat split; apply G; intro acc; cbn [norm_segs].
  - reflexivity.
  - reflexivity.
  - assert (E0 : str_eqb x [] = false) by (destruct (str_eqb x []) eqn:E; [apply str_eqb_eq in E; congruence | reflexivity]).
    assert (E1 : str_eqb x dot = false) by (destruct (str_eqb x dot) eqn:E; [apply str_eqb_eq in E; congruence | reflexivity]).
    assert (E2 : str_eqb x dotdot = false) by (destruct (str_eqb x dotdot) eqn:E; [apply str_eqb_eq in E; congruence | reflexivity]).
    rewrite E0, E1, E2. reflexivity.
Qed.

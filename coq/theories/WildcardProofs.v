From XV Require Import Base Wildcard.

Lemma allowed_mk_not l t n : allowed {| sh := mk_not l; wtns := t |} n = negb (memb n l).
Proof.
  unfold mk_not. destruct l as [|x r]; [reflexivity|]. reflexivity.
Qed.

Ltac rw_memb :=
  repeat (rewrite ?memb_inter, ?memb_diff, ?memb_app, ?memb_remove1, ?memb_filter;
          cbn [memb]).

Ltac split_bools :=
  repeat match goal with
         | |- context [memb ?n ?l] => destruct (memb n l) eqn:?
         end;
  repeat match goal with
         | |- context [N.eqb ?a ?b] => destruct (N.eqb_spec a b)
         end;
  subst; cbn [negb andb orb]; try reflexivity; try congruence; try lia.

Lemma isnil_memb_false {n : N} {l} : isnil l = true -> memb n l = false.
Proof. apply memb_nil_false. Qed.

Lemma seteqb_memb {a b} n : seteqb a b = true -> memb n a = memb n b.
Proof. intro H. now apply seteqb_spec. Qed.

Lemma diff2_spec t l n :
  memb n (diff [0%N; t] l) = (N.eqb n 0 || N.eqb n t) && negb (memb n l).
Proof. rw_memb. split_bools. Qed.

Lemma union_other_list_spec v t st l s :
  union_other_list v t st l = Some s -> forall n, n <> xsi ->
  allowed {| sh := s; wtns := st |} n
  = (N.eqb n xsi || (negb (N.eqb n 0) && negb (N.eqb n t))) || (N.eqb n xsi || memb n l).
Proof.
  unfold union_other_list. intros H n Hn.
  pose proof (diff2_spec t l) as HR. set (R := diff [0%N; t] l) in *. clearbody R.
  destruct (isnil R) eqn:Hnil.
  - injection H as <-. unfold allowed; cbn [sh].
    pose proof (HR n) as Hm. pose proof (HR 0%N) as H0. pose proof (HR t) as Ht.
    rewrite (isnil_memb_false Hnil) in Hm. rewrite (isnil_memb_false Hnil) in H0. rewrite (isnil_memb_false Hnil) in Ht.
    rewrite N.eqb_refl in H0, Ht. rewrite orb_true_r in Ht. cbn [orb andb] in H0, Ht.
    revert Hm. destruct (memb 0 l); [|discriminate]. destruct (memb t l); [|discriminate].
    split_bools.
  - destruct (seteqb R [0%N; t] && N.eqb t st) eqn:Heq.
    + injection H as <-. apply andb_prop in Heq as [Hs Ht].
      apply N.eqb_eq in Ht. subst st. unfold allowed; cbn [sh wtns].
      pose proof (seteqb_memb n Hs) as Hm. rewrite HR in Hm. revert Hm. cbn [memb].
      split_bools.
    + destruct (negb v && negb (seteqb R [0%N])) eqn:Hv; [discriminate|].
      injection H as <-. unfold allowed; cbn [sh]. rewrite HR.
      split_bools.
Qed.

Lemma allowed_other t n : n <> xsi ->
  allowed {| sh := SOther; wtns := t |} n = negb (N.eqb n 0) && negb (N.eqb n t).
Proof. intro H. unfold allowed; cbn. destruct (N.eqb_spec n xsi); [contradiction|reflexivity]. Qed.

Lemma allowed_list l t n : n <> xsi -> allowed {| sh := SList l; wtns := t |} n = memb n l.
Proof. intro H. unfold allowed; cbn. destruct (N.eqb_spec n xsi); [contradiction|reflexivity]. Qed.

Lemma allowed_not l t n : allowed {| sh := SNot l; wtns := t |} n = negb (memb n l).
Proof. reflexivity. Qed.

Lemma allowed_any t n : allowed {| sh := SAny; wtns := t |} n = true.
Proof. reflexivity. Qed.

Ltac norm_allowed Hn :=
  rewrite ?allowed_mk_not, ?allowed_any, ?allowed_not, ?(allowed_other _ _ Hn),
          ?(allowed_list _ _ _ Hn).

Theorem union_spec v a b c :
  wtns a = wtns b -> union v a b = Some c ->
  forall n, n <> xsi -> allowed c n = allowed a n || allowed b n.
Proof.
  intros Ht Hu n Hn. unfold union in Hu.
  destruct (union_sh v a b) as [s|] eqn:E; [|discriminate]. injection Hu as <-.
  destruct a as [sa t], b as [sb t']. cbn [wtns] in *. subst t'.
  unfold union_sh in E; cbn [sh wtns] in E.
  destruct sa as [| |l|l], sb as [| |l'|l'];
    try (injection E as <-; norm_allowed Hn; rw_memb; split_bools; fail).
  - (* SAny, SList *) destruct l'; cbn in E; injection E as <-; reflexivity.
  - (* SOther, SList *)
    destruct l' as [|x r]; [injection E as <-; norm_allowed Hn; rw_memb; split_bools|].
    cbn [ns_eq] in E. rewrite (union_other_list_spec _ _ _ _ _ E n Hn).
    norm_allowed Hn. destruct (N.eqb_spec n xsi); [contradiction|]. reflexivity.
  - (* SList, SOther *)
    cbn [ns_eq] in E. rewrite (union_other_list_spec _ _ _ _ _ E n Hn).
    norm_allowed Hn. destruct (N.eqb_spec n xsi); [contradiction|]. cbn [orb]. apply orb_comm.
  - (* SList, SList *)
    destruct l' as [|x r]; [injection E as <-; norm_allowed Hn; rw_memb; split_bools|].
    cbn [ns_eq] in E. destruct (seteqb l (x :: r)) eqn:Hs; injection E as <-; norm_allowed Hn.
    + rewrite <- (seteqb_memb n Hs). now destruct (memb n l).
    + apply memb_app.
Qed.

Theorem intersection_spec a b :
  wtns a = wtns b ->
  forall n, n <> xsi -> allowed (intersection a b) n = allowed a n && allowed b n.
Proof.
  intros Ht n Hn. unfold intersection.
  destruct a as [sa t], b as [sb t']. cbn [wtns] in *. subst t'.
  unfold inter_sh; cbn [sh wtns].
  destruct sa as [| |l|l], sb as [| |l'|l']; cbn [ns_eq];
    try (norm_allowed Hn; rw_memb; split_bools; fail).
  destruct (seteqb l l') eqn:Hs; norm_allowed Hn; rw_memb.
  - rewrite <- (seteqb_memb n Hs). now destruct (memb n l).
  - reflexivity.
Qed.

Lemma forallb_memb (f : N -> bool) l n : forallb f l = true -> memb n l = true -> f n = true.
Proof. intros H Hn. rewrite forallb_forall in H. apply H. now apply memb_In. Qed.

Theorem restriction_sound_tns a b :
  is_restriction a b = true ->
  forall n, n <> xsi -> allowed a n = true -> allowed b n = true.
Proof.
  intros Hr n Hn.
  destruct a as [sa t], b as [sb t']. cbn [wtns] in *.
  unfold is_restriction in Hr; cbn [sh wtns ns_eq] in Hr.
  destruct sa as [| |l|l], sb as [| |l'|l']; norm_allowed Hn; try discriminate; try tauto.
  - (* SOther, SOther *)
    cbn [andb] in Hr. destruct (N.eqb_spec t t') as [->|]; [tauto | discriminate].
  - (* SOther, SNot *)
    intro Hm. apply negb_true_iff. destruct (memb n l') eqn:Hl'; [|reflexivity].
    rewrite subsetb_spec in Hr. apply Hr in Hl'. revert Hl' Hm. cbn [memb]. split_bools.
  - (* SList, SOther *)
    apply andb_prop in Hr as [H1 H2]. apply negb_true_iff in H1, H2. intro Hm.
    destruct (N.eqb_spec n 0) as [->|]; [congruence|].
    destruct (N.eqb_spec n t') as [->|]; [congruence|]. reflexivity.
  - (* SList, SList *)
    rewrite andb_true_r in Hr.
    assert (Hs : subsetb l l' = true) by (destruct (seteqb l l') eqn:Hs;
      [unfold seteqb in Hs; now apply andb_prop in Hs | exact Hr]).
    intro Hm. rewrite subsetb_spec in Hs. now apply Hs.
  - (* SList, SNot *)
    intro Hm. exact (forallb_memb (fun n => negb (memb n l')) _ _ Hr Hm).
  - (* SNot, SOther *)
    apply andb_prop in Hr as [H1 H2]. intro Hm. apply negb_true_iff in Hm.
    destruct (N.eqb_spec n 0) as [->|]; [congruence|].
    destruct (N.eqb_spec n t') as [->|]; [congruence|]. reflexivity.
  - (* SNot, SNot *)
    intro Hm. apply negb_true_iff in Hm. apply negb_true_iff.
    destruct (memb n l') eqn:Hl'; [|reflexivity].
    rewrite subsetb_spec in Hr. apply Hr in Hl'. congruence.
Qed.

Theorem restriction_sound a b :
  wtns a = wtns b -> is_restriction a b = true ->
  forall n, n <> xsi -> allowed a n = true -> allowed b n = true.
Proof. intros _. apply restriction_sound_tns. Qed.

(* the old rule accepts ##other (target namespace 5) against ##other (target namespace 6): 6 is admitted by the first only *)
Theorem restriction_old_refuted :
  exists a b n, is_restriction_old a b = true /\ is_restriction a b = false /\ n <> xsi /\
                allowed a n = true /\ allowed b n = false.
Proof.
  exists {| sh := SOther; wtns := 5 |}, {| sh := SOther; wtns := 6 |}, 6%N.
  repeat split; try reflexivity. discriminate.
Qed.

Lemma existsb_memb (f : N -> bool) l :
  existsb f l = true <-> exists n, memb n l = true /\ f n = true.
Proof.
  rewrite existsb_exists. split; intros [n [H1 H2]]; exists n; split; auto; now apply memb_In.
Qed.

Definition wfl (w : wc) : Prop :=
  match sh w with SList l => memb xsi l = false | _ => True end.

Lemma memb_neq n x l : memb n l = true -> memb x l = false -> n <> x.
Proof. intros H1 H2 ->. congruence. Qed.

Lemma fresh_spec (L : list N) : exists n, memb n L = false.
Proof. exists (fresh L). apply fresh_not_in. Qed.

Ltac use_fresh L :=
  let n := fresh "n" in let Hn := fresh "Hn" in
  destruct (fresh_spec L) as [n Hn]; exists n; revert Hn; rw_memb.

Theorem overlap_iff a b :
  wtns a = wtns b -> wfl a -> wfl b ->
  (is_overlap a b = true <->
   exists n, n <> xsi /\ allowed a n = true /\ allowed b n = true).
Proof.
  intros Ht Wa Wb.
  destruct a as [sa t], b as [sb t']. cbn [wtns] in *. subst t'.
  unfold wfl in Wa, Wb; cbn [sh] in Wa, Wb.
  unfold is_overlap; cbn [sh wtns ns_eq].
  destruct sa as [| |l|l], sb as [| |l'|l'].
  - (* Any Any *) split; [intros _|reflexivity]. exists 2%N. repeat split; discriminate.
  - (* Any Other *) split; [intros _|reflexivity]. use_fresh [xsi; 0%N; t]. intro Hn.
    assert (n <> xsi) as Hx by (intros ->; revert Hn; split_bools).
    split; [exact Hx|]. norm_allowed Hx. split; [reflexivity|]. revert Hn. split_bools.
  - (* Any List *)
    destruct l' as [|x r]; cbn [orb].
    + split; [discriminate|]. intros [n [Hx [_ H]]]. revert H. norm_allowed Hx. discriminate.
    + split; [intros _|reflexivity]. exists x.
      assert (x <> xsi) as Hx by (intros ->; revert Wb; cbn [memb]; rewrite N.eqb_refl; discriminate).
      split; [exact Hx|]. norm_allowed Hx. cbn [memb]. now rewrite N.eqb_refl.
  - (* Any Not *) split; [intros _|reflexivity]. use_fresh (xsi :: l'). intro Hn.
    assert (n <> xsi) as Hx by (intros ->; revert Hn; split_bools).
    split; [exact Hx|]. norm_allowed Hx. split; [reflexivity|]. revert Hn. split_bools.
  - (* Other Any *) split; [intros _|reflexivity]. use_fresh [xsi; 0%N; t]. intro Hn.
    assert (n <> xsi) as Hx by (intros ->; revert Hn; split_bools).
    split; [exact Hx|]. norm_allowed Hx. split; [|reflexivity]. revert Hn. split_bools.
  - (* Other Other *) split; [intros _|reflexivity]. use_fresh [xsi; 0%N; t]. intro Hn.
    assert (n <> xsi) as Hx by (intros ->; revert Hn; split_bools).
    split; [exact Hx|]. norm_allowed Hx. revert Hn. split_bools.
  - (* Other List *)
    destruct l' as [|x r]; cbn [orb].
    + split; [discriminate|]. intros [n [Hx [_ H]]]. revert H. norm_allowed Hx. discriminate.
    + rewrite existsb_memb. split.
      * intros [n [H1 H2]]. exists n.
        assert (n <> xsi) as Hx by (exact (memb_neq _ _ _ H1 Wb)).
        split; [exact Hx|]. norm_allowed Hx. split; assumption.
      * intros [n [Hx [H1 H2]]]. exists n. revert H1 H2. norm_allowed Hx. auto.
  - (* Other Not *) split; [intros _|reflexivity]. use_fresh (xsi :: 0%N :: t :: l'). intro Hn.
    assert (n <> xsi) as Hx by (intros ->; revert Hn; split_bools).
    split; [exact Hx|]. norm_allowed Hx. revert Hn. split_bools.
  - (* List Any *)
    destruct l as [|x r]; cbn [orb].
    + split; [discriminate|]. intros [n [Hx [H _]]]. revert H. norm_allowed Hx. discriminate.
    + split; [intros _|reflexivity]. exists x.
      assert (x <> xsi) as Hx by (intros ->; revert Wa; cbn [memb]; rewrite N.eqb_refl; discriminate).
      split; [exact Hx|]. norm_allowed Hx. cbn [memb]. now rewrite N.eqb_refl.
  - (* List Other *)
    destruct l as [|x r]; cbn [orb].
    + split; [discriminate|]. intros [n [Hx [H _]]]. revert H. norm_allowed Hx. discriminate.
    + rewrite existsb_memb. split.
      * intros [n [H1 H2]]. exists n.
        assert (n <> xsi) as Hx by (exact (memb_neq _ _ _ H1 Wa)).
        split; [exact Hx|]. norm_allowed Hx. split; assumption.
      * intros [n [Hx [H1 H2]]]. exists n. revert H1 H2. norm_allowed Hx. auto.
  - (* List List *)
    destruct l as [|x r]; cbn [orb].
    { split; [discriminate|]. intros [n [Hx [H _]]]. revert H. norm_allowed Hx. discriminate. }
    destruct l' as [|x' r']; cbn [orb].
    { split; [discriminate|]. intros [n [Hx [_ H]]]. revert H. norm_allowed Hx. discriminate. }
    destruct (seteqb (x :: r) (x' :: r')) eqn:Hs.
    + split; [intros _|reflexivity]. exists x.
      assert (x <> xsi) as Hx by (intros ->; revert Wa; cbn [memb]; rewrite N.eqb_refl; discriminate).
      split; [exact Hx|]. norm_allowed Hx. rewrite <- (seteqb_memb x Hs). cbn [memb].
      now rewrite N.eqb_refl.
    + rewrite existsb_memb. split.
      * intros [n [H1 H2]]. exists n.
        assert (n <> xsi) as Hx by (exact (memb_neq _ _ _ H1 Wb)).
        split; [exact Hx|]. norm_allowed Hx. split; assumption.
      * intros [n [Hx [H1 H2]]]. exists n. revert H1 H2. norm_allowed Hx. auto.
  - (* List Not *)
    rewrite existsb_memb. split.
    + intros [n [H1 H2]]. exists n.
      assert (n <> xsi) as Hx by (exact (memb_neq _ _ _ H1 Wa)).
      split; [exact Hx|]. norm_allowed Hx. split; assumption.
    + intros [n [Hx [H1 H2]]]. exists n. revert H1 H2. norm_allowed Hx. auto.
  - (* Not Any *) split; [intros _|reflexivity]. use_fresh (xsi :: l). intro Hn.
    assert (n <> xsi) as Hx by (intros ->; revert Hn; split_bools).
    split; [exact Hx|]. norm_allowed Hx. split; [|reflexivity]. revert Hn. split_bools.
  - (* Not Other *) split; [intros _|reflexivity]. use_fresh (xsi :: 0%N :: t :: l). intro Hn.
    assert (n <> xsi) as Hx by (intros ->; revert Hn; split_bools).
    split; [exact Hx|]. norm_allowed Hx. revert Hn. split_bools.
  - (* Not List *)
    rewrite existsb_memb. split.
    + intros [n [H1 H2]]. exists n.
      assert (n <> xsi) as Hx by (exact (memb_neq _ _ _ H1 Wb)).
      split; [exact Hx|]. norm_allowed Hx. split; assumption.
    + intros [n [Hx [H1 H2]]]. exists n. revert H1 H2. norm_allowed Hx. auto.
  - (* Not Not *) split; [intros _|reflexivity]. use_fresh (xsi :: l ++ l'). intro Hn.
    assert (n <> xsi) as Hx by (intros ->; revert Hn; split_bools).
    split; [exact Hx|]. norm_allowed Hx. revert Hn. split_bools.
Qed.

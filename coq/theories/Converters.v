(* Converter algebra for property C05.
   JsonML (converters/jsonml.py element_decode / element_encode): an element is the array
       [tag, {attributes}?, text?, child ...]
   the attributes object is present iff there are attributes, the text item iff the value is not None.
   Default / BadgerFish / GData conventions (converters/base.py element_decode): the children are inserted in a
   dictionary keyed by name, a repeated name collects its values in a list at the position of the first
   occurrence; element_encode flattens the dictionary in key order. *)
From XV Require Import Base.

(* ---------------------------------------------------------------- JsonML *)
Inductive xml :=
| Simple (t : N) (a : list (N * N)) (v : option N)     (* simple content (typed value, None when empty / nil) *)
| Complex (t : N) (a : list (N * N)) (cs : list xml)   (* element-only or mixed content *)
| Txt (s : N).                                         (* a character data chunk of mixed content *)

Inductive jv := JStr (s : N) | JObj (a : list (N * N)) | JArr (l : list jv).

Definition jobj (a : list (N * N)) : list jv := match a with [] => [] | _ => [JObj a] end.

Fixpoint jml_decode (x : xml) : jv :=
  match x with
  | Simple t a v => JArr (JStr t :: jobj a ++ match v with Some s => [JStr s] | None => [] end)
  | Complex t a cs => JArr (JStr t :: jobj a ++ map jml_decode cs)
  | Txt s => JStr s
  end.

Fixpoint opt_all {A} (l : list (option A)) : option (list A) :=
  match l with
  | [] => Some []
  | None :: _ => None
  | Some x :: r => match opt_all r with Some xs => Some (x :: xs) | None => None end
  end.

(* `kind t` = the declaration matched by tag t has a simple type (xsd_element.type.simple_type is not None) *)
Definition finish (kind : N -> bool) (t : N) (a : list (N * N)) (items : list jv) (enc : option (list xml)) : option xml :=
  if kind t then
    match items with
    | [] => Some (Simple t a None)
    | [JStr v] => Some (Simple t a (Some v))
    | _ => None
    end
  else match enc with Some cs => Some (Complex t a cs) | None => None end.

Fixpoint jml_encode (kind : N -> bool) (j : jv) : option xml :=
  match j with
  | JStr s => Some (Txt s)
  | JObj _ => None
  | JArr (JStr t :: JObj a :: items) => finish kind t a items (opt_all (map (jml_encode kind) items))
  | JArr (JStr t :: items) => finish kind t [] items (opt_all (map (jml_encode kind) items))
  | JArr _ => None
  end.

Fixpoint wf (kind : N -> bool) (x : xml) : bool :=
  match x with
  | Simple t a v => kind t
  | Complex t a cs => negb (kind t) && forallb (wf kind) cs
  | Txt _ => true
  end.

(* ---------------------------------------------------------------- grouping of same-named children *)
Section Group.
Variable V : Type.

Fixpoint add (k : N) (v : V) (g : list (N * list V)) : list (N * list V) :=
  match g with
  | [] => [(k, [v])]
  | (k', vs) :: r => if N.eqb k' k then (k', vs ++ [v]) :: r else (k', vs) :: add k v r
  end.
Definition addp (g : list (N * list V)) (kv : N * V) := add (fst kv) (snd kv) g.
Definition group (l : list (N * V)) : list (N * list V) := fold_left addp l [].
Definition ungroup (g : list (N * list V)) : list (N * V) :=
  flat_map (fun kvs => map (fun v => (fst kvs, v)) (snd kvs)) g.

(* every name occupies one block *)
Fixpoint contiguous (l : list (N * V)) : bool :=
  match l with
  | [] => true
  | (k, _) :: r =>
      (match r with
       | (k', _) :: _ => N.eqb k k' || negb (memb k (map fst r))
       | [] => true
       end) && contiguous r
  end.
End Group.

(* ---------------------------------------------------------------- key decoration *)
(* names are character lists; an attribute key is prefix ++ name, the text key is a fixed key *)
Inductive slot := Attr (n : list N) | Child (n : list N) | Text.
Definition decorate (prefix textkey : list N) (s : slot) : list N :=
  match s with Attr n => prefix ++ n | Child n => n | Text => textkey end.
Fixpoint starts (p l : list N) : bool :=
  match p, l with
  | [], _ => true
  | x :: p', y :: l' => N.eqb x y && starts p' l'
  | _ :: _, [] => false
  end.
Fixpoint leqb (a b : list N) : bool :=
  match a, b with
  | [], [] => true
  | x :: a', y :: b' => N.eqb x y && leqb a' b'
  | _, _ => false
  end.
(* side condition of the conventions: child names neither start with the attribute prefix nor equal the text key,
   and the text key does not start with the attribute prefix *)
Definition slot_ok (prefix textkey : list N) (s : slot) : bool :=
  match s with
  | Child n => negb (starts prefix n) && negb (leqb n textkey)
  | _ => true
  end.

(* ---------------------------------------------------------------- default convention: single values and lists *)
(* converters/base.py element_decode (after fix ebb313b): the first occurrence of a child is stored as a bare value
   when its particle is single (and force_list is off), otherwise in a list; later occurrences turn a bare value into
   a list or are appended.  element_encode flattens the dictionary in key order. *)
Section Items.
Variable V : Type.
Variable single : N -> bool.      (* has_single_group && xsd_child.is_single() *)
Variable force_list : bool.

Inductive item := One (v : V) | Many (vs : list V).

Fixpoint addi (k : N) (v : V) (g : list (N * item)) : list (N * item) :=
  match g with
  | [] => [(k, if single k && negb force_list then One v else Many [v])]
  | (k', it) :: r =>
      if N.eqb k' k then (k', match it with One v0 => Many [v0; v] | Many vs => Many (vs ++ [v]) end) :: r
      else (k', it) :: addi k v r
  end.
Definition decode_children (l : list (N * V)) : list (N * item) :=
  fold_left (fun g kv => addi (fst kv) (snd kv) g) l [].
Definition encode_children (g : list (N * item)) : list (N * V) :=
  flat_map (fun ki => match snd ki with One v => [(fst ki, v)] | Many vs => map (fun v => (fst ki, v)) vs end) g.

(* the shape of a group of occurrences *)
Definition wrap (kvs : N * list V) : N * item :=
  match snd kvs with
  | [v] => (fst kvs, if single (fst kvs) && negb force_list then One v else Many [v])
  | vs => (fst kvs, Many vs)
  end.
End Items.
Arguments One {V} v.
Arguments Many {V} vs.

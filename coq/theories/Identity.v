(* Identity constraints: the table logic of xmlschema/validators/identities.py
   (IdentityCounter / KeyrefCounter), XsdElement.collect_key_fields and the ID/IDREF bookkeeping.
   A selected node contributes a tuple of optional field values; values are value-space
   identifiers (Z) chosen by the harness, so that lexical variants of one value coincide. *)
From XV Require Import Base.
From Coq Require Import Permutation.

Definition tuple := list (option Z).
Definition ctuple := list Z.     (* complete tuple *)

Fixpoint complete (t : tuple) : option ctuple :=
  match t with
  | [] => Some []
  | None :: _ => None
  | Some v :: r => match complete r with Some c => Some (v :: c) | None => None end
  end.

Definition ct_eq_dec : forall a b : ctuple, {a = b} + {a <> b} := list_eq_dec Z.eq_dec.
Definition ct_mem (a : ctuple) (l : list ctuple) : bool := if in_dec ct_eq_dec a l then true else false.

(* qualified node set: tuples with all fields present *)
Fixpoint qualified (ts : list tuple) : list ctuple :=
  match ts with
  | [] => []
  | t :: r => match complete t with Some c => c :: qualified r | None => qualified r end
  end.
Definition incomplete (ts : list tuple) : list tuple :=
  filter (fun t => match complete t with None => true | Some _ => false end) ts.

(* IdentityCounter.increase: an error when the count of a value becomes exactly 2 *)
Fixpoint dup_errors_from (seen : list ctuple) (l : list ctuple) : list ctuple :=
  match l with
  | [] => []
  | x :: r => if Nat.eqb (count_occ ct_eq_dec seen x) 1
              then x :: dup_errors_from (x :: seen) r
              else dup_errors_from (x :: seen) r
  end.
Definition dup_errors (l : list ctuple) : list ctuple := dup_errors_from [] l.

Inductive ierr := Dup (v : ctuple) | Missing (t : tuple) | Dangling (v : ctuple).

Definition unique_errors (ts : list tuple) : list ierr := map Dup (dup_errors (qualified ts)).
(* key: a selected node with a missing field is an error; complete tuples must be distinct *)
Definition key_errors (ts : list tuple) : list ierr :=
  map Missing (incomplete ts) ++ map Dup (dup_errors (qualified ts)).

Fixpoint nodup_keep (l : list ctuple) (seen : list ctuple) : list ctuple :=
  match l with
  | [] => []
  | x :: r => if ct_mem x seen then nodup_keep r seen else x :: nodup_keep r (x :: seen)
  end.
(* KeyrefCounter.iter_errors: one error per distinct tuple absent from the referred table *)
Definition keyref_errors (refer : list ctuple) (ts : list tuple) : list ierr :=
  map Dangling (nodup_keep (filter (fun v => negb (ct_mem v refer)) (qualified ts)) []).

(* one scope instance: key table, unique table, keyref table referring to the key *)
Record scope := { s_key : list tuple; s_unique : list tuple; s_keyref : list tuple }.
Definition scope_errors (s : scope) : list ierr :=
  key_errors (s_key s) ++ unique_errors (s_unique s) ++ keyref_errors (qualified (s_key s)) (s_keyref s).
Definition doc_errors (ss : list scope) : list ierr := flat_map scope_errors ss.

(* ID / IDREF: ids in document order, idrefs anywhere *)
Definition z_mem (a : Z) (l : list Z) : bool := if in_dec Z.eq_dec a l then true else false.
Fixpoint zdup (seen l : list Z) : bool :=
  match l with [] => false | x :: r => z_mem x seen || zdup (x :: seen) r end.
Definition ids_ok (ids refs : list Z) : bool :=
  negb (zdup [] ids) && forallb (fun r => z_mem r ids) refs.

(* ---------------------------------------------------------------- key references across levels *)
(* XSD (3.11.4, node tables): a keyref declared on an ancestor of the key's scope element refers to the union of the
   key tables of the scope instances below it, without the values that occur in more than one of them. *)
Definition count_tables (v : ctuple) (tables : list (list ctuple)) : nat :=
  length (filter (ct_mem v) tables).
Definition propagated (tables : list (list ctuple)) : list ctuple :=
  filter (fun v => Nat.eqb (count_tables v tables) 1) (concat tables).
Definition ancestor_keyref_errors (tables : list (list ctuple)) (ts : list tuple) : list ierr :=
  keyref_errors (propagated tables) ts.
(* identities.py KeyrefCounter.iter_errors uses the counter of the referred constraint, which is reset for every
   scope instance: only the last instance's table is visible from the ancestor *)
Definition last_table_keyref_errors (tables : list (list ctuple)) (ts : list tuple) : list ierr :=
  keyref_errors (last tables []) ts.

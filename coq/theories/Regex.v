(* Regular expressions with interleave (shuffle) over an abstract alphabet, their language
   (declarative, inductive), Brzozowski derivatives and a matcher proved correct.
   Generic in the alphabet A, the leaf type L and the leaf matching predicate. *)
From XV Require Import Base.

Section Regex.
Variable A : Type.
Variable L : Type.
Variable lmatch : L -> A -> bool.

Inductive re :=
| Emp | Eps | Atom (l : L) | Cat (r s : re) | Alt (r s : re) | Star (r : re) | Shuf (r s : re).

Inductive interleave : list A -> list A -> list A -> Prop :=
| I_nil : interleave [] [] []
| I_l x u v w : interleave u v w -> interleave (x :: u) v (x :: w)
| I_r x u v w : interleave u v w -> interleave u (x :: v) (x :: w).

Inductive lang : re -> list A -> Prop :=
| LEps : lang Eps []
| LAtom l x : lmatch l x = true -> lang (Atom l) [x]
| LCat r s u v : lang r u -> lang s v -> lang (Cat r s) (u ++ v)
| LAltL r s w : lang r w -> lang (Alt r s) w
| LAltR r s w : lang s w -> lang (Alt r s) w
| LStar0 r : lang (Star r) []
| LStarS r u v : lang r u -> lang (Star r) v -> lang (Star r) (u ++ v)
| LShuf r s u v w : lang r u -> lang s v -> interleave u v w -> lang (Shuf r s) w.

Fixpoint nullable (r : re) : bool :=
  match r with
  | Emp => false | Eps => true | Atom _ => false
  | Cat r s => nullable r && nullable s
  | Alt r s => nullable r || nullable s
  | Star _ => true
  | Shuf r s => nullable r && nullable s
  end.

(* smart constructors: unit / zero laws only (language preserving, keep terms small) *)
Definition cat (r s : re) : re :=
  match r, s with
  | Emp, _ => Emp | _, Emp => Emp
  | Eps, _ => s | _, Eps => r
  | _, _ => Cat r s
  end.
Definition alt (r s : re) : re :=
  match r, s with
  | Emp, _ => s | _, Emp => r
  | _, _ => Alt r s
  end.
Definition shuf (r s : re) : re :=
  match r, s with
  | Emp, _ => Emp | _, Emp => Emp
  | Eps, _ => s | _, Eps => r
  | _, _ => Shuf r s
  end.

Fixpoint deriv (x : A) (r : re) : re :=
  match r with
  | Emp => Emp | Eps => Emp
  | Atom l => if lmatch l x then Eps else Emp
  | Cat r s => if nullable r then alt (cat (deriv x r) s) (deriv x s) else cat (deriv x r) s
  | Alt r s => alt (deriv x r) (deriv x s)
  | Star r => cat (deriv x r) (Star r)
  | Shuf r s => alt (shuf (deriv x r) s) (shuf r (deriv x s))
  end.

Definition derivs (w : list A) (r : re) : re := fold_left (fun r x => deriv x r) w r.
Definition matches (r : re) (w : list A) : bool := nullable (derivs w r).

(* ------------------------------------------------------------------ interleave facts *)
Lemma interleave_nil_l v : interleave [] v v.
Proof. induction v; constructor; auto. Qed.
Lemma interleave_nil_r u : interleave u [] u.
Proof. induction u; constructor; auto. Qed.
Lemma interleave_nil_inv u v : interleave u v [] -> u = [] /\ v = [].
Proof. intro H. inversion H; auto. Qed.
Lemma interleave_nil_l_inv v w : interleave [] v w -> v = w.
Proof.
  intro H. remember [] as u eqn:E. induction H; try discriminate; auto.
  f_equal. auto.
Qed.
Lemma interleave_nil_r_inv u w : interleave u [] w -> u = w.
Proof.
  intro H. remember [] as v eqn:E. induction H; try discriminate; auto.
  f_equal. auto.
Qed.

(* ------------------------------------------------------------------ inversion lemmas *)
Lemma lang_Emp w : ~ lang Emp w.
Proof. intro H. inversion H. Qed.
Lemma lang_Eps w : lang Eps w <-> w = [].
Proof. split; intro H; [inversion H; auto | subst; constructor]. Qed.
Lemma lang_Cat r s w : lang (Cat r s) w <-> exists u v, w = u ++ v /\ lang r u /\ lang s v.
Proof.
  split.
  - intro H. inversion H; subst. eauto.
  - intros (u & v & -> & H1 & H2). now constructor.
Qed.
Lemma lang_Alt r s w : lang (Alt r s) w <-> lang r w \/ lang s w.
Proof.
  split.
  - intro H. inversion H; subst; auto.
  - intros [H|H]; [now apply LAltL | now apply LAltR].
Qed.
Lemma lang_Shuf r s w :
  lang (Shuf r s) w <-> exists u v, lang r u /\ lang s v /\ interleave u v w.
Proof.
  split.
  - intro H. inversion H; subst. eauto.
  - intros (u & v & H1 & H2 & H3). econstructor; eauto.
Qed.

Lemma lang_cat r s w : lang (cat r s) w <-> lang (Cat r s) w.
Proof.
  rewrite lang_Cat. unfold cat.
  destruct r; destruct s; try (rewrite lang_Cat; reflexivity);
    try (split; [intro H; now apply lang_Emp in H
                | intros (u & v & _ & H1 & H2); first [now apply lang_Emp in H1 | now apply lang_Emp in H2]]);
    try (split; [intro H; exists [], w; repeat split; [constructor | exact H]
                | intros (u & v & -> & H1 & H2); apply lang_Eps in H1; subst; exact H2]);
    try (split; [intro H; exists w, []; rewrite app_nil_r; repeat split; [exact H | constructor]
                | intros (u & v & -> & H1 & H2); apply lang_Eps in H2; subst; rewrite app_nil_r; exact H1]).
Qed.

Lemma lang_alt r s w : lang (alt r s) w <-> lang (Alt r s) w.
Proof.
  rewrite lang_Alt. unfold alt.
  destruct r; destruct s; try (rewrite lang_Alt; reflexivity);
    try (split; [intro H; auto | intros [H|H]; [now apply lang_Emp in H | exact H]]);
    try (split; [intro H; auto | intros [H|H]; [exact H | now apply lang_Emp in H]]).
Qed.

Lemma lang_shuf r s w : lang (shuf r s) w <-> lang (Shuf r s) w.
Proof.
  rewrite lang_Shuf. unfold shuf.
  destruct r; destruct s; try (rewrite lang_Shuf; reflexivity);
    try (split; [intro H; now apply lang_Emp in H
                | intros (u & v & H1 & H2 & _); first [now apply lang_Emp in H1 | now apply lang_Emp in H2]]);
    try (split; [intro H; exists [], w; repeat split; [constructor | exact H | apply interleave_nil_l]
                | intros (u & v & H1 & H2 & H3); apply lang_Eps in H1; subst;
                  apply interleave_nil_l_inv in H3; subst; exact H2]);
    try (split; [intro H; exists w, []; repeat split; [exact H | constructor | apply interleave_nil_r]
                | intros (u & v & H1 & H2 & H3); apply lang_Eps in H2; subst;
                  apply interleave_nil_r_inv in H3; subst; exact H1]).
Qed.

(* ------------------------------------------------------------------ nullable *)
Lemma nullable_spec r : nullable r = true <-> lang r [].
Proof.
  induction r as [| |l|r IHr s IHs|r IHr s IHs|r IHr|r IHr s IHs]; cbn [nullable].
  - split; [discriminate | intro H; now apply lang_Emp in H].
  - split; [constructor | reflexivity].
  - split; [discriminate | intro H; inversion H].
  - rewrite andb_true_iff, IHr, IHs, lang_Cat. split.
    + intros [H1 H2]. exists [], []. auto.
    + intros (u & v & E & H1 & H2). symmetry in E. apply app_eq_nil in E as [-> ->]. auto.
  - rewrite orb_true_iff, IHr, IHs, lang_Alt. reflexivity.
  - split; [constructor | reflexivity].
  - rewrite andb_true_iff, IHr, IHs, lang_Shuf. split.
    + intros [H1 H2]. exists [], []. repeat split; auto. constructor.
    + intros (u & v & H1 & H2 & H3). apply interleave_nil_inv in H3 as [-> ->]. auto.
Qed.

(* ------------------------------------------------------------------ derivative *)
Lemma lang_Star_cons r x w :
  lang (Star r) (x :: w) -> exists u v, w = u ++ v /\ lang r (x :: u) /\ lang (Star r) v.
Proof.
  intro H. remember (Star r) as s eqn:Es. remember (x :: w) as xw eqn:Ew.
  revert x w Ew. induction H; intros x0 w0 Ew; try discriminate.
  injection Es as ->.
  destruct u as [|y u'].
  - cbn in Ew. apply IHlang2; auto.
  - cbn in Ew. injection Ew as -> <-. exists u', v. auto.
Qed.

Lemma deriv_spec x r : forall w, lang (deriv x r) w <-> lang r (x :: w).
Proof.
  induction r as [| |l|r IHr s IHs|r IHr s IHs|r IHr|r IHr s IHs]; intro w; cbn [deriv].
  - split; intro H; inversion H.
  - split; intro H; inversion H.
  - destruct (lmatch l x) eqn:E.
    + rewrite lang_Eps. split; [intros ->; now constructor | intro H; inversion H; reflexivity].
    + split; [intro H; inversion H | intro H; inversion H; congruence].
  - assert (HC : lang (cat (deriv x r) s) w <->
                 exists u v, w = u ++ v /\ lang r (x :: u) /\ lang s v).
    { rewrite lang_cat, lang_Cat. split; intros (u & v & E & H1 & H2); exists u, v;
        repeat split; auto; now apply IHr. }
    rewrite lang_Cat.
    destruct (nullable r) eqn:En.
    + rewrite lang_alt, lang_Alt, HC, IHs. split.
      * intros [(u & v & -> & H1 & H2) | H].
        -- exists (x :: u), v. auto.
        -- exists [], (x :: w). repeat split; auto. now apply nullable_spec.
      * intros (u & v & E & H1 & H2). destruct u as [|y u'].
        -- cbn in E. subst v. right. exact H2.
        -- cbn in E. injection E as <- ->. left. exists u', v. auto.
    + rewrite HC. split.
      * intros (u & v & -> & H1 & H2). exists (x :: u), v. auto.
      * intros (u & v & E & H1 & H2). destruct u as [|y u'].
        -- apply nullable_spec in H1. congruence.
        -- cbn in E. injection E as <- ->. exists u', v. auto.
  - rewrite lang_alt, !lang_Alt, IHr, IHs. reflexivity.
  - rewrite lang_cat, lang_Cat. split.
    + intros (u & v & -> & H1 & H2). apply IHr in H1.
      change (x :: u ++ v) with ((x :: u) ++ v). now constructor.
    + intro H. apply lang_Star_cons in H as (u & v & -> & H1 & H2).
      exists u, v. repeat split; auto. now apply IHr.
  - rewrite lang_alt, lang_Alt, !lang_shuf, !lang_Shuf. split.
    + intros [(u & v & H1 & H2 & H3) | (u & v & H1 & H2 & H3)].
      * exists (x :: u), v. repeat split; auto. now apply IHr. now constructor.
      * exists u, (x :: v). repeat split; auto. now apply IHs. now constructor.
    + intros (u & v & H1 & H2 & H3). inversion H3; subst.
      * left. eexists _, v. repeat split; eauto. now apply IHr.
      * right. eexists u, _. repeat split; eauto. now apply IHs.
Qed.

Lemma derivs_spec w : forall r v, lang (derivs w r) v <-> lang r (w ++ v).
Proof.
  induction w as [|x w IH]; intros r v; cbn [derivs fold_left app]; [reflexivity|].
  fold (derivs w (deriv x r)). rewrite IH. apply deriv_spec.
Qed.

Theorem matches_correct r w : matches r w = true <-> lang r w.
Proof.
  unfold matches. rewrite nullable_spec, derivs_spec, app_nil_r. reflexivity.
Qed.


Lemma lang_Star_congr r s :
  (forall w, lang r w <-> lang s w) -> forall w, lang (Star r) w <-> lang (Star s) w.
Proof.
  assert (H : forall r s, (forall w, lang r w <-> lang s w) ->
                          forall w, lang (Star r) w -> lang (Star s) w).
  { clear r s. intros r s E w H. remember (Star r) as t eqn:Et.
    induction H; try discriminate.
    - constructor.
    - injection Et as ->. constructor; [now apply E | now apply IHlang2]. }
  intros E w. split; apply H; [exact E | intro; symmetry; apply E].
Qed.

Lemma interleave_app u v : interleave u v (u ++ v).
Proof. induction u as [|x u IH]; cbn; [apply interleave_nil_l | now constructor]. Qed.

Lemma interleave_Forall (P : A -> Prop) u v w :
  interleave u v w -> (Forall P w <-> Forall P u /\ Forall P v).
Proof.
  induction 1 as [|x u v w H IH|x u v w H IH].
  - split; auto.
  - split.
    + intro F. inversion F; subst. apply IH in H3 as [H3 H4]. split; [constructor|]; auto.
    + intros [F1 F2]. inversion F1; subst. constructor; [auto | apply IH; auto].
  - split.
    + intro F. inversion F; subst. apply IH in H3 as [H3 H4]. split; [|constructor]; auto.
    + intros [F1 F2]. inversion F2; subst. constructor; [auto | apply IH; auto].
Qed.

End Regex.

Arguments Emp {L}.
Arguments Eps {L}.
Arguments Atom {L} l.
Arguments Cat {L} r s.
Arguments Alt {L} r s.
Arguments Star {L} r.
Arguments Shuf {L} r s.

(* Model of the namespace constraint of XSD wildcards (xmlschema/validators/wildcards.py):
   XsdWildcard.is_namespace_allowed / union / intersection / is_restriction (namespace part)
   and XsdAnyElement.is_overlap.

   Representation.  Python keeps two sets, `namespace` (may contain the tokens '##any' and
   '##other') and `not_namespace`; the code tests `if self.not_namespace:` first, then
   `'##any' in self.namespace`, then `'##other' in self.namespace`, else list membership.
   The four reachable shapes are therefore
        SNot l (l non-empty) | SAny | SOther | SList l          (SList [] is namespace="")
   Namespaces are interned as N: 0 = '' (absent namespace), 1 = the XSI namespace.
   [wtns] is the target namespace of the schema that owns the wildcard. *)
From XV Require Import Base.

Inductive shape := SAny | SOther | SList (l : list N) | SNot (l : list N).
Record wc := { sh : shape; wtns : N }.

Definition xsi : N := 1%N.

Definition allowed (w : wc) (n : N) : bool :=
  match sh w with
  | SNot l => negb (memb n l)
  | SAny => true
  | SOther => N.eqb n xsi || (negb (N.eqb n 0) && negb (N.eqb n (wtns w)))
  | SList l => N.eqb n xsi || memb n l
  end.

(* `self.not_namespace = s; if not self.not_namespace: namespace = {'##any'}` *)
Definition mk_not (l : list N) : shape := if isnil l then SAny else SNot l.

(* Python `self.namespace == other.namespace` on the positive shapes *)
Definition ns_eq (a b : shape) : bool :=
  match a, b with
  | SAny, SAny => true
  | SOther, SOther => true
  | SList l, SList l' => seteqb l l'
  | _, _ => false
  end.

(* union of a ##other wildcard (target namespace t) with a namespace list l:
   the namespaces that stay excluded are {'', t} - l *)
Definition union_other_list (v11 : bool) (t : N) (self_tns : N) (l : list N) : option shape :=
  let remaining := diff [0%N; t] l in
  if isnil remaining then Some SAny
  else if seteqb remaining [0%N; t] && N.eqb t self_tns then Some SOther
  else if negb v11 && negb (seteqb remaining [0%N]) then None   (* 1.0: not expressible *)
  else Some (SNot remaining).

Definition union_sh (v11 : bool) (a b : wc) : option shape :=
  match sh a, sh b with
  | SNot l, SNot l' => Some (mk_not (inter l l'))
  | SNot _, SAny => Some SAny
  | SNot l, SOther => Some (mk_not (inter l [0%N; wtns b]))
  | SNot l, SList l' => Some (mk_not (diff l l'))
  | SAny, SNot _ => Some SAny
  | SOther, SNot l' => Some (mk_not (inter l' [0%N; wtns a]))
  | SList l, SNot l' => Some (mk_not (diff l' l))
  | sa, sb =>
      if (match sb with SList [] => true | _ => false end) then Some sa
      else if (match sa with SAny => true | _ => false end) then Some sa
      else if ns_eq sa sb then Some sa
      else match sa, sb with
           | _, SAny => Some SAny
           | SList l, SOther => union_other_list v11 (wtns b) (wtns a) l
           | SOther, SList l' => union_other_list v11 (wtns a) (wtns a) l'
           | SList l, SList l' => Some (SList (l ++ l'))
           | _, _ => Some sa      (* unreachable: SOther/SOther is caught by ns_eq *)
           end
  end.

Definition union (v11 : bool) (a b : wc) : option wc :=
  match union_sh v11 a b with
  | Some s => Some {| sh := s; wtns := wtns a |}
  | None => None
  end.

Definition inter_sh (a b : wc) : shape :=
  match sh a, sh b with
  | SNot l, SNot l' => SNot (l ++ l')
  | SNot l, SAny => SNot l
  | SNot l, SList l' => SList (diff l' l)
  | SNot l, SOther => SNot (0%N :: wtns b :: l)
  | SAny, SNot l' => SNot l'
  | SList l, SNot l' => SList (diff l l')
  | SOther, SNot l' => SNot (0%N :: wtns b :: l')
  | sa, sb =>
      if ns_eq sa sb then sa
      else match sa, sb with
           | _, SAny => sa
           | SAny, _ => sb
           | SOther, SList l' => SList (remove1 0%N (remove1 (wtns b) l'))
           | SList l, SList l' => SList (inter l l')
           | SList l, SOther => SList (remove1 0%N (remove1 (wtns b) l))
           | _, _ => sa
           end
  end.

Definition intersection (a b : wc) : wc := {| sh := inter_sh a b; wtns := wtns a |}.

(* namespace part of XsdWildcard.is_restriction(self=a, other=b); the two wildcards may belong to schema documents with
   different target namespaces (a type restricting a type of an imported namespace) *)
Definition is_restriction (a b : wc) : bool :=
  match sh a, sh b with
  | SNot l, SNot l' => subsetb l' l
  | SNot _, SAny => true
  | SNot l, SOther => memb 0%N l && memb (wtns b) l
  | SNot _, SList _ => false
  | SAny, SNot _ => false
  | SOther, SNot l' => subsetb l' [0%N; wtns a]
  | SList l, SNot l' => forallb (fun n => negb (memb n l')) l
  | sa, sb =>
      if ns_eq sa sb && (match sa with SOther => N.eqb (wtns a) (wtns b) | _ => true end) then true
      else match sa, sb with
           | _, SAny => true
           | SAny, _ => false
           | SOther, _ => false
           | SList l, SOther => negb (memb (wtns b) l) && negb (memb 0%N l)
           | SList l, SList l' => subsetb l l'
           | _, _ => false
           end
  end.

(* the rule before repo fix beb3bf4: two ##other wildcards were equal whatever their target namespaces, and a ##other
   against a notNamespace base was judged with the target namespace of the base *)
Definition is_restriction_old (a b : wc) : bool :=
  match sh a, sh b with
  | SOther, SNot l' => subsetb l' [0%N; wtns b]
  | SOther, SOther => true
  | _, _ => is_restriction a b
  end.

(* XsdAnyElement.is_overlap(self=a, other=b), both wildcards *)
Definition is_overlap (a b : wc) : bool :=
  match sh a, sh b with
  | SNot _, SNot _ => true
  | SNot _, SAny => true
  | SNot _, SOther => true
  | SNot l, SList l' => existsb (fun n => negb (memb n l)) l'
  | SAny, SNot _ => true
  | SOther, SNot _ => true
  | SList l, SNot l' => existsb (fun n => negb (memb n l')) l
  | sa, sb =>
      if (match sa with SList [] => true | _ => false end)
         || (match sb with SList [] => true | _ => false end) then false
      else if ns_eq sa sb then true
      else match sa, sb with
           | SAny, _ => true
           | _, SAny => true
           | SOther, SList l' => existsb (fun n => negb (N.eqb n 0) && negb (N.eqb n (wtns a))) l'
           | SList l, SOther => existsb (fun n => negb (N.eqb n 0) && negb (N.eqb n (wtns b))) l
           | SList l, SList l' => existsb (fun n => memb n l) l'
           | _, _ => true
           end
  end.

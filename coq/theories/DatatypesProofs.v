From XV Require Import Base Datatypes.
From Coq Require Import DecimalN DecimalPos DecimalFacts.

(* ------------------------------------------------------------------ numerals *)
Lemma uint_roundtrip u : uint_of_digits (digits_of_uint u) = Some u.
Proof. induction u; cbn [digits_of_uint uint_of_digits]; try rewrite IHu; reflexivity. Qed.

Lemma to_uint_nonnil (n : N) : N.to_uint n <> Decimal.Nil.
Proof. destruct n; cbn; [discriminate | apply DecimalPos.Unsigned.to_uint_nonnil]. Qed.

Lemma print_N_nonempty n : print_N n <> [].
Proof.
  unfold print_N. pose proof (to_uint_nonnil n) as H. destruct (N.to_uint n); cbn; congruence.
Qed.

Theorem nat_roundtrip n : nat_of_str (print_N n) = Some n.
Proof.
  unfold nat_of_str. pose proof (print_N_nonempty n) as Hn.
  destruct (print_N n) as [|c r] eqn:E; [congruence|]. rewrite <- E. unfold print_N.
  rewrite uint_roundtrip. now rewrite DecimalN.Unsigned.of_to.
Qed.

Lemma uint_digits s u : uint_of_digits s = Some u -> Forall (fun c => is_digit c = true) s.
Proof.
  revert u. induction s as [|c r IH]; intros u H; [constructor|].
  cbn [uint_of_digits] in H. destruct (uint_of_digits r) as [u'|]; [|discriminate].
  constructor; [|eapply IH; reflexivity].
  unfold is_digit.
  destruct c as [|p]; [discriminate|].
  do 6 (destruct p as [p|p|]; try discriminate; try reflexivity).
Qed.

Lemma digits_uint s : Forall (fun c => is_digit c = true) s -> exists u, uint_of_digits s = Some u.
Proof.
  induction 1 as [|c r Hc Hr [u IH]]; [exists Decimal.Nil; reflexivity|].
  cbn [uint_of_digits]. rewrite IH. unfold is_digit in Hc. apply andb_prop in Hc as [H1 H2].
  apply N.leb_le in H1, H2.
  assert (Hcases : (c = 48 \/ c = 49 \/ c = 50 \/ c = 51 \/ c = 52 \/ c = 53 \/ c = 54 \/ c = 55 \/ c = 56 \/ c = 57)%N) by lia.
  destruct Hcases as [->|[->|[->|[->|[->|[->|[->|[->|[->| ->]]]]]]]]]; eauto.
Qed.

Theorem nat_of_str_lex s :
  nat_of_str s <> None <-> s <> [] /\ Forall (fun c => is_digit c = true) s.
Proof.
  unfold nat_of_str. destruct s as [|c r].
  - split; [congruence | intros [H _]; congruence].
  - split.
    + intro H. split; [discriminate|]. destruct (uint_of_digits (c :: r)) as [u|] eqn:E; [|congruence].
      eapply uint_digits; eauto.
    + intros [_ H]. destruct (digits_uint _ H) as [u ->]. discriminate.
Qed.

Theorem integer_roundtrip z : int_of_str (print_integer z) = Some z.
Proof.
  unfold print_integer. destruct (Z.ltb_spec z 0) as [Hneg|Hpos].
  - cbn [int_of_str]. rewrite nat_roundtrip. f_equal. rewrite Z2N.id; lia.
  - unfold int_of_str. pose proof (nat_roundtrip (Z.to_N z)) as Hr.
    pose proof (print_N_nonempty (Z.to_N z)) as Hn.
    destruct (print_N (Z.to_N z)) as [|c r] eqn:E; [congruence|].
    assert (Hd : is_digit c = true).
    { assert (H : nat_of_str (c :: r) <> None) by congruence.
      apply nat_of_str_lex in H as [_ H]. now inversion H. }
    unfold is_digit in Hd. apply andb_prop in Hd as [H1 H2]. apply N.leb_le in H1, H2.
    destruct (N.eqb_spec c 43); [lia|]. destruct (N.eqb_spec c 45); [lia|].
    destruct c as [|p]; [lia|].
    assert (Hc : forall A (x y d : A), match N.pos p with 43%N => x | 45%N => y | _ => d end = d).
    { intros. do 6 (destruct p as [p|p|]; try reflexivity; try lia). }
    rewrite Hc, Hr. f_equal. rewrite Z2N.id; lia.
Qed.

Theorem integer_decode_encode_decode s v :
  int_of_str s = Some v -> int_of_str (print_integer v) = Some v.
Proof. intros _. apply integer_roundtrip. Qed.

Theorem integer_lex s :
  int_of_str s <> None <->
  exists sg ds, s = sg ++ ds /\ (sg = [] \/ sg = [43%N] \/ sg = [45%N]) /\
                ds <> [] /\ Forall (fun c => is_digit c = true) ds.
Proof.
  split.
  - intro H. unfold int_of_str in H.
    destruct s as [|c r].
    + cbn in H. congruence.
    + destruct (N.eqb_spec c 43) as [->|N43].
      * destruct (nat_of_str r) eqn:E; [|congruence].
        exists [43%N], r. repeat split; auto. 1,2: apply nat_of_str_lex; congruence.
      * destruct (N.eqb_spec c 45) as [->|N45].
        -- destruct (nat_of_str r) eqn:E; [|congruence].
           exists [45%N], r. repeat split; auto. 1,2: apply nat_of_str_lex; congruence.
        -- assert (Hm : nat_of_str (c :: r) <> None).
           { destruct c as [|p]; [destruct (nat_of_str (0%N :: r)); congruence|].
             do 6 (destruct p as [p|p|]; try (destruct (nat_of_str (_ :: r)); congruence)); congruence. }
           exists [], (c :: r). repeat split; auto. 1,2: apply nat_of_str_lex; exact Hm.
  - intros (sg & ds & -> & Hs & Hne & Hd).
    assert (Hn : nat_of_str ds <> None) by (apply nat_of_str_lex; auto).
    destruct Hs as [->|[->| ->]]; cbn [app].
    + unfold int_of_str. destruct ds as [|c r]; [congruence|].
      inversion Hd as [|? ? Hc _]; subst. unfold is_digit in Hc. apply andb_prop in Hc as [H1 H2].
      apply N.leb_le in H1, H2. destruct c as [|p]; [lia|].
      assert (Hc : forall A (x y d : A), match N.pos p with 43%N => x | 45%N => y | _ => d end = d).
      { intros. do 6 (destruct p as [p|p|]; try reflexivity; try lia). }
      rewrite Hc. destruct (nat_of_str (N.pos p :: r)); congruence.
    + cbn [int_of_str]. destruct (nat_of_str ds); congruence.
    + cbn [int_of_str]. destruct (nat_of_str ds); congruence.
Qed.

Theorem boolean_roundtrip b : bool_of_str (print_boolean b) = Some b.
Proof. destruct b; reflexivity. Qed.

(* ------------------------------------------------------------------ bounded integer types *)
Theorem bounded_iff lo hi s z :
  decode (TBounded lo hi) s = Some (VInt z) <-> int_of_str (ws_collapse s) = Some z /\ (lo <= z <= hi)%Z.
Proof.
  cbn [decode]. destruct (int_of_str (ws_collapse s)) as [z'|].
  2: { split; [discriminate | intros [H _]; discriminate]. }
  destruct (Z.leb_spec lo z') as [H1|H1], (Z.leb_spec z' hi) as [H2|H2]; cbn [andb]; split.
  - intro H. injection H as <-. split; [reflexivity | lia].
  - intros [H _]. injection H as <-. reflexivity.
  - discriminate.
  - intros [H Hr]. injection H as <-. lia.
  - discriminate.
  - intros [H Hr]. injection H as <-. lia.
  - discriminate.
  - intros [H Hr]. injection H as <-. lia.
Qed.

Theorem bounded_inclusion lo hi lo' hi' s v :
  (lo' <= lo)%Z -> (hi <= hi')%Z ->
  decode (TBounded lo hi) s = Some v -> decode (TBounded lo' hi') s = Some v.
Proof.
  intros H1 H2. cbn [decode]. destruct (int_of_str (ws_collapse s)) as [z|]; [|discriminate].
  destruct (Z.leb_spec lo z), (Z.leb_spec z hi); cbn [andb]; try discriminate. intros <-.
  destruct (Z.leb_spec lo' z), (Z.leb_spec z hi'); cbn [andb]; try reflexivity; lia.
Qed.

Theorem bounded_is_integer lo hi s v : decode (TBounded lo hi) s = Some v -> decode TInteger s = Some v.
Proof.
  cbn [decode]. destruct (int_of_str (ws_collapse s)) as [z|]; [|discriminate].
  destruct (_ && _); [auto | discriminate].
Qed.

(* ------------------------------------------------------------------ composition laws *)
Theorem restriction_conj base m fs s v :
  decode (TRestrict base m fs) s = Some v <->
  decode base (normalize m s) = Some v /\ forallb (facet_ok v) fs = true.
Proof.
  cbn [decode]. destruct (decode base (normalize m s)) as [v'|].
  - destruct (forallb (facet_ok v') fs) eqn:E; split.
    + intro H. injection H as <-. auto.
    + intros [H _]. exact H.
    + discriminate.
    + intros [H H2]. injection H as <-. congruence.
  - split; [discriminate | intros [H _]; discriminate].
Qed.

Theorem restriction_narrows base m fs s : valid (TRestrict base m fs) s = true -> valid base (normalize m s) = true.
Proof.
  unfold valid. destruct (decode (TRestrict base m fs) s) as [v|] eqn:E; [|discriminate].
  apply restriction_conj in E as [-> _]. reflexivity.
Qed.

Lemma all_some_spec {A} (l : list (option A)) xs :
  all_some l = Some xs <-> Forall2 (fun o x => o = Some x) l xs.
Proof.
  revert xs. induction l as [|o r IH]; intro xs; cbn [all_some].
  - split; [intro H; injection H as <-; constructor | intro H; inversion H; reflexivity].
  - destruct o as [x|].
    + destruct (all_some r) as [ys|] eqn:E.
      * split.
        -- intro H. injection H as <-. constructor; [reflexivity | now apply IH].
        -- intro H. inversion H as [|? y ? ys' Hx Hr]; subst. injection Hx as <-.
           apply IH in Hr. injection Hr as <-. reflexivity.
      * split; [discriminate|]. intro H. inversion H as [|? y ? ys' Hx Hr]; subst.
        apply IH in Hr. discriminate.
    + split; [discriminate | intro H; inversion H; discriminate].
Qed.

Theorem list_itemwise item s vs :
  decode (TList item) s = Some (VList vs) <->
  Forall2 (fun tok v => decode item tok = Some v) (split_ws s) vs.
Proof.
  cbn [decode]. destruct (all_some (map (decode item) (split_ws s))) as [xs|] eqn:E.
  - apply all_some_spec in E. split.
    + intro H. injection H as <-. clear -E. remember (split_ws s) as toks. clear Heqtoks.
      revert xs E. induction toks as [|t r IH]; intros xs E; inversion E; subst; constructor; auto.
    + intro H. f_equal. f_equal. clear -E H. remember (split_ws s) as toks. clear Heqtoks.
      revert xs vs E H. induction toks as [|t r IH]; intros xs vs E H; inversion E; inversion H; subst; auto.
      f_equal; [congruence | eapply IH; eauto].
  - split; [discriminate|]. intro H. exfalso.
    assert (Hx : all_some (map (decode item) (split_ws s)) = Some vs).
    { apply all_some_spec. clear -H. induction H; cbn [map]; constructor; auto. }
    congruence.
Qed.

Theorem union_first a b s v :
  decode (TUnion a b) s = Some v <->
  decode a s = Some v \/ (decode a s = None /\ decode b s = Some v).
Proof.
  cbn [decode]. destruct (decode a s) as [va|]; split.
  - intro H. now left.
  - intros [H|[H _]]; [exact H | discriminate].
  - intro H. right. auto.
  - intros [H|[_ H]]; [discriminate | exact H].
Qed.

(* ------------------------------------------------------------------ dates *)
Lemma date_try_fields y0 s k y m d :
  date_try y0 s k = Some (y, m, d) -> (1 <= m <= 12)%N /\ (1 <= d <= days_in_month y m)%N.
Proof.
  unfold date_try.
  destruct (Nat.ltb (length s) (k + 6 + 4)); [discriminate|].
  destruct (take_until_dash_from (length s - k - 6) s) as [yp rest].
  destruct rest as [|c1 rest]; [discriminate|].
  destruct (N.eqb_spec c1 45) as [->|Hc1].
  2: { destruct c1 as [|p]; [discriminate|].
       do 6 (destruct p as [p|p|]; try discriminate). congruence. }
  destruct rest as [|mo1 [|mo2 [|c2 rest]]]; try discriminate.
  destruct (N.eqb_spec c2 45) as [->|Hc2].
  2: { destruct c2 as [|p]; [discriminate|].
       do 6 (destruct p as [p|p|]; try discriminate). congruence. }
  destruct rest as [|da1 [|da2 tz]]; try discriminate.
  destruct (tz_ok tz && Nat.eqb (length tz) k); [|discriminate].
  destruct (year_of_str y0 yp) as [yy|]; [|discriminate].
  destruct (two_digits mo1 mo2) as [mm|]; [|discriminate].
  destruct (two_digits da1 da2) as [dd|]; [|discriminate].
  destruct (N.leb_spec 1 mm) as [L1|L1], (N.leb_spec mm 12) as [L2|L2], (N.leb_spec 1 dd) as [L3|L3],
    (N.leb_spec dd (days_in_month yy mm)) as [L4|L4]; cbn [andb]; try discriminate.
  intro HH. injection HH as <- <- <-. lia.
Qed.

Theorem date_fields y0 s y m d :
  date_of_str y0 s = Some (y, m, d) -> (1 <= m <= 12)%N /\ (1 <= d <= days_in_month y m)%N.
Proof.
  unfold date_of_str.
  destruct (date_try y0 s 0) eqn:E0; [intro H; injection H as ->; now apply (date_try_fields _ _ _ _ _ _ E0)|].
  destruct (date_try y0 s 1) eqn:E1; [intro H; injection H as ->; now apply (date_try_fields _ _ _ _ _ _ E1)|].
  apply date_try_fields.
Qed.

Theorem leap_rule y : leap y = true <-> ((y mod 4 = 0 /\ y mod 100 <> 0) \/ y mod 400 = 0)%Z.
Proof.
  unfold leap. rewrite orb_true_iff, andb_true_iff, negb_true_iff, !Z.eqb_eq, Z.eqb_neq. reflexivity.
Qed.

(* ------------------------------------------------------------------ whitespace *)
Definition nonws (c : N) : Prop := is_ws c = false.
Definition tok_ok (t : str) : Prop := t <> [] /\ Forall nonws t.

Lemma split_aux_tokens s : forall cur, Forall nonws cur -> Forall tok_ok (split_ws_aux cur s).
Proof.
  induction s as [|c r IH]; intros cur Hc; cbn [split_ws_aux].
  - destruct cur as [|x cur']; [constructor|]. constructor; [|constructor]. split.
    + intro E. apply (f_equal (@length N)) in E. rewrite List.rev_length in E. discriminate.
    + apply Forall_rev. exact Hc.
  - destruct (is_ws c) eqn:Ew.
    + destruct cur as [|x cur']; [apply IH; constructor|].
      constructor; [|apply IH; constructor]. split.
      * intro E. apply (f_equal (@length N)) in E. rewrite List.rev_length in E. discriminate.
      * apply Forall_rev. exact Hc.
    + apply IH. constructor; assumption.
Qed.

Lemma split_aux_app t : Forall nonws t -> forall cur rest,
  split_ws_aux cur (t ++ rest) = split_ws_aux (List.rev t ++ cur) rest.
Proof.
  induction 1 as [|c r Hc Hr IH]; intros cur rest; [reflexivity|].
  cbn [app split_ws_aux]. unfold nonws in Hc. rewrite Hc, IH. cbn [rev]. now rewrite <- List.app_assoc.
Qed.

Lemma split_join l : Forall tok_ok l -> split_ws (join_sp l) = l.
Proof.
  unfold split_ws. induction 1 as [|t r [Hne Ht] Hr IH]; [reflexivity|].
  destruct r as [|t2 r'].
  - cbn [join_sp]. rewrite <- (List.app_nil_r t) at 1. rewrite (split_aux_app t Ht), List.app_nil_r.
    cbn [split_ws_aux]. destruct (List.rev t) eqn:E.
    + apply (f_equal (@length N)) in E. rewrite List.rev_length in E. destruct t; [congruence | discriminate].
    + rewrite <- E, List.rev_involutive. reflexivity.
  - change (join_sp (t :: t2 :: r')) with (t ++ 32%N :: join_sp (t2 :: r')).
    rewrite (split_aux_app t Ht), List.app_nil_r. cbn [split_ws_aux].
    change (is_ws 32) with true. cbn match.
    destruct (List.rev t) eqn:E.
    + apply (f_equal (@length N)) in E. rewrite List.rev_length in E. destruct t; [congruence | discriminate].
    + rewrite <- E, List.rev_involutive. f_equal. exact IH.
Qed.

Theorem collapse_shape s : exists l, ws_collapse s = join_sp l /\ Forall tok_ok l.
Proof. exists (split_ws s). split; [reflexivity | apply split_aux_tokens; constructor]. Qed.

Theorem collapse_idem s : ws_collapse (ws_collapse s) = ws_collapse s.
Proof.
  unfold ws_collapse. rewrite split_join; [reflexivity | apply split_aux_tokens; constructor].
Qed.

Theorem replace_idem s : ws_replace (ws_replace s) = ws_replace s.
Proof.
  unfold ws_replace. rewrite map_map. apply map_ext. intro c.
  destruct (is_ws c) eqn:E; [reflexivity | now rewrite E].
Qed.

Theorem collapse_tokens_stable s : split_ws (ws_collapse s) = split_ws s.
Proof. unfold ws_collapse. apply split_join. apply split_aux_tokens. constructor. Qed.

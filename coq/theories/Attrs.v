(* Attribute-group validation: model of XsdAttributeGroup.raw_decode, XsdAttribute.raw_decode and
   XsdAnyAttribute.raw_decode (xmlschema/validators/attributes.py, wildcards.py), after the fix that
   routes a prohibited attribute admitted by the wildcard to the wildcard.
   Names are pairs (namespace id, local id); lexical values and types are interned. *)
From XV Require Import Base Wildcard.

Definition name := (N * N)%type.
Definition name_eqb (a b : name) : bool := N.eqb (fst a) (fst b) && N.eqb (snd a) (snd b).

Inductive use := Required | Optional | Prohibited.
Record adecl := { a_name : name; a_use : use; a_fixed : option N; a_default : option N; a_ty : N }.
Inductive pc := Strict | Lax | Skip.
Record agroup := { decls : list adecl; wild : option (wc * pc) }.

(* environment: value table (type, lexical) -> canonical value id when the lexical is valid;
   global attribute declarations; namespaces for which a schema is loaded *)
Record env := { vtab : list (N * N * N); globals : list adecl; known_ns : list N }.

Fixpoint vlookup (t : list (N * N * N)) (ty lex : N) : option N :=
  match t with
  | [] => None
  | (ty', lex', v) :: r => if N.eqb ty ty' && N.eqb lex lex' then Some v else vlookup r ty lex
  end.
Definition canon (e : env) (ty lex : N) : option N := vlookup (vtab e) ty lex.

Fixpoint find_decl (ds : list adecl) (n : name) : option adecl :=
  match ds with
  | [] => None
  | d :: r => if name_eqb (a_name d) n then Some d else find_decl r n
  end.

Inductive aerr := EMissing (n : name) | EProhibited (n : name) | EType (n : name) | EFixed (n : name)
                | ENotAllowed (n : name) | ENotFound (n : name) | EUnavailable (n : name).

(* XsdAttribute.raw_decode on a present value *)
Definition decl_errors (e : env) (d : adecl) (n : name) (v : N) : list aerr :=
  (match a_fixed d with
   | Some f => if N.eqb v f then []
               else match canon e (a_ty d) v, canon e (a_ty d) f with
                    | Some x, Some y => if N.eqb x y then [] else [EFixed n]
                    | _, _ => [EFixed n]
                    end
   | None => []
   end)
  ++ (match canon e (a_ty d) v with Some _ => [] | None => [EType n] end).

(* XsdAnyAttribute.raw_decode *)
Definition wild_errors (e : env) (w : wc) (p : pc) (n : name) (v : N) : list aerr :=
  (if allowed w (fst n) then [] else [ENotAllowed n])
  ++ match p with
     | Skip => []
     | _ =>
         if memb (fst n) (known_ns e) then
           match find_decl (globals e) n with
           | Some g => decl_errors e g n v
           | None => match p with Strict => [ENotFound n] | _ => [] end
           end
         else match p with Strict => [EUnavailable n] | _ => [] end
     end.

Definition attr_errors (e : env) (g : agroup) (nv : name * N) : list aerr :=
  let '(n, v) := nv in
  match find_decl (decls g) n with
  | Some d =>
      match a_use d, a_fixed d with
      | Prohibited, None =>
          match wild g with
          | Some (w, p) => if allowed w (fst n) then wild_errors e w p n v
                           else EProhibited n :: decl_errors e d n v
          | None => EProhibited n :: decl_errors e d n v
          end
      | _, _ => decl_errors e d n v
      end
  | None =>
      match wild g with
      | Some (w, p) => wild_errors e w p n v
      | None => [ENotAllowed n]
      end
  end.

Definition present (attrs : list (name * N)) (n : name) : bool :=
  existsb (fun nv => name_eqb (fst nv) n) attrs.

Definition missing_errors (g : agroup) (attrs : list (name * N)) : list aerr :=
  flat_map (fun d => match a_use d with
                     | Required => if present attrs (a_name d) then [] else [EMissing (a_name d)]
                     | _ => []
                     end) (decls g).

Definition validate_attrs (e : env) (g : agroup) (attrs : list (name * N)) : list aerr :=
  missing_errors g attrs ++ flat_map (attr_errors e g) attrs.

(* names of absent attributes that appear in decoded data *)
Definition filled (g : agroup) (use_defaults fill_missing : bool) (attrs : list (name * N)) : list name :=
  flat_map (fun d =>
    if present attrs (a_name d) then []
    else match a_fixed d, a_default d with
         | Some _, _ => [a_name d]
         | None, Some _ => if use_defaults || fill_missing then [a_name d] else []
         | None, None => if fill_missing then [a_name d] else []
         end) (decls g).

(* ------------------------------------------------------------------ the property, as a predicate *)
Definition decl_ok (e : env) (d : adecl) (v : N) : Prop :=
  (exists x, canon e (a_ty d) v = Some x) /\
  (forall f, a_fixed d = Some f ->
     v = f \/ exists x, canon e (a_ty d) v = Some x /\ canon e (a_ty d) f = Some x).

Definition wild_admits (e : env) (w : wc) (p : pc) (n : name) (v : N) : Prop :=
  allowed w (fst n) = true /\
  match p with
  | Skip => True
  | Lax => memb (fst n) (known_ns e) = true -> forall g, find_decl (globals e) n = Some g -> decl_ok e g v
  | Strict => memb (fst n) (known_ns e) = true /\ exists g, find_decl (globals e) n = Some g /\ decl_ok e g v
  end.

Definition attr_ok (e : env) (g : agroup) (n : name) (v : N) : Prop :=
  match find_decl (decls g) n with
  | Some d =>
      match a_use d, a_fixed d with
      | Prohibited, None => exists w p, wild g = Some (w, p) /\ wild_admits e w p n v
      | _, _ => decl_ok e d v
      end
  | None => exists w p, wild g = Some (w, p) /\ wild_admits e w p n v
  end.

Definition attrs_valid_spec (e : env) (g : agroup) (attrs : list (name * N)) : Prop :=
  (forall d, In d (decls g) -> a_use d = Required -> present attrs (a_name d) = true) /\
  (forall n v, In (n, v) attrs -> attr_ok e g n v).

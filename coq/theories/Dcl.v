(* Double-checked locking of XsdGlobals.build (validators/xsd_globals.py):

     if self._built: return                         P0   (fast check, no lock)
     with self._build_lock:                         P1   (acquire; blocked while another thread holds it)
         if self._built: return                     P2   (second check, lock held)
         self.clear(); ... load / build / check     P3 k (B body steps left: k; the maps are complete after B steps)
         self._built = True                         P4
         for s in schemas: s.clear(); check         P5 k (T tail steps after the flag)
                                                    P6   (release)
                                                    PD   (returned)

   Any number of threads (thread ids are natural numbers, every thread starts at P0), any schedule (a list of
   thread ids; scheduling a blocked or finished thread is a no-op). *)
From XV Require Import Base.

Inductive pc := P0 | P1 | P2 | P3 (k : nat) | P4 | P5 (k : nat) | P6 | PD.

Definition locked_pc (p : pc) : bool := match p with P2 | P3 _ | P4 | P5 _ | P6 => true | _ => false end.
Definition body_pc (p : pc) : bool := match p with P3 _ | P4 => true | _ => false end.

Record state := { pcs : nat -> pc; built : bool; lock : option nat; maps : nat; builds : nat }.

Definition upd (f : nat -> pc) (t : nat) (p : pc) : nat -> pc := fun u => if Nat.eqb u t then p else f u.

Section Dcl.
Variable B T : nat.

Definition init : state := {| pcs := fun _ => P0; built := false; lock := None; maps := 0; builds := 0 |}.

Definition setpc (s : state) (t : nat) (p : pc) : state :=
  {| pcs := upd (pcs s) t p; built := built s; lock := lock s; maps := maps s; builds := builds s |}.

Definition step (s : state) (t : nat) : state :=
  match pcs s t with
  | P0 => if built s then setpc s t PD else setpc s t P1
  | P1 => match lock s with
          | None => {| pcs := upd (pcs s) t P2; built := built s; lock := Some t; maps := maps s; builds := builds s |}
          | Some _ => s
          end
  | P2 => if built s then setpc s t P6
          else {| pcs := upd (pcs s) t (P3 B); built := false; lock := lock s; maps := 0; builds := S (builds s) |}
  | P3 (S k) => {| pcs := upd (pcs s) t (P3 k); built := built s; lock := lock s; maps := S (maps s); builds := builds s |}
  | P3 0 => setpc s t P4
  | P4 => {| pcs := upd (pcs s) t (P5 T); built := true; lock := lock s; maps := maps s; builds := builds s |}
  | P5 (S k) => setpc s t (P5 k)
  | P5 0 => setpc s t P6
  | P6 => {| pcs := upd (pcs s) t PD; built := built s; lock := None; maps := maps s; builds := builds s |}
  | PD => s
  end.

Definition run (s : state) (sched : list nat) : state := fold_left step sched s.

Definition Inv (s : state) : Prop :=
  (forall t, locked_pc (pcs s t) = true -> lock s = Some t) /\
  (forall t, match pcs s t with
             | P3 k => built s = false /\ builds s = 1 /\ maps s + k = B
             | P4 => built s = false /\ builds s = 1 /\ maps s = B
             | P5 _ | P6 | PD => built s = true
             | _ => True
             end) /\
  (built s = true -> builds s = 1 /\ maps s = B) /\
  (built s = false -> builds s = 0 \/ exists t, body_pc (pcs s t) = true).

(* the seeded variant: the flag is raised E steps before the end of the body *)
Definition step_early (E : nat) (s : state) (t : nat) : state :=
  match pcs s t with
  | P3 (S k) => {| pcs := upd (pcs s) t (P3 k); built := built s || Nat.eqb k E; lock := lock s;
                   maps := S (maps s); builds := builds s |}
  | _ => step s t
  end.
End Dcl.

(* observable summary of a state for a finite set of threads *)
Definition pc_code (p : pc) : nat :=
  match p with P0 => 0 | P1 => 1 | P2 => 2 | P3 _ => 3 | P4 => 4 | P5 _ => 5 | P6 => 6 | PD => 7 end.
Definition summary (n : nat) (s : state) : list nat * bool * nat * nat :=
  (map (fun t => pc_code (pcs s t)) (seq 0 n), built s, builds s, maps s).

(* C14: leaf restriction predicates as the code computes them, bounded-exact language inclusion
   for content models, and the monotonicity facts the group case analysis relies on. *)
From XV Require Import Base Regex Particle ParticleProofs Wildcard WildcardProofs Attrs.

(* ParticleMixin.has_occurs_restriction(self=(mn1,mx1), other=(mn2,mx2)) *)
Definition occurs_restriction (mn1 : nat) (mx1 : option nat) (mn2 : nat) (mx2 : option nat) : bool :=
  if Nat.ltb mn1 mn2 then false
  else match mx1, mx2 with
       | Some 0, _ => true
       | _, None => true
       | None, Some _ => false
       | Some a, Some b => Nat.leb a b
       end.

(* attribute use in a restriction (after the fix): a non-optional base use must be kept *)
Definition use_eqb (a b : use) : bool :=
  match a, b with Required, Required => true | Optional, Optional => true | Prohibited, Prohibited => true | _, _ => false end.
Definition attr_use_restriction (base derived : use) : bool :=
  match base with Optional => true | _ => use_eqb derived base end.
Definition use_admits (u : use) (present : bool) : bool :=
  match u with Required => present | Optional => true | Prohibited => negb present end.

(* processContents of a wildcard restriction: strict <= lax <= skip *)
Definition pc_restriction (derived base : pc) : bool :=
  match base, derived with
  | Strict, Strict => true | Strict, _ => false
  | Lax, Skip => false | Lax, _ => true
  | Skip, _ => true
  end.
Definition pc_checks_value (p : pc) : nat := match p with Strict => 2 | Lax => 1 | Skip => 0 end.

(* all words over sigma up to length n *)
Fixpoint words_len (sigma : list N) (n : nat) : list (list N) :=
  match n with
  | 0 => [[]]
  | S k => flat_map (fun x => map (cons x) (words_len sigma k)) sigma
  end.
Definition words_upto (sigma : list N) (n : nat) : list (list N) :=
  flat_map (words_len sigma) (seq 0 (S n)).

Definition incl_upto (sigma : list N) (n : nat) (d b : part) : bool :=
  forallb (fun w => implb (accepts d w) (accepts b w)) (words_upto sigma n).
(* first counterexample word, if any *)
Definition incl_counterexample (sigma : list N) (n : nat) (d b : part) : option (list N) :=
  find (fun w => accepts d w && negb (accepts b w)) (words_upto sigma n).

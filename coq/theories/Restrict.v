(* C14: leaf restriction predicates as the code computes them, bounded-exact language inclusion
   for content models, and the monotonicity facts the group case analysis relies on. *)
From XV Require Import Base Regex Particle ParticleProofs Wildcard WildcardProofs Attrs.

(* ParticleMixin.has_occurs_restriction(self=(mn1,mx1), other=(mn2,mx2)) *)
Definition occurs_restriction (mn1 : nat) (mx1 : option nat) (mn2 : nat) (mx2 : option nat) : bool :=
  if Nat.ltb mn1 mn2 then false
  else match mx1, mx2 with
       | Some 0, _ => true
       | _, None => true
       | None, Some _ => false
       | Some a, Some b => Nat.leb a b
       end.

(* attribute use in a restriction (after the fix): a non-optional base use must be kept *)
Definition use_eqb (a b : use) : bool :=
  match a, b with Required, Required => true | Optional, Optional => true | Prohibited, Prohibited => true | _, _ => false end.
Definition attr_use_restriction (base derived : use) : bool :=
  match base with Optional => true | _ => use_eqb derived base end.
Definition use_admits (u : use) (present : bool) : bool :=
  match u with Required => present | Optional => true | Prohibited => negb present end.

(* processContents of a wildcard restriction: strict <= lax <= skip *)
Definition pc_restriction (derived base : pc) : bool :=
  match base, derived with
  | Strict, Strict => true | Strict, _ => false
  | Lax, Skip => false | Lax, _ => true
  | Skip, _ => true
  end.
Definition pc_checks_value (p : pc) : nat := match p with Strict => 2 | Lax => 1 | Skip => 0 end.

(* all words over sigma up to length n *)
Fixpoint words_len (sigma : list N) (n : nat) : list (list N) :=
  match n with
  | 0 => [[]]
  | S k => flat_map (fun x => map (cons x) (words_len sigma k)) sigma
  end.
Definition words_upto (sigma : list N) (n : nat) : list (list N) :=
  flat_map (words_len sigma) (seq 0 (S n)).

Definition incl_upto (sigma : list N) (n : nat) (d b : part) : bool :=
  forallb (fun w => implb (accepts d w) (accepts b w)) (words_upto sigma n).
(* first counterexample word, if any *)
Definition incl_counterexample (sigma : list N) (n : nat) (d b : part) : option (list N) :=
  find (fun w => accepts d w && negb (accepts b w)) (words_upto sigma n).

(* ---- a group restricting one element particle -------------------------------------------------------------
   XsdGroup.is_element_restriction, sequence case (XSD 1.1; groups.py, after fix cfec1b5): every item of the derived
   sequence is a leaf that cannot occur (maxOccurs = 0) or matches only what the base element matches, and the summed
   occurrences lie within the base element's range. *)
Definition item := (leaf * nat * option nat)%type.
Definition it_leaf (i : item) : leaf := fst (fst i).
Definition it_min (i : item) : nat := snd (fst i).
Definition it_max (i : item) : option nat := snd i.

Fixpoint items_parts (pid : nat) (its : list item) : parts :=
  match its with
  | [] => PNil
  | i :: r => PCons (PLeaf pid (it_leaf i) (it_min i) (it_max i)) (items_parts (S pid) r)
  end.

Definition leaf_subb (l l' : leaf) : bool :=
  match l, l' with
  | Pos a, Pos b => forallb (fun x => memb x b) a
  | Pos a, Neg b => forallb (fun x => negb (memb x b)) a
  | Neg a, Neg b => forallb (fun x => memb x a) b
  | Neg _, Pos _ => false
  end.

Definition sum_min (its : list item) : nat := fold_right (fun i a => it_min i + a) 0 its.
Fixpoint sum_max (its : list item) : option nat :=
  match its with
  | [] => Some 0
  | i :: r => match it_max i, sum_max r with Some a, Some b => Some (a + b) | _, _ => None end
  end.
Definition max_le (a b : option nat) : bool :=
  match b with None => true | Some n => match a with Some m => Nat.leb m n | None => false end end.

Definition item_ok (l' : leaf) (i : item) : bool :=
  match it_max i with Some 0 => true | _ => leaf_subb (it_leaf i) l' end.

Definition elem_restriction (its : list item) (l' : leaf) (mn' : nat) (mx' : option nat) : bool :=
  forallb (item_ok l') its && Nat.leb mn' (sum_min its) && max_le (sum_max its) mx'.

(* the rule before the fix: every optional item was accepted, whatever it matches *)
Definition item_ok_old (l' : leaf) (i : item) : bool :=
  match it_min i with 0 => true | _ => leaf_subb (it_leaf i) l' end.
Definition elem_restriction_old (its : list item) (l' : leaf) (mn' : nat) (mx' : option nat) : bool :=
  forallb (item_ok_old l') its && Nat.leb mn' (sum_min its) && max_le (sum_max its) mx'.

From XV Require Import Base Regex Particle Upa.

(* ------------------------------------------------------------ re_cmp = Eq is equality *)
Lemma list_cmp_eq a : forall b, list_cmp a b = Eq -> a = b.
Proof.
  induction a as [|x a IH]; intros [|y b]; cbn; try discriminate; auto.
  destruct (N.compare_spec x y) as [E|E|E]; try discriminate. intro H0. subst. f_equal. auto.
Qed.
Lemma leaf_cmp_eq a b : leaf_cmp a b = Eq -> a = b.
Proof. destruct a, b; cbn; try discriminate; intro H; f_equal; now apply list_cmp_eq. Qed.
Lemma pl_cmp_eq a b : pl_cmp a b = Eq -> a = b.
Proof.
  destruct a as [p l], b as [q l']. unfold pl_cmp; cbn.
  destruct (Nat.compare_spec p q) as [E|E|E]; try discriminate. intro H0. subst. f_equal. now apply leaf_cmp_eq.
Qed.
Lemma re_cmp_eq a : forall b, re_cmp a b = Eq -> a = b.
Proof.
  induction a as [| |x|a1 IH1 a2 IH2|a1 IH1 a2 IH2|a1 IH1|a1 IH1 a2 IH2];
    intros [| |y|b1 b2|b1 b2|b1|b1 b2]; cbn; try discriminate; auto.
  - intro H. f_equal. now apply pl_cmp_eq.
  - destruct (re_cmp a1 b1) eqn:E; try discriminate. intro H. f_equal; auto.
  - destruct (re_cmp a1 b1) eqn:E; try discriminate. intro H. f_equal; auto.
  - intro H. f_equal; auto.
  - destruct (re_cmp a1 b1) eqn:E; try discriminate. intro H. f_equal; auto.
Qed.
Lemma re_eqb_eq a b : re_eqb a b = true -> a = b.
Proof. unfold re_eqb. destruct (re_cmp a b) eqn:E; try discriminate. intros _. now apply re_cmp_eq. Qed.
Lemma re_mem_In a l : re_mem a l = true -> In a l.
Proof.
  unfold re_mem. rewrite existsb_exists. intros [x [H1 H2]]. apply re_eqb_eq in H2. now subst.
Qed.

(* ------------------------------------------------------------ ACI normalisation keeps the language *)
Lemma insert_In x l z : In z (insert x l) <-> z = x \/ In z l.
Proof.
  induction l as [|y l IH]; cbn [insert].
  - cbn. intuition.
  - destruct (re_cmp x y) eqn:E.
    + apply re_cmp_eq in E. subst. cbn. intuition.
    + cbn. intuition.
    + cbn [In]. rewrite IH. intuition.
Qed.
Lemma sortu_In l z : In z (sortu l) <-> In z l.
Proof.
  unfold sortu. induction l as [|x l IH]; cbn [fold_right]; [reflexivity|].
  rewrite insert_In, IH. cbn. intuition.
Qed.
Lemma rebuild_lang l w : mlang (rebuild l) w <-> exists r, In r l /\ mlang r w.
Proof.
  induction l as [|x l IH]; cbn [rebuild].
  - split; [intro H; now apply lang_Emp in H | intros [r [[] _]]].
  - destruct l as [|y l'].
    + split; [intro H; exists x; cbn; auto | intros [r [[<-|[]] H]]; exact H].
    + rewrite lang_Alt, IH. split.
      * intros [H | [r [H1 H2]]]; [exists x; cbn; auto | exists r; split; [right; exact H1 | exact H2]].
      * intros [r [[<-|H1] H2]]; [left; exact H2 | right; exists r; auto].
Qed.
Lemma flatten_lang a w : (exists r, In r (flatten a) /\ mlang r w) <-> mlang a w.
Proof.
  induction a as [| |x|a1 IH1 a2 IH2|a1 IH1 a2 IH2|a1 IH1|a1 IH1 a2 IH2]; cbn [flatten];
    try (split; [intros [r [[<-|[]] H]]; exact H | intro H; eexists; split; [left; reflexivity | exact H]]).
  - split; [intros [r [[] _]] | intro H; now apply lang_Emp in H].
  - rewrite lang_Alt, <- IH1, <- IH2. split.
    + intros [r [H1 H2]]. apply in_app_or in H1 as [H1|H1]; [left | right]; eauto.
    + intros [[r [H1 H2]] | [r [H1 H2]]]; exists r; split; auto; apply in_or_app; auto.
Qed.
Lemma nalt_lang a b w : mlang (nalt a b) w <-> mlang a w \/ mlang b w.
Proof.
  unfold nalt. rewrite rebuild_lang, <- (flatten_lang a), <- (flatten_lang b). split.
  - intros [r [H1 H2]]. rewrite sortu_In in H1. apply in_app_or in H1 as [H1|H1]; [left | right]; eauto.
  - intros [[r [H1 H2]] | [r [H1 H2]]]; exists r; split; auto; rewrite sortu_In; apply in_or_app; auto.
Qed.
Lemma norm_lang r : forall w, mlang (norm r) w <-> mlang r w.
Proof.
  induction r as [| |x|a1 IH1 a2 IH2|a1 IH1 a2 IH2|a1 IH1|a1 IH1 a2 IH2]; intro w; cbn [norm];
    try reflexivity.
  - rewrite lang_cat, !lang_Cat. split; intros (u & v & E & H1 & H2); exists u, v;
      repeat split; auto; first [now apply IH1 | now apply IH2].
  - rewrite nalt_lang, lang_Alt, IH1, IH2. reflexivity.
  - apply lang_Star_congr. exact IH1.
  - rewrite lang_shuf, !lang_Shuf. split; intros (u & v & H1 & H2 & H3); exists u, v;
      repeat split; auto; first [now apply IH1 | now apply IH2].
Qed.
Lemma nderiv_lang x r w : mlang (nderiv x r) w <-> mlang r (x :: w).
Proof. unfold nderiv. rewrite norm_lang. apply deriv_spec. Qed.
Lemma nderivs_lang u : forall r w, mlang (nderivs u r) w <-> mlang r (u ++ w).
Proof.
  induction u as [|x u IH]; intros r w; cbn [nderivs fold_left app]; [reflexivity|].
  fold (nderivs u (nderiv x r)). rewrite IH. apply nderiv_lang.
Qed.

Section Check.
Variable sigma : list N.
Variable pids : list nat.
Variable excused : nat -> nat -> bool.
Notation msyms := (msyms sigma pids).
Notation SigW := (SigW sigma pids).
Notation nonemptyb := (nonemptyb sigma pids).
Notation UPA_decl := (UPA_decl sigma pids excused).
Notation conflict := (conflict sigma pids excused).

Lemma SigW_app u v : SigW (u ++ v) <-> SigW u /\ SigW v.
Proof. unfold Upa.SigW. apply Forall_app. Qed.

Lemma nonemptyb_spec r : nonemptyb r = true <-> exists w, SigW w /\ mlang r w.
Proof.
  induction r as [| |x|a1 IH1 a2 IH2|a1 IH1 a2 IH2|a1 IH1|a1 IH1 a2 IH2]; cbn [Upa.nonemptyb].
  - split; [discriminate | intros [w [_ H]]; now apply lang_Emp in H].
  - split; [intros _; exists []; split; constructor | reflexivity].
  - rewrite existsb_exists. split.
    + intros [a [H1 H2]]. exists [a]. split; [constructor; [exact H1 | constructor] | now constructor].
    + intros [w [H1 H2]]. inversion H2; subst. inversion H1; subst. eauto.
  - rewrite andb_true_iff, IH1, IH2. split.
    + intros [[u [Su Hu]] [v [Sv Hv]]]. exists (u ++ v). split; [rewrite SigW_app; auto | now constructor].
    + intros [w [Sw Hw]]. rewrite lang_Cat in Hw. destruct Hw as (u & v & -> & Hu & Hv).
      rewrite SigW_app in Sw. destruct Sw as [Su Sv]. split; [exists u | exists v]; auto.
  - rewrite orb_true_iff, IH1, IH2. split.
    + intros [[w [Sw Hw]] | [w [Sw Hw]]]; exists w; split; auto; [now apply LAltL | now apply LAltR].
    + intros [w [Sw Hw]]. rewrite lang_Alt in Hw. destruct Hw as [Hw|Hw]; [left | right]; exists w; auto.
  - split; [intros _; exists []; split; constructor | reflexivity].
  - rewrite andb_true_iff, IH1, IH2. split.
    + intros [[u [Su Hu]] [v [Sv Hv]]]. exists (u ++ v). split; [rewrite SigW_app; auto|].
      econstructor; eauto. apply interleave_app.
    + intros [w [Sw Hw]]. rewrite lang_Shuf in Hw. destruct Hw as (u & v & Hu & Hv & Hi).
      unfold Upa.SigW in Sw. rewrite (interleave_Forall _ _ _ _ _ Hi) in Sw. destruct Sw as [Su Sv].
      split; [exists u | exists v]; auto.
Qed.

Lemma closed_reach St : closedb sigma pids St = true ->
  forall u r, SigW u -> In r St -> In (nderivs u r) St.
Proof.
  intros Hc. induction u as [|x u IH]; intros r Su Hr; cbn [nderivs fold_left]; [exact Hr|].
  fold (nderivs u (nderiv x r)). inversion Su; subst. apply IH; [assumption|].
  unfold closedb in Hc. rewrite forallb_forall in Hc. specialize (Hc r Hr).
  rewrite forallb_forall in Hc. apply re_mem_In. now apply Hc.
Qed.

Lemma conflict_spec r a b : In a msyms -> In b msyms ->
  (conflict r a b = true <->
   fst a = fst b /\ snd a <> snd b /\ excused (snd a) (snd b) = false /\
   (exists v, SigW v /\ mlang r (a :: v)) /\ (exists w, SigW w /\ mlang r (b :: w))).
Proof.
  intros Ha Hb. unfold Upa.conflict.
  rewrite !andb_true_iff, !negb_true_iff, N.eqb_eq, Nat.eqb_neq, !nonemptyb_spec.
  split.
  - intros [[[[H1 H2] H3] [v [Sv Hv]]] [w [Sw Hw]]]. repeat split; auto.
    + exists v. split; auto. now apply deriv_spec.
    + exists w. split; auto. now apply deriv_spec.
  - intros (H1 & H2 & H3 & [v [Sv Hv]] & [w [Sw Hw]]). repeat split; auto.
    + exists v. split; auto. now apply deriv_spec.
    + exists w. split; auto. now apply deriv_spec.
Qed.

Lemma find_none_all r :
  find_conflict_in sigma pids excused r = None ->
  forall a b, In a msyms -> In b msyms -> conflict r a b = false.
Proof.
  unfold find_conflict_in. intros H a b Ha Hb.
  apply (find_none _ _ H (a, b)). apply in_prod; assumption.
Qed.

Lemma in_msyms_b (c : msym) :
  existsb (fun d => N.eqb (fst c) (fst d) && Nat.eqb (snd c) (snd d)) msyms = true -> In c msyms.
Proof.
  rewrite existsb_exists. intros [d [Hd H]]. apply andb_prop in H as [H1 H2].
  apply N.eqb_eq in H1. apply Nat.eqb_eq in H2. destruct c, d; cbn in *; subst. exact Hd.
Qed.

Theorem upa_check_true fuel r0 : upa_check sigma pids excused fuel r0 = Some true -> UPA_decl r0.
Proof.
  unfold upa_check. destruct (explore sigma pids fuel _ _) as [St|]; [|discriminate].
  destruct (closedb sigma pids (map snd St) && re_mem (norm r0) (map snd St)) eqn:Hc;
    cbn [negb]; [|discriminate].
  apply andb_prop in Hc as [Hc Hm]. apply re_mem_In in Hm.
  destruct (first_conflict sigma pids excused St) as [[[u a] b]|].
  { destruct (_ && _ && _ && _); discriminate. }
  destruct (forallb _ (map snd St)) eqn:Hall; [|discriminate]. intros _.
  rewrite forallb_forall in Hall.
  intros u x y v w Sx Sy Lx Ly Hxy.
  apply SigW_app in Sx as [Su Sx]. apply SigW_app in Sy as [_ Sy].
  inversion Sx as [|? ? Hx Sv]; subst. inversion Sy as [|? ? Hy Sw]; subst.
  pose proof (closed_reach _ Hc u (norm r0) Su Hm) as Hr.
  set (r := nderivs u (norm r0)) in *.
  specialize (Hall r Hr).
  destruct (find_conflict_in sigma pids excused r) eqn:Hf; [discriminate|].
  pose proof (find_none_all r Hf x y Hx Hy) as Hcf.
  destruct (Nat.eq_dec (snd x) (snd y)) as [E|NE]; [left; exact E | right].
  destruct (excused (snd x) (snd y)) eqn:Ex; [reflexivity | exfalso].
  assert (conflict r x y = true) as Ht; [|congruence].
  apply conflict_spec; auto. repeat split; auto.
  - exists v. split; auto. apply nderivs_lang, norm_lang. exact Lx.
  - exists w. split; auto. apply nderivs_lang, norm_lang. exact Ly.
Qed.

Theorem upa_check_false fuel r0 : upa_check sigma pids excused fuel r0 = Some false -> ~ UPA_decl r0.
Proof.
  unfold upa_check. destruct (explore sigma pids fuel _ _) as [St|]; [|discriminate].
  destruct (negb _); [discriminate|].
  destruct (first_conflict sigma pids excused St) as [[[u a] b]|].
  2: { destruct (forallb _ _); discriminate. }
  destruct (_ && _ && _ && _) eqn:H; [|discriminate]. intros _ HU.
  apply andb_prop in H as [H Hb]. apply andb_prop in H as [H Ha]. apply andb_prop in H as [Hu Hc].
  apply in_msyms_b in Ha, Hb.
  assert (Su : SigW u).
  { unfold Upa.SigW. rewrite Forall_forall. rewrite forallb_forall in Hu.
    intros c Hcin. apply in_msyms_b. now apply Hu. }
  rewrite (conflict_spec _ _ _ Ha Hb) in Hc.
  destruct Hc as (E & NE & Ex & [v [Sv Hv]] & [w [Sw Hw]]).
  rewrite nderivs_lang, norm_lang in Hv. rewrite nderivs_lang, norm_lang in Hw.
  assert (S1 : SigW (u ++ a :: v)) by (rewrite SigW_app; split; [exact Su | constructor; [exact Ha | exact Sv]]).
  assert (S2 : SigW (u ++ b :: w)) by (rewrite SigW_app; split; [exact Su | constructor; [exact Hb | exact Sw]]).
  destruct (HU u a b v w S1 S2 Hv Hw E) as [H|H]; congruence.
Qed.

Theorem upa_check_correct fuel r0 b :
  upa_check sigma pids excused fuel r0 = Some b -> (b = true <-> UPA_decl r0).
Proof.
  intro H. destruct b.
  - split; [intros _; now apply (upa_check_true fuel) | reflexivity].
  - split; [discriminate | intro HU; exfalso; now apply (upa_check_false fuel r0)].
Qed.
End Check.

Theorem edc_check_spec l :
  edc_check l = true <-> forall a b, In a l -> In b l -> fst a = fst b -> snd a = snd b.
Proof.
  unfold edc_check. rewrite forallb_forall. split.
  - intros H a b Ha Hb E. specialize (H a Ha). rewrite forallb_forall in H. specialize (H b Hb).
    apply N.eqb_eq in E. rewrite E in H. cbn in H. now apply N.eqb_eq.
  - intros H a Ha. rewrite forallb_forall. intros b Hb.
    destruct (N.eqb_spec (fst a) (fst b)) as [E|NE]; [|reflexivity]. cbn.
    apply N.eqb_eq. now apply H.
Qed.

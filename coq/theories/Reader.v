(* Model of xmlschema/utils/streams.py DefusableReader: a replay buffer in front of a stream that cannot be rewound.

   The underlying stream is a list of bytes; a read of n bytes may return fewer ("interactive" stream): the schedule
   `sched` gives, call by call, how many bytes the stream is willing to return at most, minus one (so every call
   returns at least one byte unless the stream is at its end).

     fill      : the repaired constructor (24cc302): reads until `want` bytes are buffered or the stream ends;
     fill_once : the constructor before the repair: one read.

   The reader is then (buffer, rest of the stream, position).  It can be rewound while the position is inside the
   buffer; the defusing pass reads `scanned` bytes, rewinds, and the parsing pass reads everything. *)
From XV Require Import Base.

Definition take1 (want : nat) (sched : list nat) : nat := Nat.min want (S (hd 0 sched)).

Fixpoint fill (fuel want : nat) (sched : list nat) (data : list N) : list N * list N :=
  match fuel with
  | O => ([], data)
  | S f =>
      match want, data with
      | O, _ => ([], data)
      | _, [] => ([], [])
      | _, _ => let k := take1 want sched in
                let '(b, rest) := fill f (want - k) (tl sched) (skipn k data) in
                (firstn k data ++ b, rest)
      end
  end.

Definition fill_once (want : nat) (sched : list nat) (data : list N) : list N * list N :=
  let k := take1 want sched in (firstn k data, skipn k data).

Record reader := { buf : list N; rest : list N; pos : nat }.

Definition mk_reader (want : nat) (sched : list nat) (data : list N) : reader :=
  let '(b, r) := fill want want sched data in {| buf := b; rest := r; pos := 0 |}.

Definition mk_reader_once (want : nat) (sched : list nat) (data : list N) : reader :=
  let '(b, r) := fill_once want sched data in {| buf := b; rest := r; pos := 0 |}.

(* sequential read of n bytes (the stream behind the buffer is consumed for good) *)
Definition rd (r : reader) (n : nat) : list N * reader :=
  let all := buf r ++ rest r in
  let out := firstn n (skipn (pos r) all) in
  (out, {| buf := buf r; rest := rest r; pos := pos r + length out |}).

(* seekable(): the position is still inside the buffer *)
Definition can_rewind (r : reader) : bool := Nat.leb (pos r) (length (buf r)).

(* defuse then parse: None = refused ("can't be rewound after the check") *)
Definition scan_then_parse (r : reader) (scanned : nat) : option (list N) :=
  let '(_, r1) := rd r scanned in
  if can_rewind r1 then Some (buf r1 ++ rest r1) else None.

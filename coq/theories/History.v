(* Cross-call state of a schema object: the three mechanisms named by property C10.
   (a) Memo: caching.py SchemaCache / functools.lru_cache - a bounded LRU table in front of a function.
   (b) Scratch: the per-schema ValidationContext used when no context is passed
       (schemas.py validation_context, simple_types.py text_decode / text_is_valid): clear() then use.
   (c) Registration: elements.py raw_decode (first use of an xsi:type on an element, recorded per identity
       constraint after the fix 39b36b4) + identities.py update_elements (marks e.selected_by / identity.elements)
       + elements.py collect_key_fields (marks consulted, then the instance-level selection decides). *)
From XV Require Import Base.

(* ---------------------------------------------------------------- (a) memo *)
Section Memo.
Variable V : Type.
Variable f : N -> V.

Definition cache := list (N * V).
Fixpoint cget (c : cache) (k : N) : option V :=
  match c with [] => None | (k', v) :: r => if N.eqb k' k then Some v else cget r k end.
Definition cdrop (c : cache) (k : N) : cache := filter (fun kv => negb (N.eqb (fst kv) k)) c.
Definition trim (maxsize : option nat) (c : cache) : cache :=
  match maxsize with None => c | Some m => firstn m c end.

(* lru_cache: a hit moves the entry to the front, a miss computes, stores and evicts the oldest *)
Definition call (maxsize : option nat) (c : cache) (x : N) : V * cache :=
  match cget c x with
  | Some v => (v, (x, v) :: cdrop c x)
  | None => let v := f x in (v, trim maxsize ((x, v) :: c))
  end.

Fixpoint run_memo (maxsize : option nat) (c : cache) (xs : list N) : list V * cache :=
  match xs with
  | [] => ([], c)
  | x :: r => let (v, c1) := call maxsize c x in let (vs, c2) := run_memo maxsize c1 r in (v :: vs, c2)
  end.

Definition cache_inv (c : cache) : Prop := Forall (fun kv => snd kv = f (fst kv)) c.
End Memo.

(* ---------------------------------------------------------------- (b) scratch context *)
(* the slots of ValidationContext: status fields (reset by clear()) and parameters (never written by a use) *)
Record ctx := {
  c_errors : list N; c_id_map : list N; c_identities : list N; c_inherited : list N;
  c_level : N; c_elem : option N; c_attribute : option N; c_id_list : option (list N); c_patterns : option N;
  c_params : N
}.

Definition clear (c : ctx) : ctx :=
  {| c_errors := []; c_id_map := []; c_identities := []; c_inherited := []; c_level := 0;
     c_elem := None; c_attribute := None; c_id_list := None; c_patterns := None; c_params := c_params c |}.

Definition fresh_ctx (p : N) : ctx :=
  {| c_errors := []; c_id_map := []; c_identities := []; c_inherited := []; c_level := 0;
     c_elem := None; c_attribute := None; c_id_list := None; c_patterns := None; c_params := p |}.

Section Scratch.
Variable R : Type.
Variable use : ctx -> N -> R * ctx.     (* any computation on the scratch context *)

Fixpoint run_scratch (c : ctx) (xs : list N) : list R :=
  match xs with
  | [] => []
  | x :: r => let (res, c') := use (clear c) x in res :: run_scratch c' r
  end.
End Scratch.

(* ---------------------------------------------------------------- (c) registration of xsi:type uses *)
Definition mem2 (p : N * N) (l : list (N * N)) : bool :=
  existsb (fun q => N.eqb (fst p) (fst q) && N.eqb (snd p) (snd q)) l.
Definition mem3 (p : N * N * N) (l : list (N * N * N)) : bool :=
  existsb (fun q => N.eqb (fst (fst p)) (fst (fst q)) && N.eqb (snd (fst p)) (snd (fst q)) && N.eqb (snd p) (snd q)) l.

Section Reg.
(* schema side: the declarations an identity's selector reaches below element e when e has substituted type t *)
Variable widen : N -> N -> N -> list N.

Record node := {
  n_elem : N;                 (* the declaration of the node *)
  n_xsi : option N;           (* its xsi:type, if any (complex content) *)
  n_enabled : list N;         (* identity constraints whose counter is enabled when the node is processed *)
  n_selected : list N;        (* identity constraints whose selector, run on the instance, selects the node *)
  n_val : N                   (* its field value *)
}.

Record rstate := { seen : list (N * N * N); marks : list (N * N) }.

Definition wmarks (i e t : N) : list (N * N) := map (fun x => (i, x)) (widen i e t).

Definition register1 (e t : N) (s : rstate) (i : N) : rstate :=
  if mem3 (i, e, t) (seen s) then s
  else {| seen := (i, e, t) :: seen s; marks := wmarks i e t ++ marks s |}.

Definition register_with (r1 : N -> N -> rstate -> N -> rstate) (s : rstate) (e t : N) (enabled : list N) : rstate :=
  fold_left (r1 e t) enabled s.
Definition register := register_with register1.

Definition collect (s : rstate) (n : node) : list (N * N) :=
  map (fun i => (i, n_val n))
      (filter (fun i => mem2 (i, n_elem n) (marks s) && memb i (n_selected n)) (n_enabled n)).

Definition visit_with r1 (s : rstate) (n : node) : rstate * list (N * N) :=
  let s1 := match n_xsi n with Some t => register_with r1 s (n_elem n) t (n_enabled n) | None => s end in
  (s1, collect s1 n).

Fixpoint run_doc_with r1 (s : rstate) (doc : list node) : rstate * list (N * N) :=
  match doc with
  | [] => (s, [])
  | n :: r => let (s1, c) := visit_with r1 s n in let (s2, cs) := run_doc_with r1 s1 r in (s2, c ++ cs)
  end.
Definition visit := visit_with register1.
Definition run_doc := run_doc_with register1.

(* the state after a history of documents (complete, invalid or aborted after a prefix) *)
Definition after (s : rstate) (pre : list (list node)) : rstate := fold_left (fun s d => fst (run_doc s d)) pre s.

Fixpoint run_history (s : rstate) (docs : list (list node)) : list (list (N * N)) :=
  match docs with
  | [] => []
  | d :: r => let (s1, c) := run_doc s d in c :: run_history s1 r
  end.

(* history-free specification: the instance-level selection alone decides *)
Definition spec_node (n : node) : list (N * N) :=
  map (fun i => (i, n_val n)) (filter (fun i => memb i (n_selected n)) (n_enabled n)).
Definition spec_doc (doc : list node) : list (N * N) := flat_map spec_node doc.

(* schema / instance consistency: a node selected in the instance has a declaration the schema-level selector
   reaches from the base marks or from a substituted ancestor processed earlier while the identity was enabled *)
Definition cover1 (n : node) (cov : list (N * N)) : list (N * N) :=
  match n_xsi n with
  | Some t => flat_map (fun i => wmarks i (n_elem n) t) (n_enabled n) ++ cov
  | None => cov
  end.

Fixpoint doc_ok (cov : list (N * N)) (doc : list node) : bool :=
  match doc with
  | [] => true
  | n :: r => let cov1 := cover1 n cov in
      forallb (fun i => implb (memb i (n_selected n)) (mem2 (i, n_elem n) cov1)) (n_enabled n) && doc_ok cov1 r
  end.

Definition Inv (s : rstate) (cov : list (N * N)) : Prop :=
  (forall m, In m cov -> mem2 m (marks s) = true) /\
  (forall i e t, mem3 (i, e, t) (seen s) = true -> forall x, In x (widen i e t) -> mem2 (i, x) (marks s) = true).

(* the variant the seeded change C10-A produces: the use is recorded, the marks are not added when skipped *)
Definition register1_skip (skip : bool) (e t : N) (s : rstate) (i : N) : rstate :=
  if mem3 (i, e, t) (seen s) then s
  else {| seen := (i, e, t) :: seen s; marks := (if skip then [] else wmarks i e t) ++ marks s |}.
End Reg.

(* duplicated values of an identity: IdentityCounter.increase reports a value when its count becomes 2 *)
Fixpoint count_dups2 (i : N) (once twice : list N) (c : list (N * N)) : nat :=
  match c with
  | [] => 0
  | (j, v) :: r =>
      if N.eqb i j then
        (if memb v twice then count_dups2 i once twice r
         else if memb v once then S (count_dups2 i once (v :: twice) r)
         else count_dups2 i (v :: once) twice r)
      else count_dups2 i once twice r
  end.
Definition count_dups (i : N) (seenv : list N) (c : list (N * N)) : nat := count_dups2 i seenv [] c.

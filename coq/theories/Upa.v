(* Unique Particle Attribution decided by a certificate-checked closure of normalised
   Brzozowski derivatives over the marked alphabet (symbol, particle id).

   Marked language: the leaf with particle id p matches the marked symbol (x, q) iff p = q and
   the leaf matches x.  A content model violates UPA iff two marked words of the model share a
   prefix and continue with the same symbol attributed to two different particles (not excused:
   XSD 1.1 resolves element-vs-wildcard competition in favour of the element). *)
From XV Require Import Base Regex Particle.

Definition msym := (N * nat)%type.
Definition mmatch (a : pl) (x : msym) : bool := Nat.eqb (fst a) (snd x) && leaf_match (snd a) (fst x).
Notation mlang := (lang msym pl mmatch).
Notation mderiv := (deriv msym pl mmatch).
Notation mnullable := (nullable pl).

(* ---------------------------------------------------------------- structural order on re *)
Fixpoint list_cmp (a b : list N) : comparison :=
  match a, b with
  | [], [] => Eq | [], _ => Lt | _, [] => Gt
  | x :: a', y :: b' => match N.compare x y with Eq => list_cmp a' b' | c => c end
  end.
Definition leaf_cmp (a b : leaf) : comparison :=
  match a, b with
  | Pos l, Pos l' => list_cmp l l'
  | Pos _, Neg _ => Lt | Neg _, Pos _ => Gt
  | Neg l, Neg l' => list_cmp l l'
  end.
Definition pl_cmp (a b : pl) : comparison :=
  match Nat.compare (fst a) (fst b) with Eq => leaf_cmp (snd a) (snd b) | c => c end.
Definition tag (r : rex) : nat :=
  match r with Emp => 0 | Eps => 1 | Atom _ => 2 | Cat _ _ => 3 | Alt _ _ => 4 | Star _ => 5 | Shuf _ _ => 6 end.
Fixpoint re_cmp (a b : rex) : comparison :=
  match a, b with
  | Emp, Emp => Eq | Eps, Eps => Eq
  | Atom x, Atom y => pl_cmp x y
  | Cat a1 a2, Cat b1 b2 => match re_cmp a1 b1 with Eq => re_cmp a2 b2 | c => c end
  | Alt a1 a2, Alt b1 b2 => match re_cmp a1 b1 with Eq => re_cmp a2 b2 | c => c end
  | Shuf a1 a2, Shuf b1 b2 => match re_cmp a1 b1 with Eq => re_cmp a2 b2 | c => c end
  | Star a1, Star b1 => re_cmp a1 b1
  | _, _ => Nat.compare (tag a) (tag b)
  end.
Definition re_eqb (a b : rex) : bool := match re_cmp a b with Eq => true | _ => false end.
Definition re_mem (a : rex) (l : list rex) : bool := existsb (re_eqb a) l.

(* ---------------------------------------------------------------- ACI normalisation of Alt *)
Fixpoint flatten (r : rex) : list rex :=
  match r with
  | Alt a b => flatten a ++ flatten b
  | Emp => []
  | _ => [r]
  end.
Fixpoint insert (x : rex) (l : list rex) : list rex :=
  match l with
  | [] => [x]
  | y :: l' => match re_cmp x y with
               | Lt => x :: l
               | Eq => l                      (* duplicate: drop *)
               | Gt => y :: insert x l'
               end
  end.
Definition sortu (l : list rex) : list rex := fold_right insert [] l.
Fixpoint rebuild (l : list rex) : rex :=
  match l with
  | [] => Emp
  | [x] => x
  | x :: l' => Alt x (rebuild l')
  end.
Definition nalt (a b : rex) : rex := rebuild (sortu (flatten a ++ flatten b)).

Fixpoint norm (r : rex) : rex :=
  match r with
  | Alt a b => nalt (norm a) (norm b)
  | Cat a b => cat pl (norm a) (norm b)
  | Shuf a b => shuf pl (norm a) (norm b)
  | Star a => Star (norm a)
  | _ => r
  end.

Definition nderiv (x : msym) (r : rex) : rex := norm (mderiv x r).
Definition nderivs (w : list msym) (r : rex) : rex := fold_left (fun r x => nderiv x r) w r.

Section Check.
Variable sigma : list N.          (* the symbols considered *)
Variable pids : list nat.         (* the particle ids considered *)
Variable excused : nat -> nat -> bool.

Definition msyms : list msym := list_prod sigma pids.
Definition SigW (w : list msym) : Prop := Forall (fun a => In a msyms) w.

Fixpoint nonemptyb (r : rex) : bool :=
  match r with
  | Emp => false | Eps => true
  | Atom a => existsb (mmatch a) msyms
  | Cat r s => nonemptyb r && nonemptyb s
  | Alt r s => nonemptyb r || nonemptyb s
  | Star _ => true
  | Shuf r s => nonemptyb r && nonemptyb s
  end.

(* declarative UPA over marked words drawn from sigma x pids *)
Definition UPA_decl (r0 : rex) : Prop :=
  forall u x y v w, SigW (u ++ x :: v) -> SigW (u ++ y :: w) ->
    mlang r0 (u ++ x :: v) -> mlang r0 (u ++ y :: w) -> fst x = fst y ->
    snd x = snd y \/ excused (snd x) (snd y) = true.

Definition conflict (r : rex) (a b : msym) : bool :=
  N.eqb (fst a) (fst b) && negb (Nat.eqb (snd a) (snd b)) && negb (excused (snd a) (snd b))
  && nonemptyb (mderiv a r) && nonemptyb (mderiv b r).

Definition find_conflict_in (r : rex) : option (msym * msym) :=
  find (fun ab => conflict r (fst ab) (snd ab)) (list_prod msyms msyms).

Definition state := (list msym * rex)%type.   (* access word (reversed), normalised derivative *)

Fixpoint explore (fuel : nat) (todo seen : list state) : option (list state) :=
  match fuel with
  | 0 => None
  | S f =>
      match todo with
      | [] => Some seen
      | (u, r) :: todo' =>
          if re_mem r (map snd seen) then explore f todo' seen
          else explore f (map (fun a => (a :: u, nderiv a r)) msyms ++ todo') ((u, r) :: seen)
      end
  end.

Definition closedb (St : list rex) : bool :=
  forallb (fun r => forallb (fun a => re_mem (nderiv a r) St) msyms) St.

Fixpoint first_conflict (St : list state) : option (list msym * msym * msym) :=
  match St with
  | [] => None
  | (u, r) :: St1 => match find_conflict_in r with
                    | Some (a, b) => Some (rev u, a, b)
                    | None => first_conflict St1
                    end
  end.

(* Some true = deterministic, Some false = UPA violated (with a re-verified witness),
   None = out of fuel / certificate does not check *)
Definition upa_check (fuel : nat) (r0 : rex) : option bool :=
  let n0 := norm r0 in
  match explore fuel [([], n0)] [] with
  | None => None
  | Some St =>
      let states := map snd St in
      if negb (closedb states && re_mem n0 states) then None
      else match first_conflict St with
           | None => if forallb (fun r => match find_conflict_in r with None => true | Some _ => false end) states
                     then Some true else None
           | Some (u, a, b) =>
               if forallb (fun c => existsb (fun d => N.eqb (fst c) (fst d) && Nat.eqb (snd c) (snd d)) msyms) u
                  && conflict (nderivs u n0) a b
                  && existsb (fun d => N.eqb (fst a) (fst d) && Nat.eqb (snd a) (snd d)) msyms
                  && existsb (fun d => N.eqb (fst b) (fst d) && Nat.eqb (snd b) (snd d)) msyms
               then Some false else None
           end
  end.

Definition closure_size (fuel : nat) (r0 : rex) : option nat :=
  match explore fuel [([], norm r0)] [] with None => None | Some St => Some (length St) end.
End Check.

(* Element Declarations Consistent: same name => same type, over (name, type id) pairs *)
Definition edc_check (l : list (N * N)) : bool :=
  forallb (fun a => forallb (fun b => implb (N.eqb (fst a) (fst b)) (N.eqb (snd a) (snd b))) l) l.

(* XSD particles (elements / wildcards with occurrence ranges, nested sequence / choice / all
   groups), their language defined directly from the XSD text, and compilation to Regex.v.
   Leaves: a finite positive set of names (element + substitution members, or an enumerated
   wildcard) or a negative one (wildcard "everything except"). *)
From XV Require Import Base Regex.

Inductive leaf := Pos (l : list N) | Neg (l : list N).
Definition leaf_match (lf : leaf) (x : N) : bool :=
  match lf with Pos l => memb x l | Neg l => negb (memb x l) end.

Inductive kind := KSeq | KChoice | KAll.

(* mx = None is maxOccurs="unbounded" *)
Inductive part :=
| PLeaf (pid : nat) (lf : leaf) (mn : nat) (mx : option nat)
| PGroup (k : kind) (ps : parts) (mn : nat) (mx : option nat)
with parts := PNil | PCons (p : part) (ps : parts).

Scheme part_mut := Induction for part Sort Prop
  with parts_mut := Induction for parts Sort Prop.

Definition pl := (nat * leaf)%type.
Definition pl_match (a : pl) (x : N) : bool := leaf_match (snd a) x.

Notation rex := (re pl).
Notation langN := (lang N pl pl_match).
Notation interleaveN := (interleave N).

(* --- the XSD language of a particle --------------------------------------------------- *)
Inductive repn (P : list N -> Prop) : nat -> list N -> Prop :=
| R0 : repn P 0 []
| RS k u v : P u -> repn P k v -> repn P (S k) (u ++ v).

Definition in_range (k mn : nat) (mx : option nat) : Prop :=
  mn <= k /\ match mx with None => True | Some m => k <= m end.

Definition occ (P : list N -> Prop) (mn : nat) (mx : option nat) (w : list N) : Prop :=
  exists k, in_range k mn mx /\ repn P k w.

Definition single (lf : leaf) (w : list N) : Prop := exists x, w = [x] /\ leaf_match lf x = true.

Fixpoint plang (p : part) : list N -> Prop :=
  match p with
  | PLeaf _ lf mn mx => occ (single lf) mn mx
  | PGroup KSeq ps mn mx => occ (seql ps) mn mx
  | PGroup KChoice ps mn mx => occ (chl ps) mn mx
  | PGroup KAll ps mn mx => occ (alll ps) mn mx
  end
with seql (ps : parts) : list N -> Prop :=
  match ps with
  | PNil => fun w => w = []
  | PCons p r => fun w => exists u v, w = u ++ v /\ plang p u /\ seql r v
  end
with chl (ps : parts) : list N -> Prop :=
  match ps with
  | PNil => fun _ => False
  | PCons p r => fun w => plang p w \/ chl r w
  end
with alll (ps : parts) : list N -> Prop :=
  match ps with
  | PNil => fun w => w = []
  | PCons p r => fun w => exists u v, plang p u /\ alll r v /\ interleaveN u v w
  end.

(* --- compilation ---------------------------------------------------------------------- *)
Fixpoint power (r : rex) (n : nat) : rex :=
  match n with 0 => Eps | S k => Cat r (power r k) end.
Fixpoint optchain (r : rex) (n : nat) : rex :=
  match n with 0 => Eps | S k => Alt Eps (Cat r (optchain r k)) end.
Definition rep (r : rex) (mn : nat) (mx : option nat) : rex :=
  match mx with
  | None => Cat (power r mn) (Star r)
  | Some m => if Nat.ltb m mn then Emp else Cat (power r mn) (optchain r (m - mn))
  end.

Fixpoint compile (p : part) : rex :=
  match p with
  | PLeaf pid lf mn mx => rep (Atom (pid, lf)) mn mx
  | PGroup KSeq ps mn mx => rep (cseq ps) mn mx
  | PGroup KChoice ps mn mx => rep (cch ps) mn mx
  | PGroup KAll ps mn mx => rep (call ps) mn mx
  end
with cseq (ps : parts) : rex :=
  match ps with PNil => Eps | PCons p r => Cat (compile p) (cseq r) end
with cch (ps : parts) : rex :=
  match ps with PNil => Emp | PCons p r => Alt (compile p) (cch r) end
with call (ps : parts) : rex :=
  match ps with PNil => Eps | PCons p r => Shuf (compile p) (call r) end.

Definition accepts (p : part) (w : list N) : bool := matches N pl pl_match (compile p) w.

(* XSD 1.1 open content: wildcard-matched elements interleaved with / appended to the model *)
Definition open_interleave (p : part) (wild : leaf) : rex := Shuf (compile p) (Star (Atom (0, wild))).
Definition open_suffix (p : part) (wild : leaf) : rex := Cat (compile p) (Star (Atom (0, wild))).
Definition accepts_open (suffix : bool) (p : part) (wild : leaf) (w : list N) : bool :=
  matches N pl pl_match (if suffix then open_suffix p wild else open_interleave p wild) w.

Definition plang_open_interleave (p : part) (wild : leaf) (w : list N) : Prop :=
  exists u v, plang p u /\ Forall (fun x => leaf_match wild x = true) v /\ interleaveN u v w.
Definition plang_open_suffix (p : part) (wild : leaf) (w : list N) : Prop :=
  exists u v, w = u ++ v /\ plang p u /\ Forall (fun x => leaf_match wild x = true) v.

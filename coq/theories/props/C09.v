(* C09 - a schema means the same however its declarations are ordered, split or stored.
   The staged build is memoised on-demand evaluation of an acyclic reference graph; the factory `mk` is a
   section variable (assumption: component construction is a deterministic function of the declaration and
   of the components it references; recorded in the trusted base and probed by the metamorphic harness). *)
From XV Require Import Base Staged StagedProofs Access AccessProofs.
From XV Require Import Redefine RedefineProofs.
From Coq Require Import Permutation.

Theorem C09_build_is_eval : forall (payload : Type) (mk : N -> list payload -> payload) ds fuel s n p s',
  store_ok payload mk ds s -> build payload mk fuel ds s n = Some (p, s') ->
  (exists f, eval payload mk f ds n = Some p) /\ store_ok payload mk ds s'.
Proof. exact build_spec. Qed.
Print Assumptions C09_build_is_eval.

Theorem C09_store_is_eval : forall (payload : Type) (mk : N -> list payload -> payload) ds fuel names s s',
  store_ok payload mk ds s -> build_all payload mk fuel ds names s = Some s' -> store_ok payload mk ds s'.
Proof. exact store_is_eval. Qed.
Print Assumptions C09_store_is_eval.

Theorem C09_permutation : forall (payload : Type) (mk : N -> list payload -> payload) ds ds',
  NoDup (map d_name ds) -> Permutation ds ds' ->
  forall f n, eval payload mk f ds n = eval payload mk f ds' n.
Proof. exact eval_permutation. Qed.
Print Assumptions C09_permutation.

Theorem C09_split : forall (payload : Type) (mk : N -> list payload -> payload) ds1 ds2,
  NoDup (map d_name (ds1 ++ ds2)) ->
  forall f n, eval payload mk f (ds1 ++ ds2) n = eval payload mk f (ds2 ++ ds1) n.
Proof. exact eval_split. Qed.
Print Assumptions C09_split.

Theorem C09_normalize_idem : forall l, normalize_segments (normalize_segments l) = normalize_segments l.
Proof. exact normalize_idem. Qed.
Print Assumptions C09_normalize_idem.

Theorem C09_spellings_equal : forall pre x post, clean_seg x ->
  normalize_segments (pre ++ dot :: post) = normalize_segments (pre ++ post) /\
  normalize_segments (pre ++ [] :: post) = normalize_segments (pre ++ post) /\
  normalize_segments (pre ++ x :: dotdot :: post) = normalize_segments (pre ++ post).
Proof. exact spellings_equal. Qed.
Print Assumptions C09_spellings_equal.

(* non-vacuity: 3 <- 2 <- 1 with a forward reference; building in either order gives the same store values *)
Definition mkN (n : N) (ps : list N) : N := (n + 31 * fold_right N.add 0 ps)%N.
Definition ex_ds := [ {| d_name := 3; d_deps := [2; 1] |}; {| d_name := 1; d_deps := [] |}; {| d_name := 2; d_deps := [1] |} ]%N.
Example C09_example :
  build_all N mkN 10 ex_ds [3; 1; 2]%N [] = Some [(3, 1057); (2, 33); (1, 1)]%N /\
  eval N mkN 10 ex_ds 3%N = Some 1057%N /\ eval N mkN 10 (rev ex_ds) 3%N = Some 1057%N.
Proof. vm_compute. repeat split. Qed.

(* xs:redefine: the redefined schema is the closure of the redefined document (its own declarations and those of the
   documents it includes); however the declarations are ordered or split among those documents, the same redefinitions
   are accepted and every component is built the same *)
Theorem C09_redefine_arrangement : forall (payload : Type) (mk : N -> list payload -> payload)
    (mkr : N -> payload -> list payload -> payload) d d' rs,
  NoDup (map d_name (closure d)) -> Permutation (closure d) (closure d') ->
  match assemble d rs, assemble d' rs with
  | Some (b, l), Some (b', l') => l = l' /\ forall f n, evalr payload mk mkr f b l n = evalr payload mk mkr f b' l' n
  | None, None => True
  | _, _ => False
  end.
Proof. exact assemble_arrangement. Qed.
Print Assumptions C09_redefine_arrangement.

Theorem C09_redefine_split : forall (payload : Type) (mk : N -> list payload -> payload)
    (mkr : N -> payload -> list payload -> payload) a b incs rs,
  NoDup (map d_name (closure (Doc (a ++ b) incs))) ->
  match assemble (Doc (a ++ b) incs) rs, assemble (Doc a (Doc b [] :: incs)) rs with
  | Some (bs, l), Some (bs', l') => l = l' /\ forall f n, evalr payload mk mkr f bs l n = evalr payload mk mkr f bs' l' n
  | None, None => True
  | _, _ => False
  end.
Proof. exact split_invariance. Qed.
Print Assumptions C09_redefine_split.

Theorem C09_redefine_conservative : forall (payload : Type) (mk : N -> list payload -> payload)
    (mkr : N -> payload -> list payload -> payload) base f n,
  evalr payload mk mkr f base [] n = eval payload mk f base n.
Proof. exact evalr_no_redefs. Qed.
Print Assumptions C09_redefine_conservative.

(* requiring the redefined component in the redefined document itself makes the result depend on the split *)
Theorem C09_redefine_own_refuted :
  exists a b rs,
    assemble (Doc (a ++ b) []) rs <> None /\ assemble_own (Doc (a ++ b) []) rs <> None /\
    assemble (Doc a [Doc b []]) rs <> None /\ assemble_own (Doc a [Doc b []]) rs = None.
Proof. exact assemble_own_refuted. Qed.
Print Assumptions C09_redefine_own_refuted.

(* C15 - a content model is accepted exactly when it is deterministic (UPA) and consistent (EDC).
   The decision procedure `upa_check` (certificate-checked closure of normalised derivatives over
   the marked alphabet) is correct against the declarative statement whenever it answers. *)
From XV Require Import Base Regex Particle Upa UpaProofs.

Theorem C15_nonempty_spec : forall sigma pids (r : rex),
  nonemptyb sigma pids r = true <-> exists w, SigW sigma pids w /\ mlang r w.
Proof. exact nonemptyb_spec. Qed.
Print Assumptions C15_nonempty_spec.

Theorem C15_closed_reaches : forall sigma pids St,
  closedb sigma pids St = true ->
  forall u r, SigW sigma pids u -> In r St -> In (nderivs u r) St.
Proof. exact closed_reach. Qed.
Print Assumptions C15_closed_reaches.

Theorem C15_normalisation_preserves_language : forall (r : rex) w, mlang (norm r) w <-> mlang r w.
Proof. exact norm_lang. Qed.
Print Assumptions C15_normalisation_preserves_language.

Theorem C15_upa_check_correct : forall sigma pids excused fuel r0 b,
  upa_check sigma pids excused fuel r0 = Some b -> (b = true <-> UPA_decl sigma pids excused r0).
Proof. exact upa_check_correct. Qed.
Print Assumptions C15_upa_check_correct.

Theorem C15_edc_check_correct : forall l,
  edc_check l = true <-> forall a b, In a l -> In b l -> fst a = fst b -> snd a = snd b.
Proof. exact edc_check_spec. Qed.
Print Assumptions C15_edc_check_correct.

(* non-vacuity: (a, a?)* violates UPA, (a, b?)* does not; the procedure answers on both *)
Definition noex (_ _ : nat) := false.
Example C15_example_amb :
  upa_check [10; 11]%N [1; 2] noex 200
    (compile (PGroup KSeq (PCons (PLeaf 1 (Pos [10%N]) 1 (Some 1))
                          (PCons (PLeaf 2 (Pos [10%N]) 0 (Some 1)) PNil)) 0 None)) = Some false.
Proof. vm_compute. reflexivity. Qed.
Example C15_example_det :
  upa_check [10; 11]%N [1; 2] noex 200
    (compile (PGroup KSeq (PCons (PLeaf 1 (Pos [10%N]) 1 (Some 1))
                          (PCons (PLeaf 2 (Pos [11%N]) 0 (Some 1)) PNil)) 0 None)) = Some true.
Proof. vm_compute. reflexivity. Qed.

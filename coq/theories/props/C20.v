(* C20 - schema paths match instance paths; partial decoding equals the full result. *)
From XV Require SubstPath SubstPathProofs.
From XV Require Import Base Tree SchemaPath SchemaPathProofs.

Theorem C20_find_governs : forall a d t k fuel,
  length a <= fuel -> edc fuel d -> governs_rel d t a k -> find_schema d (names_along t a) = Some k.
Proof. exact find_governs_rel. Qed.
Print Assumptions C20_find_governs.

Theorem C20_partial_decode : forall a d t s,
  subtree t a = Some s ->
  subdata (decode d t) a = Some (decode (match d with Some dd => governing dd t a | None => None end) s).
Proof. exact partial_decode. Qed.
Print Assumptions C20_partial_decode.

Theorem C20_depth_cut : forall k t d, truncate k (decode d t) = decode_depth k d t.
Proof. exact depth_cut. Qed.
Print Assumptions C20_depth_cut.

Theorem C20_depth_cut_stable : forall k t d, truncate k (decode_depth (S k) d t) = truncate k (decode d t).
Proof. exact depth_cut_stable. Qed.
Print Assumptions C20_depth_cut_stable.

(* non-vacuity: root(a(item:int), b(item:date)): the two `item` declarations are found by path *)
Definition ex_schema := SDecl 1 0 [SDecl 2 0 [SDecl 5 11 []]; SDecl 3 0 [SDecl 5 12 []]].
Definition ex_doc := Node 1 [Node 2 [Node 5 []; Node 5 []]; Node 3 [Node 5 []]].
Example C20_example :
  find_schema ex_schema (names_along ex_doc [0; 1]) = Some (SDecl 5 11 []) /\
  find_schema ex_schema (names_along ex_doc [1; 0]) = Some (SDecl 5 12 []) /\
  subdata (decode (Some ex_schema) ex_doc) [1; 0] = Some (D 5 12 []) /\
  truncate 1 (decode (Some ex_schema) ex_doc) = D 1 0 [D 2 0 []; D 3 0 []].
Proof. vm_compute. repeat split. Qed.
Example C20_example_edc : edc 3 ex_schema.
Proof. cbn. repeat (split || constructor || (intro H; cbn in H; intuition discriminate)). Qed.

(* a path with wildcard steps selects one name in several contexts: each selected part is decoded with the declaration of
   its own path, which is the part of the full decoding *)
Theorem C20_selected_is_full : forall a d t s k,
  subtree t a = Some s -> governing d t a = Some k ->
  decode_selected d t a = subdata (decode (Some d) t) a.
Proof. exact selected_is_full. Qed.
Print Assumptions C20_selected_is_full.

(* using the first declaration that the path expression finds on the schema (the code before repo fix e9f3327) is wrong *)
Theorem C20_first_match_refuted :
  exists d t p a,
    matches_path t a p = true /\
    decode_selected d t a = subdata (decode (Some d) t) a /\
    decode_selected_first d t p a <> subdata (decode (Some d) t) a.
Proof. exact first_match_refuted. Qed.
Print Assumptions C20_first_match_refuted.

(* ---- paths through members of substitution groups (model: SubstPath.v; repairs c10bc3a and its completion) *)
Theorem C20_lookup_from_parent_is_governing : forall s d names,
  SubstPath.wf_smap s -> SubstPath.get_parent s d names = SubstPath.governing_path s d names.
Proof. exact SubstPathProofs.get_parent_is_governing. Qed.
Print Assumptions C20_lookup_from_parent_is_governing.

Theorem C20_head_lookup_refuted : exists s d names g,
  SubstPath.wf_smap s /\ SubstPath.governing_path s d names = Some g /\ SubstPath.get_old s d names = None.
Proof. exact SubstPathProofs.get_old_refuted. Qed.
Print Assumptions C20_head_lookup_refuted.

Theorem C20_fallback_only_refuted : exists s d names g,
  SubstPath.wf_smap s /\ SubstPath.governing_path s d names = Some g /\ SubstPath.get_new s d names <> Some g.
Proof. exact SubstPathProofs.fallback_only_refuted. Qed.
Print Assumptions C20_fallback_only_refuted.

(* C19 - errors point at the offending node: the path built for a node selects exactly that node. *)
From XV Require Import Base Tree TreeProofs.

Theorem C19_path_unique : forall a t fuel s,
  subtree t a = Some s -> length a <= fuel ->
  exists p, getpath t a = Some p /\ select fuel t p = [a].
Proof. exact path_unique. Qed.
Print Assumptions C19_path_unique.

Theorem C19_path_injective : forall t a b sa sb p,
  subtree t a = Some sa -> subtree t b = Some sb ->
  getpath t a = Some p -> getpath t b = Some p -> a = b.
Proof. exact path_injective. Qed.
Print Assumptions C19_path_injective.

(* non-vacuity: r(a, b, a(c, c), b): the second a is a[2], its second c is c[2]; a lone child has no predicate *)
Definition ex_tree := Node 1 [Node 2 []; Node 3 []; Node 2 [Node 4 []; Node 4 []]; Node 3 [Node 5 []]].
Example C19_example :
  getpath ex_tree [2; 1] = Some [(2%N, Some 2); (4%N, Some 2)] /\
  select 5 ex_tree [(2%N, Some 2); (4%N, Some 2)] = [[2; 1]] /\
  getpath ex_tree [3; 0] = Some [(3%N, Some 2); (5%N, None)] /\
  select 5 ex_tree [(2%N, None)] = [[0]; [2]].
Proof. vm_compute. repeat split. Qed.

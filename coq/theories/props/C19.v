(* C19 - errors point at the offending node: the path built for a node selects exactly that node. *)
From XV Require Import Base Tree TreeProofs.

Theorem C19_path_unique : forall a t fuel s,
  subtree t a = Some s -> length a <= fuel ->
  exists p, getpath t a = Some p /\ select fuel t p = [a].
Proof. exact path_unique. Qed.
Print Assumptions C19_path_unique.

Theorem C19_path_injective : forall t a b sa sb p,
  subtree t a = Some sa -> subtree t b = Some sb ->
  getpath t a = Some p -> getpath t b = Some p -> a = b.
Proof. exact path_injective. Qed.
Print Assumptions C19_path_injective.

(* non-vacuity: r(a, b, a(c, c), b): the second a is a[2], its second c is c[2]; a lone child has no predicate *)
Definition ex_tree := Node 1 [Node 2 []; Node 3 []; Node 2 [Node 4 []; Node 4 []]; Node 3 [Node 5 []]].
Example C19_example :
  getpath ex_tree [2; 1] = Some [(2%N, Some 2); (4%N, Some 2)] /\
  select 5 ex_tree [(2%N, Some 2); (4%N, Some 2)] = [[2; 1]] /\
  getpath ex_tree [3; 0] = Some [(3%N, Some 2); (5%N, None)] /\
  select 5 ex_tree [(2%N, None)] = [[0]; [2]].
Proof. vm_compute. repeat split. Qed.

(* a single fault: when the check of a node depends on the node's subtree only, damaging the subtree at d can produce
   errors only at d's ancestors (d itself included) and inside the replaced subtree *)
Theorem C19_single_fault_local : forall (chk : tree -> bool) d t s' a,
  (forall b, ~ err_at chk t b) -> err_at chk (replace_at t d s') a -> prefix a d \/ prefix d a.
Proof. exact single_fault_local. Qed.
Print Assumptions C19_single_fault_local.

Theorem C19_fault_reported_at_node : forall (chk : tree -> bool) d t s' old,
  subtree t d = Some old -> chk s' = false -> err_at chk (replace_at t d s') d.
Proof. exact fault_reported_at_node. Qed.
Print Assumptions C19_fault_reported_at_node.

(* the locality hypothesis matters: a check that consults the whole document (IDREF against the ID table) reports an
   error at a node that is neither an ancestor of the damaged node nor inside it - the property's fault catalogue
   therefore damages single nodes of documents without cross references between sibling subtrees *)
Theorem C19_context_check_not_local :
  exists t d s' a,
    (forall b, ~ err_at_ctx idref_chk t b) /\ err_at_ctx idref_chk (replace_at t d s') a /\
    ~ prefix a d /\ ~ prefix d a.
Proof. exact context_check_not_local. Qed.
Print Assumptions C19_context_check_not_local.

(* C13 - defused parsing refuses every entity declaration before any expansion. *)
From XV Require Import Base Defuse DefuseProofs.
From XV Require Reader ReaderProofs.

Theorem C13_prescan_iff : forall cbs,
  prescan cbs = Forbidden <->
  exists pre c post, cbs = pre ++ c :: post /\ forbidden c = true /\ no_start pre = true /\
                     forallb (fun x => negb (forbidden x)) pre = true.
Proof. exact prescan_iff. Qed.
Print Assumptions C13_prescan_iff.

Theorem C13_wellformed_refused : forall cbs,
  wellformed cbs -> (exists c, In c cbs /\ forbidden c = true) -> prescan cbs = Forbidden.
Proof. exact wellformed_refused. Qed.
Print Assumptions C13_wellformed_refused.

Theorem C13_before_expansion : forall cbs pre post,
  wellformed cbs -> prescan cbs = Forbidden -> cbs = pre ++ EntityUse :: post -> scanned cbs <= length pre.
Proof. exact before_expansion. Qed.
Print Assumptions C13_before_expansion.

Theorem C13_clean_unchanged : forall cbs, prescan cbs = Clean -> parse_after cbs = Some cbs.
Proof. exact clean_unchanged. Qed.
Print Assumptions C13_clean_unchanged.

Theorem C13_is_defused_table :
  (forall l, is_defused DAlways l = true) /\ (forall l, is_defused DNever l = false) /\
  (forall l, is_defused DRemote l = true <-> l = RemoteBase) /\
  (forall l, is_defused DNonlocal l = true <-> l <> LocalBase).
Proof. exact is_defused_table. Qed.
Print Assumptions C13_is_defused_table.

(* non-vacuity: <!DOCTYPE r [<!ENTITY e "x">]><r>&e;</r> *)
Definition ex_doc := [XmlDecl; DoctypeStart false; EntityDecl false; Start; EntityUse; End].
Example C13_example : prescan ex_doc = Forbidden /\ scanned ex_doc = 3 /\
                      prescan [XmlDecl; Comment; Start; Text; End] = Clean.
Proof. vm_compute. repeat split. Qed.
Example C13_example_wellformed : wellformed ex_doc.
Proof. apply wfb_sound. vm_compute. reflexivity. Qed.

(* ---- the replay buffer in front of a stream that cannot be rewound (model: Reader.v; repair 24cc302) *)
Theorem C13_buffer_filled_for_every_read_schedule : forall want sched data,
  Reader.fill want want sched data = (firstn want data, skipn want data).
Proof. exact ReaderProofs.fill_complete. Qed.
Print Assumptions C13_buffer_filled_for_every_read_schedule.

Theorem C13_scan_then_parse_same_bytes : forall want sched data scanned,
  scanned <= want -> Reader.scan_then_parse (Reader.mk_reader want sched data) scanned = Some data.
Proof. exact ReaderProofs.scan_then_parse_same. Qed.
Print Assumptions C13_scan_then_parse_same_bytes.

Theorem C13_single_read_refuted : exists want sched data scanned,
  scanned <= want /\ Reader.scan_then_parse (Reader.mk_reader_once want sched data) scanned = None.
Proof. exact ReaderProofs.fill_once_refuted. Qed.
Print Assumptions C13_single_read_refuted.

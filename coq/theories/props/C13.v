(* C13 - defused parsing refuses every entity declaration before any expansion. *)
From XV Require Import Base Defuse DefuseProofs.

Theorem C13_prescan_iff : forall cbs,
  prescan cbs = Forbidden <->
  exists pre c post, cbs = pre ++ c :: post /\ forbidden c = true /\ no_start pre = true /\
                     forallb (fun x => negb (forbidden x)) pre = true.
Proof. exact prescan_iff. Qed.
Print Assumptions C13_prescan_iff.

Theorem C13_wellformed_refused : forall cbs,
  wellformed cbs -> (exists c, In c cbs /\ forbidden c = true) -> prescan cbs = Forbidden.
Proof. exact wellformed_refused. Qed.
Print Assumptions C13_wellformed_refused.

Theorem C13_before_expansion : forall cbs pre post,
  wellformed cbs -> prescan cbs = Forbidden -> cbs = pre ++ EntityUse :: post -> scanned cbs <= length pre.
Proof. exact before_expansion. Qed.
Print Assumptions C13_before_expansion.

Theorem C13_clean_unchanged : forall cbs, prescan cbs = Clean -> parse_after cbs = Some cbs.
Proof. exact clean_unchanged. Qed.
Print Assumptions C13_clean_unchanged.

Theorem C13_is_defused_table :
  (forall l, is_defused DAlways l = true) /\ (forall l, is_defused DNever l = false) /\
  (forall l, is_defused DRemote l = true <-> l = RemoteBase) /\
  (forall l, is_defused DNonlocal l = true <-> l <> LocalBase).
Proof. exact is_defused_table. Qed.
Print Assumptions C13_is_defused_table.

(* non-vacuity: <!DOCTYPE r [<!ENTITY e "x">]><r>&e;</r> *)
Definition ex_doc := [XmlDecl; DoctypeStart false; EntityDecl false; Start; EntityUse; End].
Example C13_example : prescan ex_doc = Forbidden /\ scanned ex_doc = 3 /\
                      prescan [XmlDecl; Comment; Start; Text; End] = Clean.
Proof. vm_compute. repeat split. Qed.
Example C13_example_wellformed : wellformed ex_doc.
Proof. apply wfb_sound. vm_compute. reflexivity. Qed.

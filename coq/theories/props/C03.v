(* C03 - attribute sets are validated per declared uses, value constraints and wildcards. *)
From XV Require Import Base Wildcard Attrs AttrsProofs.

Theorem C03_validate_correct : forall e g attrs,
  validate_attrs e g attrs = [] <-> attrs_valid_spec e g attrs.
Proof. exact validate_correct. Qed.
Print Assumptions C03_validate_correct.

Theorem C03_filling_rules : forall g use_defaults fill_missing attrs n,
  In n (filled g use_defaults fill_missing attrs) <->
  exists d, In d (decls g) /\ a_name d = n /\ present attrs n = false /\
            (a_fixed d <> None \/ (a_default d <> None /\ use_defaults = true) \/ fill_missing = true).
Proof. exact filled_spec. Qed.
Print Assumptions C03_filling_rules.

Theorem C03_wildcard_pc : forall e w p n v,
  wild_errors e w p n v = [] <-> wild_admits e w p n v.
Proof. exact wild_errors_nil. Qed.
Print Assumptions C03_wildcard_pc.

(* non-vacuity: a prohibited attribute admitted by a skip wildcard is accepted whatever its value,
   and rejected when the wildcard does not admit its namespace *)
Definition ex_env := {| vtab := [(1, 1, 1); (1, 2, 1)]%N; globals := []; known_ns := [5%N] |}.
Definition ex_decl := {| a_name := (0, 3)%N; a_use := Prohibited; a_fixed := None; a_default := None; a_ty := 1%N |}.
Example C03_prohibited_wildcard :
  validate_attrs ex_env {| decls := [ex_decl]; wild := Some ({| sh := SAny; wtns := 5%N |}, Skip) |} [((0, 3), 9)]%N = []
  /\ validate_attrs ex_env {| decls := [ex_decl]; wild := Some ({| sh := SOther; wtns := 5%N |}, Skip) |} [((0, 3), 1)]%N
     = [EProhibited (0, 3)%N].
Proof. vm_compute. split; reflexivity. Qed.

(* C03 - attribute sets are validated per declared uses, value constraints and wildcards. *)
From XV Require Attrs AttrValues AttrValuesProofs.
From XV Require Import Base Wildcard Attrs AttrsProofs.

Theorem C03_validate_correct : forall e g attrs,
  validate_attrs e g attrs = [] <-> attrs_valid_spec e g attrs.
Proof. exact validate_correct. Qed.
Print Assumptions C03_validate_correct.

Theorem C03_filling_rules : forall g use_defaults fill_missing attrs n,
  In n (filled g use_defaults fill_missing attrs) <->
  exists d, In d (decls g) /\ a_name d = n /\ present attrs n = false /\
            (a_fixed d <> None \/ (a_default d <> None /\ use_defaults = true) \/ fill_missing = true).
Proof. exact filled_spec. Qed.
Print Assumptions C03_filling_rules.

Theorem C03_wildcard_pc : forall e w p n v,
  wild_errors e w p n v = [] <-> wild_admits e w p n v.
Proof. exact wild_errors_nil. Qed.
Print Assumptions C03_wildcard_pc.

(* non-vacuity: a prohibited attribute admitted by a skip wildcard is accepted whatever its value,
   and rejected when the wildcard does not admit its namespace *)
Definition ex_env := {| vtab := [(1, 1, 1); (1, 2, 1)]%N; globals := []; known_ns := [5%N] |}.
Definition ex_decl := {| a_name := (0, 3)%N; a_use := Prohibited; a_fixed := None; a_default := None; a_ty := 1%N |}.
Example C03_prohibited_wildcard :
  validate_attrs ex_env {| decls := [ex_decl]; wild := Some ({| sh := SAny; wtns := 5%N |}, Skip) |} [((0, 3), 9)]%N = []
  /\ validate_attrs ex_env {| decls := [ex_decl]; wild := Some ({| sh := SOther; wtns := 5%N |}, Skip) |} [((0, 3), 1)]%N
     = [EProhibited (0, 3)%N].
Proof. vm_compute. split; reflexivity. Qed.

(* ---- values reported for absent attributes (model: AttrValues.v) *)
Theorem C03_absent_fixed_reported : forall g ud fm attrs d f,
  In d (Attrs.decls g) -> Attrs.a_fixed d = Some f -> Attrs.present attrs (Attrs.a_name d) = false ->
  In (Attrs.a_name d, Some f) (AttrValues.filled_values g ud fm attrs).
Proof. exact AttrValuesProofs.absent_fixed_reported. Qed.
Print Assumptions C03_absent_fixed_reported.

Theorem C03_absent_default_iff_use_defaults : forall g ud fm attrs d v,
  NoDup (map Attrs.a_name (Attrs.decls g)) ->
  In d (Attrs.decls g) -> Attrs.a_fixed d = None -> Attrs.a_default d = Some v ->
  Attrs.present attrs (Attrs.a_name d) = false ->
  (In (Attrs.a_name d, Some v) (AttrValues.filled_values g ud fm attrs) <-> ud = true).
Proof. exact AttrValuesProofs.absent_default_iff. Qed.
Print Assumptions C03_absent_default_iff_use_defaults.

Theorem C03_no_other_absent_attribute : forall g ud attrs n v,
  In (n, v) (AttrValues.filled_values g ud false attrs) ->
  exists d, In d (Attrs.decls g) /\ Attrs.a_name d = n /\
            (Attrs.a_fixed d <> None \/ (ud = true /\ Attrs.a_default d <> None)).
Proof. exact AttrValuesProofs.nothing_else_without_fill. Qed.
Print Assumptions C03_no_other_absent_attribute.

Theorem C03_filled_values_names : forall g ud fm attrs,
  map fst (AttrValues.filled_values g ud fm attrs) = Attrs.filled g ud fm attrs.
Proof. exact AttrValuesProofs.filled_names. Qed.
Print Assumptions C03_filled_values_names.

Theorem C03_default_before_fixed_refuted : exists d, Attrs.a_fixed d = Some 2%N /\
  AttrValues.absent_value_default_first true false d <> Some (Some 2%N).
Proof. exact AttrValuesProofs.default_first_refuted. Qed.
Print Assumptions C03_default_before_fixed_refuted.

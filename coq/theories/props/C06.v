(* C06 - lazy (streaming) processing gives the same results as full loading.
   Proved: the iteration state machines - chunks yielded at a depth are the sub-trees at that depth in
   document order, a collector folded over the depth-1 chunks sees every child of the root once, and the
   namespace map recorded for every node by the start-ns/start/end/end-ns stack machine is the map of the
   declarations of its ancestor chain (what the loaded tree reports).  Equivalence of the validators across
   chunks is correspondence (lazy vs eager runs), not a theorem. *)
From XV Require LazyCtx LazyCtxProofs Mapper.
From XV Require Import Base Lazy LazyProofs.

Theorem C06_iter_depth_chunks : forall d t, chunks d 0 (cevents t) = at_depth d t.
Proof. exact iter_depth_chunks. Qed.
Print Assumptions C06_iter_depth_chunks.

Theorem C06_chunks_general : forall d t level rest,
  chunks d level (cevents t ++ rest) =
  (if Nat.leb level d then at_depth (d - level) t else []) ++ chunks d level rest.
Proof. exact chunks_spec. Qed.
Print Assumptions C06_chunks_general.

Theorem C06_fold_chunks : forall (A : Type) (f : A -> dtree -> A) (a : A) id decls kids,
  fold_left f (chunks 1 0 (cevents (DNode id decls kids))) a = fold_left f kids a.
Proof. exact @fold_chunks. Qed.
Print Assumptions C06_fold_chunks.

Theorem C06_nsmap_stack : forall t,
  recorded (run {| stack := [[]]; start_ns := []; end_ns := false; recorded := [] |} (events t)) = scopes [] t.
Proof. exact nsmap_recorded. Qed.
Print Assumptions C06_nsmap_stack.

(* non-vacuity: <r><a xmlns:p="1"><b xmlns:q="2"/></a><c/></r>: c sees no declaration *)
Definition ex_doc := DNode 0 [] [DNode 1 [(7, 1)%N] [DNode 2 [(8, 2)%N] []]; DNode 3 [] []].
Example C06_example :
  scopes [] ex_doc = [(0, []); (1, [(7, 1)%N]); (2, [(7, 1); (8, 2)]%N); (3, [])] /\
  map (fun t => match t with DNode id _ _ => id end) (chunks 1 0 (cevents ex_doc)) = [1; 3].
Proof. vm_compute. split; reflexivity. Qed.

(* an element processed on its own (a chunk of a lazy resource, a path selection) gets the namespace map that the
   loaded tree reports for it: the root's declarations, those of the intermediate ancestors and its own *)
Theorem C06_chunk_scope : forall t a m, scope_at [] t a = Some m -> scope_chunk t a = m.
Proof. exact scope_chunk_is_scope. Qed.
Print Assumptions C06_chunk_scope.

(* with the root's and the element's own declarations only (the code before repo fix 78d8359) a prefix declared on an
   intermediate ancestor is lost *)
Theorem C06_chunk_scope_old_refuted :
  exists t a p, (exists m, scope_at [] t a = Some m /\ ns_get m p <> None) /\ ns_get (scope_chunk_old t a) p = None.
Proof. exact scope_chunk_old_refuted. Qed.
Print Assumptions C06_chunk_scope_old_refuted.

(* ---- the namespace mapper across chunks (model: LazyCtx.v over Mapper.v; repairs 574609a and b0a03e4) *)
Theorem C06_chunk_scope_after_mapper : forall st obj level decls scope,
  LazyCtx.fresh st obj -> Mapper.ns (LazyCtx.chunk_new st obj level decls scope) = scope.
Proof. exact LazyCtxProofs.chunk_new_scope. Qed.
Print Assumptions C06_chunk_scope_after_mapper.

Theorem C06_scope_before_mapper_refuted : exists st obj level decls scope,
  LazyCtx.fresh st obj /\ Mapper.ns (LazyCtx.chunk_old st obj level decls scope) <> scope.
Proof. exact LazyCtxProofs.chunk_old_refuted. Qed.
Print Assumptions C06_scope_before_mapper_refuted.

(* C04 - all validation entry points and modes agree on one verdict.
   Proved: the collection policy (strict raises the first error that lax collects, skip collects none),
   the verdict equivalences and the exit status.  That seven source kinds and six entry points feed the
   same error stream is plumbing, checked by the correspondence harness. *)
From XV Require Import Base Limits LimitsProofs Context ContextProofs.

Theorem C04_strict_raises_first : forall (E : Type) (es : list E) e,
  run_mode Strict es = Raise e <-> hd_error es = Some e.
Proof. exact @strict_raises_first. Qed.
Print Assumptions C04_strict_raises_first.

Theorem C04_lax_collects_all : forall (E : Type) (es : list E), run_mode Lax es = Done es.
Proof. exact @lax_collects_all. Qed.
Print Assumptions C04_lax_collects_all.

Theorem C04_skip_collects_none : forall (E : Type) (es : list E), run_mode Skip es = Done [].
Proof. exact @skip_collects_none. Qed.
Print Assumptions C04_skip_collects_none.

Theorem C04_is_valid_iff : forall (E : Type) (es : list E),
  (is_valid es = true <-> es = []) /\
  (is_valid es = true <-> run_mode Strict es = Done []) /\
  (is_valid es = true <-> validate_raises es = false) /\
  (is_valid es = true <-> run_mode Lax es = Done []).
Proof. exact @is_valid_iff. Qed.
Print Assumptions C04_is_valid_iff.

Theorem C04_cli_zero_iff_valid : forall (E : Type) (runs : list (list E)),
  cli_status runs = 0%Z <-> Forall (fun es => es = []) runs.
Proof. exact @cli_zero_iff_valid. Qed.
Print Assumptions C04_cli_zero_iff_valid.

Theorem C04_cli_status_range : forall (E : Type) (runs : list (list E)), (0 <= cli_status runs <= 255)%Z.
Proof. exact @cli_status_range. Qed.
Print Assumptions C04_cli_status_range.

(* non-vacuity: 256 errors do not give status 0 *)
Example C04_example : cli_status [repeat tt 256] = 255%Z /\ cli_status [[]; @nil unit] = 0%Z.
Proof. vm_compute. split; reflexivity. Qed.

(* context copies (inheritable attributes, hook modes) share the error list: lax collects every error of the
   document whatever copies are made, so is_valid agrees with strict mode *)
Theorem C04_copies_share_errors : forall n, lax_errors true n = all_errors n.
Proof. exact lax_collects_document_errors. Qed.
Print Assumptions C04_copies_share_errors.

Theorem C04_is_valid_iff_strict_passes : forall n, ctx_is_valid true n = negb (ctx_strict_raises n).
Proof. exact ctx_is_valid_iff_strict_passes. Qed.
Print Assumptions C04_is_valid_iff_strict_passes.

(* the behaviour before fix 8044325 (private error list in the copy): the content errors of a copying element are lost,
   is_valid is true while strict mode raises *)
Example C04_private_copy_refuted :
  let n := ENode [] true [] [ENode [7%N] false [] []] in
  ctx_is_valid false n = true /\ ctx_strict_raises n = true /\ ctx_is_valid true n = false.
Proof. vm_compute. repeat split. Qed.

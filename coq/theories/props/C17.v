(* C17 - names survive prefix mapping (model: Mapper.v, NamespaceMapper in stacked mode). *)
From XV Require Import Base Mapper MapperProofs.
From XV Require Collapsed CollapsedProofs.

Theorem C17_set_ctx_inv : forall st obj level decls,
  InvSt st -> InvSt (set_ctx st obj level decls).
Proof. exact set_ctx_inv. Qed.
Print Assumptions C17_set_ctx_inv.

Theorem C17_inv_all_histories : forall ops st,
  InvSt st ->
  InvSt (fold_left (fun s op => set_ctx s (fst (fst op)) (snd (fst op)) (snd op)) ops st).
Proof. exact set_ctx_all_inv. Qed.
Print Assumptions C17_inv_all_histories.

Theorem C17_init_inv : forall decls, InvSt (init_mapper decls).
Proof. exact init_inv. Qed.
Print Assumptions C17_init_inv.

Theorem C17_map_unmap : forall st u l,
  Inv (ns st) (rev st) -> in_scope st u -> unmap_q st [] (map_q st u l) = (u, l).
Proof. exact map_unmap. Qed.
Print Assumptions C17_map_unmap.

Theorem C17_scope_restored_partial : forall st obj level decls obj' level',
  decls <> [] ->
  (forall c, In c (ctxs st) -> c_level c < level') ->
  level' <= level -> obj' <> obj ->
  let st1 := set_ctx st obj level decls in
  let st2 := set_ctx st1 obj' level' [] in
  ns st2 = ns st /\ rev st2 = rev st /\ ctxs st2 = ctxs st.
Proof. exact push_pop_restores. Qed.
Print Assumptions C17_scope_restored_partial.

(* non-vacuity: the shadowing witness of the repaired defect. root: xmlns:p=u1 xmlns=u1 (level 0),
   child: xmlns:p=u2 (level 1); {u1}c is then mapped to the default prefix, not to p *)
Definition st0 := {| ns := []; rev := []; ctxs := [] |}.
Definition st_root := set_ctx st0 1 0 [(7, 101); (0, 101)]%N.
Definition st_child := set_ctx st_root 2 1 [(7, 102)]%N.
Example C17_shadow_example :
  map_q st_child 101 5 = Loc 5%N /\ unmap_q st_child [] (map_q st_child 101 5) = (101, 5)%N
  /\ map_q st_child 102 5 = Pre 7 5.
Proof. vm_compute. repeat split. Qed.
Example C17_inv_reachable : InvSt st0.
Proof. split; [intros u p H; discriminate | constructor]. Qed.

(* ---- xmlns processing modes 'collapsed' and 'root-only' (model: Collapsed.v) *)
Theorem C17_collapsed_keys_resolve : forall c ds ops1 ops2 st1 st2 u l,
  NoDup (map fst ds) ->
  Collapsed.run c (Collapsed.init_state ds) ops1 = Some st1 -> Collapsed.run c st1 ops2 = Some st2 ->
  u <> 0%N ->
  Collapsed.resolve_key (fst st2) (Collapsed.map_key st1 u l) = Some (u, l).
Proof. exact CollapsedProofs.keys_resolve_at_end. Qed.
Print Assumptions C17_collapsed_keys_resolve.

Theorem C17_collapsed_renaming_terminates : forall c ops st, Collapsed.run c st ops <> None.
Proof. exact CollapsedProofs.run_total. Qed.
Print Assumptions C17_collapsed_renaming_terminates.

Theorem C17_collapsed_declared_mapped : forall ds ops st lv decls st' p u,
  NoDup (map fst ds) ->
  Collapsed.run true (Collapsed.init_state ds) ops = Some st ->
  Collapsed.elem_step true st (lv, decls) = Some st' ->
  In (p, u) decls -> u <> 0%N -> Collapsed.rget (snd st') u <> None.
Proof. exact CollapsedProofs.declared_namespace_is_mapped. Qed.
Print Assumptions C17_collapsed_declared_mapped.

Theorem C17_collapsed_early_register_refuted : exists n r p u st',
  Collapsed.Inv (n, r) /\ Collapsed.Cov (n, r) /\ Collapsed.bind_early n r p u = Some st' /\ ~ Collapsed.Inv st'.
Proof. exact CollapsedProofs.bind_early_refuted. Qed.
Print Assumptions C17_collapsed_early_register_refuted.

(* known finding F-C17c *)
Theorem C17_collapsed_bare_name_refuted : exists ds ops st l,
  Collapsed.run true (Collapsed.init_state ds) ops = Some st /\
  Collapsed.resolve_key (fst st) (Collapsed.map_key st 0 l) <> Some (0%N, l).
Proof. exact CollapsedProofs.bare_name_refuted. Qed.
Print Assumptions C17_collapsed_bare_name_refuted.

(* non-vacuity: root binds p to u1; a child rebinds p to u2 and is renamed to p0; both keys resolve at the end *)
Example C17_collapsed_example :
  let ds := [((7, 0), 101)]%N in
  let ops1 := [(0, ds); (1, [((7, 0), 102)]%N)] in
  match Collapsed.run true (Collapsed.init_state ds) ops1 with
  | Some st => Collapsed.map_key st 102 5 = Collapsed.KPre (7, 1)%N 5%N
               /\ Collapsed.resolve_key (fst st) (Collapsed.map_key st 102 5) = Some (102, 5)%N
               /\ Collapsed.resolve_key (fst st) (Collapsed.map_key st 101 5) = Some (101, 5)%N
  | None => False
  end.
Proof. vm_compute. repeat split. Qed.

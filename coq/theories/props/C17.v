(* C17 - names survive prefix mapping (model: Mapper.v, NamespaceMapper in stacked mode). *)
From XV Require Import Base Mapper MapperProofs.

Theorem C17_set_ctx_inv : forall st obj level decls,
  InvSt st -> InvSt (set_ctx st obj level decls).
Proof. exact set_ctx_inv. Qed.
Print Assumptions C17_set_ctx_inv.

Theorem C17_inv_all_histories : forall ops st,
  InvSt st ->
  InvSt (fold_left (fun s op => set_ctx s (fst (fst op)) (snd (fst op)) (snd op)) ops st).
Proof. exact set_ctx_all_inv. Qed.
Print Assumptions C17_inv_all_histories.

Theorem C17_init_inv : forall decls, InvSt (init_mapper decls).
Proof. exact init_inv. Qed.
Print Assumptions C17_init_inv.

Theorem C17_map_unmap : forall st u l,
  Inv (ns st) (rev st) -> in_scope st u -> unmap_q st [] (map_q st u l) = (u, l).
Proof. exact map_unmap. Qed.
Print Assumptions C17_map_unmap.

Theorem C17_scope_restored_partial : forall st obj level decls obj' level',
  decls <> [] ->
  (forall c, In c (ctxs st) -> c_level c < level') ->
  level' <= level -> obj' <> obj ->
  let st1 := set_ctx st obj level decls in
  let st2 := set_ctx st1 obj' level' [] in
  ns st2 = ns st /\ rev st2 = rev st /\ ctxs st2 = ctxs st.
Proof. exact push_pop_restores. Qed.
Print Assumptions C17_scope_restored_partial.

(* non-vacuity: the shadowing witness of the repaired defect. root: xmlns:p=u1 xmlns=u1 (level 0),
   child: xmlns:p=u2 (level 1); {u1}c is then mapped to the default prefix, not to p *)
Definition st0 := {| ns := []; rev := []; ctxs := [] |}.
Definition st_root := set_ctx st0 1 0 [(7, 101); (0, 101)]%N.
Definition st_child := set_ctx st_root 2 1 [(7, 102)]%N.
Example C17_shadow_example :
  map_q st_child 101 5 = Loc 5%N /\ unmap_q st_child [] (map_q st_child 101 5) = (101, 5)%N
  /\ map_q st_child 102 5 = Pre 7 5.
Proof. vm_compute. repeat split. Qed.
Example C17_inv_reachable : InvSt st0.
Proof. split; [intros u p H; discriminate | constructor]. Qed.

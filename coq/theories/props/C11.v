(* C11 - every input ends in a verdict or a library error; documented limits hold.
   Proved: the limit accounting and the lax collection policy.  That no other exception type escapes
   for any input is a statement about the runtime and is explored (fuzzing), not proved. *)
From XV Require Import Base Limits LimitsProofs.

Theorem C11_limits_exact : forall D E lazy evs, (0 <= D)%Z -> (0 <= E)%Z ->
  (parse_limited D E lazy evs = Loaded <->
   (maxdepth 0 evs <= D)%Z /\ (lazy = true \/ count_start evs <= E)%Z).
Proof. exact limits_exact. Qed.
Print Assumptions C11_limits_exact.

Theorem C11_lazy_has_no_element_limit : forall D E evs, parse_limited D E true evs <> ExcElems.
Proof. exact lazy_has_no_element_limit. Qed.
Print Assumptions C11_lazy_has_no_element_limit.

Theorem C11_lax_never_raises : forall (E : Type) (es : list E) e, run_mode Lax es <> Raise e.
Proof. exact @lax_never_raises. Qed.
Print Assumptions C11_lax_never_raises.

(* non-vacuity: depth 3 document under limit 3 is loaded, under limit 2 it is refused; 3 elements *)
Definition doc3 := [EvStart; EvStart; EvStart; EvEnd; EvEnd; EvEnd].
Example C11_example :
  parse_limited 3 10 false doc3 = Loaded /\ parse_limited 2 10 false doc3 = ExcDepth /\
  parse_limited 3 3 false doc3 = Loaded /\ parse_limited 3 2 false doc3 = ExcElems /\
  parse_limited 3 2 true doc3 = Loaded.
Proof. vm_compute. repeat split. Qed.

(* C02 - simple-type validation and decoding follow XSD datatype semantics (Datatypes.v is the
   semantics for the covered types; these are the laws the property states about it). *)
From XV Require Import Base Datatypes DatatypesProofs Options OptionsProofs.

Theorem C02_collapse_idem : forall s, ws_collapse (ws_collapse s) = ws_collapse s.
Proof. exact collapse_idem. Qed.
Print Assumptions C02_collapse_idem.

Theorem C02_collapse_shape : forall s, exists l, ws_collapse s = join_sp l /\ Forall tok_ok l.
Proof. exact collapse_shape. Qed.
Print Assumptions C02_collapse_shape.

Theorem C02_integer_lex : forall s,
  int_of_str s <> None <->
  exists sg ds, s = sg ++ ds /\ (sg = [] \/ sg = [43%N] \/ sg = [45%N]) /\
                ds <> [] /\ Forall (fun c => is_digit c = true) ds.
Proof. exact integer_lex. Qed.
Print Assumptions C02_integer_lex.

Theorem C02_integer_roundtrip : forall z, int_of_str (print_integer z) = Some z.
Proof. exact integer_roundtrip. Qed.
Print Assumptions C02_integer_roundtrip.

Theorem C02_decode_encode_decode : forall s v,
  int_of_str s = Some v -> int_of_str (print_integer v) = Some v.
Proof. exact integer_decode_encode_decode. Qed.
Print Assumptions C02_decode_encode_decode.

Theorem C02_boolean_roundtrip : forall b, bool_of_str (print_boolean b) = Some b.
Proof. exact boolean_roundtrip. Qed.
Print Assumptions C02_boolean_roundtrip.

Theorem C02_bounded_int : forall lo hi s z,
  decode (TBounded lo hi) s = Some (VInt z) <-> int_of_str (ws_collapse s) = Some z /\ (lo <= z <= hi)%Z.
Proof. exact bounded_iff. Qed.
Print Assumptions C02_bounded_int.

Theorem C02_bounded_inclusion : forall lo hi lo' hi' s v,
  (lo' <= lo)%Z -> (hi <= hi')%Z ->
  decode (TBounded lo hi) s = Some v -> decode (TBounded lo' hi') s = Some v.
Proof. exact bounded_inclusion. Qed.
Print Assumptions C02_bounded_inclusion.

Theorem C02_restriction_conj : forall base m fs s v,
  decode (TRestrict base m fs) s = Some v <->
  decode base (normalize m s) = Some v /\ forallb (facet_ok v) fs = true.
Proof. exact restriction_conj. Qed.
Print Assumptions C02_restriction_conj.

Theorem C02_list_itemwise : forall item s vs,
  decode (TList item) s = Some (VList vs) <->
  Forall2 (fun tok v => decode item tok = Some v) (split_ws s) vs.
Proof. exact list_itemwise. Qed.
Print Assumptions C02_list_itemwise.

Theorem C02_union_first : forall a b s v,
  decode (TUnion a b) s = Some v <->
  decode a s = Some v \/ (decode a s = None /\ decode b s = Some v).
Proof. exact union_first. Qed.
Print Assumptions C02_union_first.

Theorem C02_date_fields : forall y0 s y m d,
  date_of_str y0 s = Some (y, m, d) -> (1 <= m <= 12)%N /\ (1 <= d <= days_in_month y m)%N.
Proof. exact date_fields. Qed.
Print Assumptions C02_date_fields.

(* non-vacuity *)
Example C02_examples :
  decode TInteger [32; 43; 48; 49; 50; 10]%N = Some (VInt 12) /\           (* " +012\n" *)
  decode TInteger [49; 95; 48]%N = None /\                                  (* "1_0" *)
  decode TDecimal [49; 46; 53; 48]%N = Some (VDec 15 1) /\                  (* "1.50" *)
  decode (TBounded (-128) 127) [49; 50; 56]%N = None /\                     (* byte "128" *)
  decode (TDate false) [50; 48; 50; 49; 45; 48; 50; 45; 50; 57]%N = None /\ (* 2021-02-29 *)
  decode (TDate false) [50; 48; 50; 48; 45; 48; 50; 45; 50; 57; 90]%N = Some (VDate 2020 2 29).
Proof. vm_compute. repeat split. Qed.

(* decode options: they change the presentation of the value, never the verdict; the facets see the XSD value *)
Theorem C02_options_verdict : forall c1 c2 t s, is_some (decode_opts c1 t s) = is_some (decode_opts c2 t s).
Proof. exact same_verdict_any_options. Qed.
Print Assumptions C02_options_verdict.

Theorem C02_options_value : forall conv t s w,
  decode_opts conv t s = Some w <-> exists v, decode t s = Some v /\ w = present conv v.
Proof. exact value_is_presented. Qed.
Print Assumptions C02_options_value.

(* converting the items of a restricted list before its facets are checked (the code before fix 3f2fed5) makes the
   verdict depend on the options *)
Theorem C02_early_conversion_refuted :
  exists item m fs s,
    is_some (decode (TRestrict (TList item) m fs) s) = true /\
    is_some (decode_opts to_text (TRestrict (TList item) m fs) s) = true /\
    is_some (decode_list_early to_text item m fs s) = false.
Proof. exact early_conversion_refuted. Qed.
Print Assumptions C02_early_conversion_refuted.

(* pattern facets of a chain of restrictions of a union: every level is in force *)
Theorem C02_union_patterns_all_levels : forall (pat : Type) (pmatch : pat -> str -> bool) levels s,
  union_check_all pat pmatch levels s = chain_ok pat pmatch levels s.
Proof. exact union_check_all_spec. Qed.
Print Assumptions C02_union_patterns_all_levels.

(* the code before fix ad76452 enforced the outermost level only *)
Theorem C02_union_patterns_first_refuted :
  exists (levels : list (list bool)) s,
    chain_ok bool (fun p _ => p) levels s = false /\ union_check_first bool (fun p _ => p) levels s = true.
Proof. exact union_check_first_refuted. Qed.
Print Assumptions C02_union_patterns_first_refuted.

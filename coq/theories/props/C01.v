(* C01 - child sequences are valid exactly when they are in the content-model language.
   The oracle `accepts` (derivative matcher on the compiled particle) decides the XSD language
   `plang`, which is defined directly from the XSD text (Particle.v). *)
From XV Require Import Base Regex Particle ParticleProofs.

Theorem C01_matches_correct : forall (r : rex) (w : list N),
  matches N pl pl_match r w = true <-> langN r w.
Proof. exact (matches_correct N pl pl_match). Qed.
Print Assumptions C01_matches_correct.

Theorem C01_compile_correct : forall p w, langN (compile p) w <-> plang p w.
Proof. exact compile_correct. Qed.
Print Assumptions C01_compile_correct.

Theorem C01_accepts_iff_word : forall p w, accepts p w = true <-> plang p w.
Proof. exact accepts_iff_word. Qed.
Print Assumptions C01_accepts_iff_word.

Theorem C01_open_interleave : forall p wild w,
  accepts_open false p wild w = true <-> plang_open_interleave p wild w.
Proof. exact open_interleave_correct. Qed.
Print Assumptions C01_open_interleave.

Theorem C01_open_suffix : forall p wild w,
  accepts_open true p wild w = true <-> plang_open_suffix p wild w.
Proof. exact open_suffix_correct. Qed.
Print Assumptions C01_open_suffix.

(* non-vacuity: ((a{0,1}, b{1,}){2,3} | c) : "abbab" is a word, "ab" and "cc" are not *)
Definition ex_model : part :=
  PGroup KChoice
    (PCons (PGroup KSeq (PCons (PLeaf 1 (Pos [10%N]) 0 (Some 1))
                        (PCons (PLeaf 2 (Pos [11%N]) 1 None) PNil)) 2 (Some 3))
    (PCons (PLeaf 3 (Pos [12%N]) 1 (Some 1)) PNil)) 1 (Some 1).
Example C01_example_in : accepts ex_model [10; 11; 11; 10; 11]%N = true.
Proof. vm_compute. reflexivity. Qed.
Example C01_example_out : accepts ex_model [10; 11]%N = false /\ accepts ex_model [12; 12]%N = false.
Proof. vm_compute. split; reflexivity. Qed.

(* C18 - one schema object can be built and used from many threads with unchanged results.
   What is proved: the double-checked locking protocol of XsdGlobals.build, for any number of threads and every
   schedule.  What is not a theorem of this model: that the shared caches, the scratch context and the tail that
   runs after the flag is raised are unobservable under real interleavings - the controlled scheduler and the
   stress runs explore that (stated as partial in the manifest). *)
From XV Require Publish PublishProofs.
From XV Require Import Base Dcl DclProofs ThreadLocal ThreadLocalProofs.

Theorem C18_mutex : forall B T sched t u, let s := run B T init sched in
  locked_pc (pcs s t) = true -> locked_pc (pcs s u) = true -> u = t.
Proof. exact mutex. Qed.
Print Assumptions C18_mutex.

Theorem C18_built_once : forall B T sched, builds (run B T init sched) <= 1.
Proof. exact built_once. Qed.
Print Assumptions C18_built_once.

Theorem C18_flag_implies_complete : forall B T sched, let s := run B T init sched in
  built s = true -> builds s = 1 /\ maps s = B.
Proof. exact flag_implies_complete. Qed.
Print Assumptions C18_flag_implies_complete.

Theorem C18_return_sees_complete : forall B T sched t, let s := run B T init sched in
  pcs s t = PD -> built s = true /\ builds s = 1 /\ maps s = B.
Proof. exact return_sees_complete. Qed.
Print Assumptions C18_return_sees_complete.

Theorem C18_invariant : forall B T sched, Inv B (run B T init sched).
Proof. exact reachable_inv. Qed.
Print Assumptions C18_invariant.

(* non-vacuity: two threads race, thread 1 blocks on the lock, both return after exactly one build *)
Example C18_example :
  summary 2 (run 3 2 init [0; 1; 0; 1; 1; 0; 0; 0; 0; 0; 0; 0; 0; 0; 0; 1; 1; 1]) = ([7; 7], true, 1, 3).
Proof. vm_compute. reflexivity. Qed.

(* the model exhibits a reader that takes the fast path while the builder is still in its tail *)
Example C18_tail_overlap : exists sched,
  let s := run 1 2 init sched in pcs s 1 = PD /\ pcs s 0 = P5 2.
Proof. exists [0; 0; 0; 0; 0; 0; 1]. vm_compute. split; reflexivity. Qed.

(* the seeded variant (flag raised before the body has finished) lets a thread return over incomplete maps *)
Example C18_early_flag_refuted : exists sched,
  let s := fold_left (step_early 3 2 1) sched init in pcs s 1 = PD /\ maps s < 3.
Proof. exists [0; 0; 0; 0; 0; 1]. vm_compute. split; [reflexivity | lia]. Qed.

(* the scratch validation context: with one context per thread (after fix 0061f31) every interleaving of the
   threads' decode / read steps gives each read the verdict of the value its own thread decoded last *)
Theorem C18_scratch_thread_local : forall errors_of ops,
  tl_run errors_of (fun _ => []) ops = spec_run errors_of [] ops.
Proof. exact thread_local_isolated. Qed.
Print Assumptions C18_scratch_thread_local.

(* one shared context (before the fix): thread 1 reads the errors thread 2 left *)
Example C18_shared_scratch_refuted :
  let errors_of := fun x : N => if N.eqb x 0 then [] else [x] in
  let ops := [Decode 1 0%N; Decode 2 5%N; Read 1] in
  sh_run errors_of [] ops = [(1, false)] /\ spec_run errors_of [] ops = [(1, true)].
Proof. vm_compute. split; reflexivity. Qed.

(* ---- publication of lazily built shared entries (model: Publish.v) *)
Theorem C18_atomic_publication_complete : forall (full : N -> list N) ops t,
  forallb Publish.atomic ops = true -> Publish.Complete full t ->
  Publish.Complete full (fold_left (Publish.step full) ops t).
Proof. exact PublishProofs.atomic_publication_complete. Qed.
Print Assumptions C18_atomic_publication_complete.

Theorem C18_two_phase_publication_refuted : exists (full : N -> list N) ops,
  ~ Publish.Complete full (fold_left (Publish.step full) ops []).
Proof. exact PublishProofs.two_phase_refuted. Qed.
Print Assumptions C18_two_phase_publication_refuted.

(* C12 - resource access control confines every fetch to the allowed class of locations. *)
From XV Require Import Base Access AccessProofs.

Theorem C12_decision_sound : forall a base scheme url,
  access_control a base scheme url = true -> confined a base scheme url.
Proof. exact decision_sound. Qed.
Print Assumptions C12_decision_sound.

Theorem C12_sandbox_components : forall base url,
  sandbox_test base url = true ->
  is_prefix (split (rstrip_slash base)) (split url) = true \/ url = base.
Proof. exact sandbox_test_sound. Qed.
Print Assumptions C12_sandbox_components.

Theorem C12_decision_complete : forall a base scheme url,
  a <> ASandbox -> confined a base scheme url -> access_control a base scheme url = true.
Proof. exact decision_complete_modes. Qed.
Print Assumptions C12_decision_complete.

Theorem C12_normalized_no_dotdot : forall l, Forall clean_seg (normalize_segments l).
Proof. exact normalized_no_dotdot. Qed.
Print Assumptions C12_normalized_no_dotdot.

Theorem C12_normalize_idem : forall l, normalize_segments (normalize_segments l) = normalize_segments l.
Proof. exact normalize_idem. Qed.
Print Assumptions C12_normalize_idem.

Theorem C12_spellings_equal : forall pre x post, clean_seg x ->
  normalize_segments (pre ++ dot :: post) = normalize_segments (pre ++ post) /\
  normalize_segments (pre ++ [] :: post) = normalize_segments (pre ++ post) /\
  normalize_segments (pre ++ x :: dotdot :: post) = normalize_segments (pre ++ post).
Proof. exact spellings_equal. Qed.
Print Assumptions C12_spellings_equal.

(* non-vacuity: the repaired witness. base /base/sand ; /base/sand_evil/inc.xsd is refused,
   /base/sand/sub/inc.xsd is granted *)
Definition s_base : str := [47; 98; 47; 115]%N.                       (* "/b/s" *)
Definition s_evil : str := [47; 98; 47; 115; 95; 101; 47; 105]%N.      (* "/b/s_e/i" *)
Definition s_in : str := [47; 98; 47; 115; 47; 105]%N.                (* "/b/s/i" *)
Example C12_sandbox_example :
  access_control ASandbox (Some s_base) [] s_evil = false /\
  access_control ASandbox (Some s_base) [] s_in = true /\
  access_control ASandbox (Some s_base) [104; 116; 116; 112]%N s_in = false.
Proof. vm_compute. repeat split. Qed.

(* C08 - identity constraints: ID/IDREF and unique/key/keyref are enforced exactly. *)
From XV Require Import Base Identity IdentityProofs.
From XV Require Import Scopes ScopesProofs.

Theorem C08_unique : forall ts, unique_errors ts = [] <-> NoDup (qualified ts).
Proof. exact unique_spec. Qed.
Print Assumptions C08_unique.

Theorem C08_key : forall ts,
  key_errors ts = [] <-> Forall (fun t => complete t <> None) ts /\ NoDup (qualified ts).
Proof. exact key_spec. Qed.
Print Assumptions C08_key.

Theorem C08_keyref : forall refer ts,
  keyref_errors refer ts = [] <-> forall v, In v (qualified ts) -> In v refer.
Proof. exact keyref_spec. Qed.
Print Assumptions C08_keyref.

Theorem C08_ids : forall ids refs, ids_ok ids refs = true <-> NoDup ids /\ incl refs ids.
Proof. exact ids_spec. Qed.
Print Assumptions C08_ids.

Theorem C08_scope_independent : forall ss1 ss2,
  doc_errors (ss1 ++ ss2) = doc_errors ss1 ++ doc_errors ss2.
Proof. exact scope_independent. Qed.
Print Assumptions C08_scope_independent.

(* non-vacuity: a keyref tuple with a missing field is not compared (the repaired defect);
   a complete dangling one is reported; key (1,1) twice is a duplicate *)
Example C08_partial_tuple_ignored :
  keyref_errors [[1; 1]%Z] [[Some 2%Z; None]] = [] /\
  keyref_errors [[1; 1]%Z] [[Some 2%Z; Some 1%Z]] = [Dangling [2; 1]%Z] /\
  key_errors [[Some 1; Some 1]; [Some 1; Some 1]; [Some 1; None]]%Z
  = [Missing [Some 1%Z; None]; Dup [1; 1]%Z].
Proof. vm_compute. repeat split. Qed.

(* key references across levels (keyref on an ancestor of the key's scope element) *)
Theorem C08_ancestor_keyref : forall tables ts,
  ancestor_keyref_errors tables ts = [] <->
  forall v, In v (qualified ts) -> (exists t, In t tables /\ In v t) /\ count_tables v tables = 1.
Proof. exact ancestor_keyref_spec. Qed.
Print Assumptions C08_ancestor_keyref.

Theorem C08_propagated_single : forall t v, NoDup t -> (In v (propagated [t]) <-> In v t).
Proof. exact propagated_single. Qed.
Print Assumptions C08_propagated_single.

(* the implementation's rule (only the last scope instance is visible) is refuted in both directions:
   a reference into the first instance is reported dangling, a reference to a conflicting value is accepted *)
Example C08_last_table_refuted :
  ancestor_keyref_errors [[[1%Z]]; [[2%Z]]] [[Some 1%Z]] = [] /\
  last_table_keyref_errors [[[1%Z]]; [[2%Z]]] [[Some 1%Z]] = [Dangling [1%Z]] /\
  ancestor_keyref_errors [[[1%Z]]; [[1%Z]]] [[Some 1%Z]] = [Dangling [1%Z]] /\
  last_table_keyref_errors [[[1%Z]]; [[1%Z]]] [[Some 1%Z]] = [].
Proof. vm_compute. repeat split. Qed.

(* a constraint on an element that can contain itself: the traversal with a stack of tables (elements.py after repo fix
   8cf8a00) reports exactly the duplicates of every instance judged on the instance's own values *)
Theorem C08_nested_scopes : forall s, run_stack s = spec s.
Proof. exact stack_is_spec. Qed.
Print Assumptions C08_nested_scopes.

(* one counter per constraint, reset on entry and disabled on exit (the code before the fix), loses the duplicates that
   follow a nested instance *)
Theorem C08_single_counter_refuted :
  exists s, spec s = 1 /\ run_stack s = 1 /\ snd (run_single s) = 0.
Proof. exact single_counter_refuted. Qed.
Print Assumptions C08_single_counter_refuted.

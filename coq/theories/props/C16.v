(* C16 - wildcard namespace constraints behave as sets of allowed names.
   Property theorems only; proofs live in WildcardProofs.v. *)
From XV Require Import Base Wildcard WildcardProofs.

Theorem C16_union : forall v11 a b c,
  wtns a = wtns b -> union v11 a b = Some c ->
  forall n, n <> xsi -> allowed c n = allowed a n || allowed b n.
Proof. exact union_spec. Qed.
Print Assumptions C16_union.

Theorem C16_intersection : forall a b,
  wtns a = wtns b ->
  forall n, n <> xsi -> allowed (intersection a b) n = allowed a n && allowed b n.
Proof. exact intersection_spec. Qed.
Print Assumptions C16_intersection.

(* restriction is sound as set inclusion, also between wildcards of different target namespaces *)
Theorem C16_restriction_sound : forall a b,
  is_restriction a b = true ->
  forall n, n <> xsi -> allowed a n = true -> allowed b n = true.
Proof. exact restriction_sound_tns. Qed.
Print Assumptions C16_restriction_sound.

Theorem C16_restriction_old_refuted :
  exists a b n, is_restriction_old a b = true /\ is_restriction a b = false /\ n <> xsi /\
                allowed a n = true /\ allowed b n = false.
Proof. exact restriction_old_refuted. Qed.
Print Assumptions C16_restriction_old_refuted.

Theorem C16_overlap_iff : forall a b,
  wtns a = wtns b -> wfl a -> wfl b ->
  (is_overlap a b = true <->
   exists n, n <> xsi /\ allowed a n = true /\ allowed b n = true).
Proof. exact overlap_iff. Qed.
Print Assumptions C16_overlap_iff.

(* non-vacuity: ##other (tns 5) united with {tns, 7} in XSD 1.1 is defined and is "not absent" *)
Example C16_union_example :
  union true {| sh := SOther; wtns := 5 |} {| sh := SList [5; 7]%N; wtns := 5 |}
  = Some {| sh := SNot [0%N]; wtns := 5 |}.
Proof. vm_compute. reflexivity. Qed.
Example C16_union_example_10 :
  union false {| sh := SOther; wtns := 5 |} {| sh := SList [0; 7]%N; wtns := 5 |} = None.
Proof. vm_compute. reflexivity. Qed.

(* C07 - dynamic typing, substitution and nil obey derivation, block and abstract rules. *)
From XV Require Import Base Derivation DerivationProofs.

Theorem C07_is_derived_plain : forall e t b, wf e ->
  (derived e t b None = true <-> exists ms, chain e t b ms).
Proof. exact derived_plain. Qed.
Print Assumptions C07_is_derived_plain.

Theorem C07_is_derived_meth : forall e t b m, wf e -> all_complex e ->
  (derived e t b (Some m) = true <-> t < length e /\ (t = b \/ exists ms, chain e t b ms /\ In m ms)).
Proof. exact derived_meth. Qed.
Print Assumptions C07_is_derived_meth.

Theorem C07_simple_types_restriction_only : forall e t b, wf e -> all_simple e ->
  derived e t b (Some Ext) = false /\ derived e t b (Some Restr) = derived e t b None.
Proof. exact simple_meth. Qed.
Print Assumptions C07_simple_types_restriction_only.

Theorem C07_xsi_type_ok : forall e ty eb T, wf e -> all_complex e ->
  (xsi_type_ok e ty eb T = true <->
   T < length e /\ type_abstract e T = false /\
   exists ms, chain e T ty ms /\ forall m, In m (eb ++ type_block e ty) -> ~ In m ms).
Proof. exact xsi_type_ok_spec. Qed.
Print Assumptions C07_xsi_type_ok.

Theorem C07_subst_ok : forall e ht hb hsb mt mabs, wf e -> all_complex e -> mt < length e ->
  (subst_ok e ht hb hsb mt mabs = true <->
   hsb = false /\ mabs = false /\ type_abstract e mt = false /\
   (mt = ht \/ forall m, In m (hb ++ type_block e ht) -> forall ms, chain e mt ht ms -> ~ In m ms)).
Proof. exact subst_ok_spec. Qed.
Print Assumptions C07_subst_ok.

Theorem C07_nil_table : forall nillable v has_fixed empty,
  nil_check nillable v has_fixed empty = Nilled <->
  nillable = true /\ v = 1 /\ has_fixed = false /\ empty = true.
Proof. exact nil_accept_iff. Qed.
Print Assumptions C07_nil_table.

Theorem C07_first_alternative : forall alts declared,
  (forall a, In a alts -> fst a = false) /\ alternative_type alts declared = declared \/
  exists pre a post, alts = pre ++ a :: post /\ fst a = true /\
                     (forall x, In x pre -> fst x = false) /\ alternative_type alts declared = snd a.
Proof. exact first_alternative. Qed.
Print Assumptions C07_first_alternative.

(* non-vacuity: T0 <-ext- T1 <-restr- T2; element of type T0 *)
Definition ex_env : env :=
  [ {| t_base := None; t_meth := Ext; t_simple := false; t_abstract := false; t_block := [] |};
    {| t_base := Some 0; t_meth := Ext; t_simple := false; t_abstract := false; t_block := [] |};
    {| t_base := Some 1; t_meth := Restr; t_simple := false; t_abstract := false; t_block := [] |} ].
Example C07_ex_wf : wf ex_env /\ all_complex ex_env.
Proof.
  split.
  - intros i td b Hn Hb. destruct i as [|[|[|i]]]; cbn in Hn; try (injection Hn as <-; cbn in Hb; try discriminate; injection Hb as <-; lia).
    destruct i; discriminate.
  - repeat constructor.
Qed.
Example C07_ex_block :
  xsi_type_ok ex_env 0 [] 2 = true /\ xsi_type_ok ex_env 0 [Ext] 2 = false /\
  xsi_type_ok ex_env 0 [Restr] 1 = true /\ xsi_type_ok ex_env 1 [Ext] 2 = true /\ xsi_type_ok ex_env 1 [] 0 = false.
Proof. vm_compute. repeat split. Qed.

(* a test that ends in a dynamic XPath error does not hold: the next alternative (or the declared type) governs *)
Theorem C07_first_alternative_dyn : forall alts declared,
  (forall a, In a alts -> holds (fst a) = false) /\ alternative_type_dyn alts declared = declared \/
  exists pre a post, alts = pre ++ a :: post /\ holds (fst a) = true /\
                     (forall x, In x pre -> holds (fst x) = false) /\ alternative_type_dyn alts declared = snd a.
Proof. exact first_alternative_dyn. Qed.
Print Assumptions C07_first_alternative_dyn.

(* the code before fix 7f56e74 let the error escape: where it returned at all it agreed, but it could raise although a
   later alternative holds *)
Theorem C07_raise_agrees_when_defined : forall alts declared t,
  alternative_type_raise alts declared = Some t -> alternative_type_dyn alts declared = t.
Proof. exact raise_agrees_when_defined. Qed.
Print Assumptions C07_raise_agrees_when_defined.

Theorem C07_raise_variant_refuted :
  exists alts declared, alternative_type_raise alts declared = None /\ alternative_type_dyn alts declared <> declared.
Proof. exact raise_variant_refuted. Qed.
Print Assumptions C07_raise_variant_refuted.

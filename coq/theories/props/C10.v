(* C10 - validation results never depend on what the schema object processed before.
   The three cross-call mechanisms of the code (memo caches, the per-schema scratch context, the permanent
   registration of xsi:type uses on identity constraints) are proved behaviour-neutral for every history.
   That no other cross-call state exists is not a theorem of these models: the history harness probes it. *)
From XV Require KeyedMemo KeyedMemoProofs.
From XV Require Import Base History HistoryProofs.

(* (a) any sequence of calls through a bounded LRU memo returns the values of the function itself *)
Theorem C10_memo_history : forall (V : Type) (f : N -> V) ms xs c, cache_inv V f c ->
  fst (run_memo V f ms c xs) = map f xs /\ cache_inv V f (snd (run_memo V f ms c xs)).
Proof. exact memo_history. Qed.
Print Assumptions C10_memo_history.

(* (b) clear() maps every state of the scratch context to the fresh one: any sequence of uses, each preceded by
   clear(), returns what a fresh context returns; `use` is any computation that does not write parameters *)
Theorem C10_clear_canonical : forall c c', c_params c = c_params c' -> clear c = clear c'.
Proof. exact clear_canonical. Qed.
Print Assumptions C10_clear_canonical.

Theorem C10_scratch_history : forall (R : Type) (use : ctx -> N -> R * ctx),
  (forall c x, c_params (snd (use c x)) = c_params c) ->
  forall xs c p, c_params c = p -> run_scratch R use c xs = map (fun x => fst (use (fresh_ctx p) x)) xs.
Proof. exact scratch_history. Qed.
Print Assumptions C10_scratch_history.

(* (c) after any history of documents - complete, invalid, or aborted after any prefix (a prefix is a document) -
   the field values collected for a document are those collected by a fresh schema object *)
Theorem C10_reg_history : forall widen W0 pre d, doc_ok widen W0 d = true ->
  snd (run_doc widen (after widen {| seen := []; marks := W0 |} pre) d) =
  snd (run_doc widen {| seen := []; marks := W0 |} d).
Proof. exact reg_history. Qed.
Print Assumptions C10_reg_history.

Theorem C10_reg_is_spec : forall widen doc s cov, Inv widen s cov -> doc_ok widen cov doc = true ->
  snd (run_doc widen s doc) = spec_doc doc.
Proof. exact run_doc_spec. Qed.
Print Assumptions C10_reg_is_spec.

Theorem C10_reg_residue_inv : forall widen W0 pre s, Inv widen s W0 -> Inv widen (after widen s pre) W0.
Proof. exact after_inv. Qed.
Print Assumptions C10_reg_residue_inv.

(* non-vacuity and the seeded variant.  Elements: a = 1, item(B) = 2; type B = 1; identity K = 1.
   d1: <a xsi:type="B"> as the root of a scope where K is enabled, its item selected; d2 the same with two items. *)
Definition ex_widen (i e t : N) : list N := if (N.eqb e 1 && N.eqb t 1)%bool then [2%N] else [].
Definition ex_a := {| n_elem := 1; n_xsi := Some 1%N; n_enabled := [1%N]; n_selected := []; n_val := 0 |}.
Definition ex_item v := {| n_elem := 2; n_xsi := None; n_enabled := [1%N]; n_selected := [1%N]; n_val := v |}.
Definition ex_d1 := [ex_a; ex_item 5].
Definition ex_d2 := [ex_a; ex_item 7; ex_item 7].
Definition ex_s0 := {| seen := []; marks := [] |}.

Example C10_example :
  doc_ok ex_widen [] ex_d2 = true /\
  snd (run_doc ex_widen (after ex_widen ex_s0 [ex_d1; [ex_a]]) ex_d2) = [(1, 7); (1, 7)]%N /\
  count_dups 1 [] (snd (run_doc ex_widen ex_s0 ex_d2)) = 1.
Proof. vm_compute. repeat split. Qed.

(* recording the use without adding the marks (the use being processed in skip mode) is history dependent *)
Example C10_skip_variant_refuted :
  let s1 := fst (run_doc_with (register1_skip ex_widen true) ex_s0 ex_d1) in
  snd (run_doc ex_widen s1 ex_d2) = [] /\ snd (run_doc ex_widen ex_s0 ex_d2) = [(1, 7); (1, 7)]%N.
Proof. vm_compute. split; reflexivity. Qed.

(* (d) a memo table keyed by a projection of the arguments (model: KeyedMemo.v) is history-neutral exactly when the function
   depends on its arguments through the key only *)
Theorem C10_keyed_memo_history : forall (A V : Type) (key : A -> N) (f : A -> V),
  (forall a b, key a = key b -> f a = f b) ->
  forall xs c, KeyedMemo.sound A V key f c -> KeyedMemo.run A V key f c xs = map f xs.
Proof. exact KeyedMemoProofs.keyed_memo_history. Qed.
Print Assumptions C10_keyed_memo_history.

Theorem C10_coarse_key_refuted : forall (A V : Type) (key : A -> N) (f : A -> V) a b,
  key a = key b -> f a <> f b -> KeyedMemo.run A V key f [] [a; b] <> map f [a; b].
Proof. exact KeyedMemoProofs.coarse_key_refuted. Qed.
Print Assumptions C10_coarse_key_refuted.

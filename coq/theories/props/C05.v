(* C05 - decoded data re-encodes to a valid, equivalent document; strict encode is sound.
   Proved here: the converter algebra.  JsonML is a bijection between well-typed element trees and arrays; the
   dictionary conventions (default / BadgerFish / GData) restore the child sequence exactly when same-named
   children are contiguous - the hypothesis in the property statement is the exact condition; attribute, text and
   child keys never collide under the conventions' side condition.
   Not a theorem of these models: validity of the encoder's output for arbitrary data (encoder soundness) - it is
   explored by the harness with mutated data (stated as partial in the manifest). *)
From XV Require Import Base Converters ConvertersProofs.

Theorem C05_jsonml_roundtrip : forall kind x, wf kind x = true -> jml_encode kind (jml_decode x) = Some x.
Proof. exact jsonml_roundtrip. Qed.
Print Assumptions C05_jsonml_roundtrip.

Theorem C05_jsonml_injective : forall kind x y, wf kind x = true -> wf kind y = true ->
  jml_decode x = jml_decode y -> x = y.
Proof. exact jsonml_injective. Qed.
Print Assumptions C05_jsonml_injective.

Theorem C05_group_roundtrip_iff : forall (V : Type) (l : list (N * V)),
  ungroup V (group V l) = l <-> contiguous V l = true.
Proof. exact group_roundtrip_iff. Qed.
Print Assumptions C05_group_roundtrip_iff.

Theorem C05_group_ungroup_blocks : forall (V : Type) g, good V g -> group V (ungroup V g) = g.
Proof. exact group_ungroup_blocks. Qed.
Print Assumptions C05_group_ungroup_blocks.

Theorem C05_decorate_inj : forall prefix textkey s1 s2,
  prefix <> [] -> starts prefix textkey = false ->
  slot_ok prefix textkey s1 = true -> slot_ok prefix textkey s2 = true ->
  decorate prefix textkey s1 = decorate prefix textkey s2 -> s1 = s2.
Proof. exact decorate_inj. Qed.
Print Assumptions C05_decorate_inj.

(* non-vacuity *)
Definition ex_kind (t : N) : bool := N.eqb t 2.
Definition ex_xml := Complex 1%N [(7%N, 8%N)] [Simple 2%N [] (Some 5%N); Txt 9%N; Complex 3%N [] [Simple 2%N [(4%N, 4%N)] None]].
Example C05_example :
  wf ex_kind ex_xml = true /\ jml_encode ex_kind (jml_decode ex_xml) = Some ex_xml /\
  contiguous N [(1%N, 10%N); (1%N, 11%N); (2%N, 12%N)] = true /\
  ungroup N (group N [(1%N, 10%N); (2%N, 12%N); (1%N, 11%N)]) = [(1%N, 10%N); (1%N, 11%N); (2%N, 12%N)].
Proof. vm_compute. repeat split. Qed.

(* the default convention with single values and lists (converters/base.py after fix ebb313b): for every choice of
   which particles are single and of force_list, flattening the collected children restores the child sequence when
   same-named children are contiguous *)
Theorem C05_children_roundtrip : forall (V : Type) (single : N -> bool) (force_list : bool) (l : list (N * V)),
  contiguous V l = true -> encode_children V (decode_children V single force_list l) = l.
Proof. exact children_roundtrip. Qed.
Print Assumptions C05_children_roundtrip.

Example C05_children_example :
  decode_children N (fun k => N.eqb k 2) false [(1%N, 10%N); (1%N, 11%N); (2%N, 12%N); (3%N, 13%N)]
  = [(1%N, Many [10%N; 11%N]); (2%N, One 12%N); (3%N, Many [13%N])].
Proof. vm_compute. reflexivity. Qed.

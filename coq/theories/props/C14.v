(* C14 - accepted type restrictions only ever narrow what instances are valid. *)
From XV Require Import Base Regex Particle ParticleProofs Wildcard WildcardProofs Attrs Restrict RestrictProofs.

Theorem C14_occurs_sound : forall mn1 mx1 mn2 mx2,
  occurs_restriction mn1 mx1 mn2 mx2 = true -> forall k, in_range k mn1 mx1 -> in_range k mn2 mx2.
Proof. exact occurs_sound. Qed.
Print Assumptions C14_occurs_sound.

(* the two wildcards may belong to schema documents with different target namespaces (restriction across an xs:import) *)
Theorem C14_wildcard_sound : forall a b,
  is_restriction a b = true ->
  forall n, n <> xsi -> allowed a n = true -> allowed b n = true.
Proof. exact restriction_sound_tns. Qed.
Print Assumptions C14_wildcard_sound.

(* the rule before repo fix beb3bf4 accepted ##other against ##other of another target namespace *)
Theorem C14_wildcard_old_refuted :
  exists a b n, is_restriction_old a b = true /\ is_restriction a b = false /\ n <> xsi /\
                allowed a n = true /\ allowed b n = false.
Proof. exact restriction_old_refuted. Qed.
Print Assumptions C14_wildcard_old_refuted.

Theorem C14_process_contents_sound : forall derived base,
  pc_restriction derived base = true -> pc_checks_value base <= pc_checks_value derived.
Proof. exact pc_sound. Qed.
Print Assumptions C14_process_contents_sound.

Theorem C14_attr_use_sound : forall base derived,
  attr_use_restriction base derived = true ->
  forall present, use_admits derived present = true -> use_admits base present = true.
Proof. exact attr_use_sound. Qed.
Print Assumptions C14_attr_use_sound.

Theorem C14_incl_upto_exact : forall sigma n d b,
  incl_upto sigma n d b = true <->
  forall w, length w <= n -> Forall (fun x => In x sigma) w -> plang d w -> plang b w.
Proof. exact incl_upto_exact. Qed.
Print Assumptions C14_incl_upto_exact.

Theorem C14_counterexample_sound : forall sigma n d b w,
  incl_counterexample sigma n d b = Some w -> plang d w /\ ~ plang b w.
Proof. exact counterexample_sound. Qed.
Print Assumptions C14_counterexample_sound.

Theorem C14_repeat_mono : forall (P Q : list N -> Prop) mn1 mx1 mn2 mx2,
  (forall w, P w -> Q w) -> occurs_restriction mn1 mx1 mn2 mx2 = true ->
  forall w, occ P mn1 mx1 w -> occ Q mn2 mx2 w.
Proof. exact repeat_mono. Qed.
Print Assumptions C14_repeat_mono.

Theorem C14_leaf_mono : forall pid pid' l l' mn1 mx1 mn2 mx2,
  (forall x, leaf_match l x = true -> leaf_match l' x = true) ->
  occurs_restriction mn1 mx1 mn2 mx2 = true ->
  forall w, plang (PLeaf pid l mn1 mx1) w -> plang (PLeaf pid' l' mn2 mx2) w.
Proof. exact leaf_mono. Qed.
Print Assumptions C14_leaf_mono.

Theorem C14_seq_mono : forall p p' ps ps',
  (forall w, plang p w -> plang p' w) -> (forall w, seql ps w -> seql ps' w) ->
  forall w, seql (PCons p ps) w -> seql (PCons p' ps') w.
Proof. exact seq_mono. Qed.
Print Assumptions C14_seq_mono.

Theorem C14_choice_branch : forall p ps w,
  plang p w -> plang (PGroup KChoice (PCons p ps) 1 (Some 1)) w.
Proof. exact choice_branch. Qed.
Print Assumptions C14_choice_branch.

(* non-vacuity: a{1,2} restricts a{0,3}; a{0,3} does not restrict a{1,2}, with the word [] as witness *)
(* a sequence of leaves that restricts one element particle (XsdGroup.is_element_restriction after fix cfec1b5) *)
Theorem C14_elem_restriction_sound : forall its l' mn' mx',
  elem_restriction its l' mn' mx' = true ->
  forall pid pid' w, seql (items_parts pid its) w -> plang (PLeaf pid' l' mn' mx') w.
Proof. exact elem_restriction_sound. Qed.
Print Assumptions C14_elem_restriction_sound.

(* the rule before the fix (every optional item accepted) admits a word outside the base *)
Theorem C14_elem_restriction_old_refuted :
  exists its l' mn' mx' w,
    elem_restriction_old its l' mn' mx' = true /\ elem_restriction its l' mn' mx' = false /\
    seql (items_parts 1 its) w /\ ~ plang (PLeaf 0 l' mn' mx') w.
Proof. exact elem_restriction_old_refuted. Qed.
Print Assumptions C14_elem_restriction_old_refuted.

Example C14_elem_restriction_example :
  elem_restriction [(Pos [1%N], 1, Some 1); (Pos [1%N], 0, Some 2); (Pos [2%N], 0, Some 0)] (Pos [1%N; 3%N]) 1 None = true.
Proof. reflexivity. Qed.

Example C14_example :
  incl_upto [10%N] 4 (PLeaf 1 (Pos [10%N]) 1 (Some 2)) (PLeaf 1 (Pos [10%N]) 0 (Some 3)) = true /\
  incl_counterexample [10%N] 4 (PLeaf 1 (Pos [10%N]) 0 (Some 3)) (PLeaf 1 (Pos [10%N]) 1 (Some 2)) = Some [].
Proof. vm_compute. split; reflexivity. Qed.

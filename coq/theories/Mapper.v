(* Model of xmlschema/namespaces.py NamespaceMapper (stacked xmlns processing):
   set_xmlns_context, map_qname, unmap_qname.
   Prefixes and URIs are interned as N; prefix 0 is the empty (default) prefix, URI 0 is the
   empty namespace name.  Python dicts are association lists with in-place update / append. *)
From XV Require Import Base.

Definition dict := list (N * N).

Fixpoint dget (d : dict) (k : N) : option N :=
  match d with
  | [] => None
  | (k', v) :: r => if N.eqb k k' then Some v else dget r k
  end.

Fixpoint dset (d : dict) (k v : N) : dict :=
  match d with
  | [] => [(k, v)]
  | (k', v') :: r => if N.eqb k k' then (k', v) :: r else (k', v') :: dset r k v
  end.

Definition dupdate (d : dict) (kvs : list (N * N)) : dict :=
  fold_left (fun d kv => dset d (fst kv) (snd kv)) kvs d.

(* last key (in insertion order) bound to value v: `for k in reversed(d): if d[k] == v` *)
Definition find_last (d : dict) (v : N) : option N :=
  find (fun k => match dget d k with Some v' => N.eqb v v' | None => false end) (List.rev (map fst d)).

Record ctx := { c_obj : nat; c_level : nat; c_xmlns : list (N * N); c_ns : dict; c_rev : dict }.
Record mapper := { ns : dict; rev : dict; ctxs : list ctx }.   (* ctxs: top of the stack first *)

(* the pop phase: returns (remaining stack, last popped saved maps, xmlns of an existing context) *)
Fixpoint pop_ctxs (cs : list ctx) (obj level : nat) (saved : option (dict * dict))
  : list ctx * option (dict * dict) * option (list (N * N)) :=
  match cs with
  | [] => ([], saved, None)
  | c :: r =>
      if Nat.ltb (c_level c) level then (cs, saved, None)
      else if Nat.eqb level (c_level c) && Nat.eqb (c_obj c) obj then (cs, saved, Some (c_xmlns c))
      else pop_ctxs r obj level (Some (c_ns c, c_rev c))
  end.

(* the repair loop added by the fix: drop or re-point reverse entries of rebound prefixes *)
Definition fix_rev (n r : dict) : dict :=
  flat_map (fun up => let '(u, p) := up in
                      match dget n p with
                      | Some u' => if N.eqb u u' then [(u, p)]
                                   else match find_last n u with Some k => [(u, k)] | None => [] end
                      | None => match find_last n u with Some k => [(u, k)] | None => [] end
                      end) r.

Definition rev_update_level0 (r : dict) (decls : list (N * N)) : dict :=
  fold_left (fun r kv => match dget r (snd kv) with Some _ => r | None => dset r (snd kv) (fst kv) end)
            (List.rev decls) r.

Definition set_ctx (st : mapper) (obj level : nat) (decls : list (N * N)) : mapper :=
  let '(cs, saved, found) := pop_ctxs (ctxs st) obj level None in
  let '(n0, r0) := match saved with Some nr => nr | None => (ns st, rev st) end in
  match found with
  | Some (_ :: _) => {| ns := n0; rev := r0; ctxs := cs |}
  | _ =>
      match decls with
      | [] => {| ns := n0; rev := r0; ctxs := cs |}
      | _ =>
          let n1 := dupdate n0 decls in
          let r1 := if Nat.eqb level 0 then rev_update_level0 r0 decls
                    else dupdate r0 (map (fun kv => (snd kv, fst kv)) decls) in
          {| ns := n1; rev := fix_rev n1 r1;
             ctxs := {| c_obj := obj; c_level := level; c_xmlns := decls; c_ns := n0; c_rev := r0 |} :: cs |}
      end
  end.

(* NamespaceMapper.__init__ with an XMLResource source: namespaces = declarations of the root,
   _reverse = {v: k for k, v in reversed(namespaces.items())} (the first declared prefix wins) *)
Definition init_mapper (root_decls : list (N * N)) : mapper :=
  let n := dupdate [] root_decls in
  {| ns := n; rev := fold_left (fun r kv => dset r (snd kv) (fst kv)) (List.rev n) []; ctxs := [] |}.

(* names: extended {u}l (u may be 0 = no namespace: written as a bare local name), prefixed p:l *)
Inductive mname := Ext (u l : N) | Pre (p l : N) | Loc (l : N).

(* map_qname on the extended name {u}l; a name without namespace is a bare local name *)
Definition map_q (st : mapper) (u l : N) : mname :=
  if N.eqb u 0 then Loc l
  else if isnil (ns st) then Ext u l
  else match dget (rev st) u with
       | Some p => if N.eqb p 0 then Loc l else Pre p l
       | None => Ext u l
       end.

(* unmap_qname with the node's own xmlns declarations and no name table: result (uri, local) *)
Definition unmap_q (st : mapper) (xmlns : list (N * N)) (m : mname) : N * N :=
  let n := dupdate (ns st) xmlns in
  match m with
  | Ext u l => (u, l)
  | Loc l => if isnil n then (0%N, l)
             else match dget n 0%N with
                  | Some d => if N.eqb d 0 then (0%N, l) else (d, l)
                  | None => (0%N, l)
                  end
  | Pre p l => if isnil n then (0%N, l)      (* unreachable for names produced by map_q *)
               else match dget n p with Some u => (u, l) | None => (0%N, l) end
  end.

Definition Inv (n r : dict) : Prop := forall u p, dget r u = Some p -> dget n p = Some u.
Definition InvSt (st : mapper) : Prop :=
  Inv (ns st) (rev st) /\ Forall (fun c => Inv (c_ns c) (c_rev c)) (ctxs st).

(* the element's own namespace is expressible in scope: a name without namespace is only used
   where no non-empty default namespace is in force (XML requires xmlns="" otherwise) *)
Definition in_scope (st : mapper) (u : N) : Prop :=
  u = 0%N -> dget (ns st) 0%N = None \/ dget (ns st) 0%N = Some 0%N.

From XV Require Import Base Dcl.

Section Proofs.
Variable B T : nat.
Notation Inv := (Inv B).
Notation step := (step B T).
Notation run := (run B T).

Lemma body_locked p : body_pc p = true -> locked_pc p = true.
Proof. destruct p; cbn; congruence. Qed.

Lemma mutex_of (s : state) :
  (forall t, locked_pc (pcs s t) = true -> lock s = Some t) ->
  forall t u, locked_pc (pcs s t) = true -> locked_pc (pcs s u) = true -> u = t.
Proof. intros HA t u Ht Hu. pose proof (HA t Ht) as E1. pose proof (HA u Hu) as E2. congruence. Qed.

(* a change of the program counter of one thread that touches no shared variable *)
Lemma setpc_inv s t p : Inv s ->
  (locked_pc p = true -> lock s = Some t) ->
  (match p with
   | P3 k => built s = false /\ builds s = 1 /\ maps s + k = B
   | P4 => built s = false /\ builds s = 1 /\ maps s = B
   | P5 _ | P6 | PD => built s = true
   | _ => True
   end) ->
  (body_pc (pcs s t) = true -> body_pc p = true) ->
  Inv (setpc s t p).
Proof.
  intros [HA [HB [HC HD]]] Hl Hp Hb. unfold Dcl.Inv, setpc; cbn [pcs built lock maps builds].
  split; [|split; [|split]].
  - intros u. unfold upd. destruct (Nat.eqb_spec u t) as [->|Hne]; [exact Hl | apply HA].
  - intros u. unfold upd. destruct (Nat.eqb_spec u t) as [->|Hne]; [exact Hp | apply HB].
  - exact HC.
  - intro Hf. destruct (HD Hf) as [H0|[w Hw]]; [now left|]. right.
    destruct (Nat.eq_dec w t) as [->|Hne].
    + exists t. unfold upd. rewrite Nat.eqb_refl. now apply Hb.
    + exists w. unfold upd. destruct (Nat.eqb_spec w t); [contradiction | exact Hw].
Qed.

Theorem step_inv s t : Inv s -> Inv (step s t).
Proof.
  intros HI. pose proof HI as [HA [HB [HC HD]]]. unfold Dcl.step.
  pose proof (HB t) as HBt. pose proof (HA t) as HAt.
  destruct (pcs s t) as [| | |k| |k| |] eqn:Ept; cbn [locked_pc] in HAt.
  - (* P0 *) destruct (built s) eqn:Eb.
    + apply setpc_inv; auto; cbn; try congruence. rewrite Ept; cbn; congruence.
    + apply setpc_inv; auto; cbn; try congruence. rewrite Ept; cbn; congruence.
  - (* P1 *) destruct (lock s) as [o|] eqn:El; [exact HI|].
    unfold Dcl.Inv; cbn [pcs built lock maps builds]. split; [|split; [|split]].
    + intros u. unfold upd. destruct (Nat.eqb_spec u t) as [->|Hne]; [reflexivity|].
      intro Hu. specialize (HA u Hu). congruence.
    + intros u. unfold upd. destruct (Nat.eqb_spec u t) as [->|Hne]; [exact I | apply HB].
    + exact HC.
    + intro Hf. destruct (HD Hf) as [H0|[w Hw]]; [now left|]. right. exists w. unfold upd.
      destruct (Nat.eqb_spec w t) as [->|Hne]; [rewrite Ept in Hw; discriminate | exact Hw].
  - (* P2 *) specialize (HAt eq_refl). destruct (built s) eqn:Eb.
    + apply setpc_inv; auto; cbn; try congruence. rewrite Ept; cbn; congruence.
    + assert (H0 : builds s = 0).
      { destruct (HD eq_refl) as [H0|[w Hw]]; [exact H0|]. exfalso.
        pose proof (HA w (body_locked _ Hw)) as E. assert (w = t) by congruence. subst w.
        rewrite Ept in Hw. discriminate. }
      unfold Dcl.Inv; cbn [pcs built lock maps builds]. split; [|split; [|split]].
      * intros u. unfold upd. destruct (Nat.eqb_spec u t) as [->|Hne]; [intros _; exact HAt | apply HA].
      * intros u. unfold upd. destruct (Nat.eqb_spec u t) as [->|Hne]; [repeat split; lia|].
        specialize (HB u). pose proof (HA u) as HAu. destruct (pcs s u) eqn:Eu; cbn [locked_pc] in HAu;
          try exact I; try congruence; exfalso; specialize (HAu eq_refl); congruence.
      * discriminate.
      * intros _. right. exists t. unfold upd. now rewrite Nat.eqb_refl.
  - (* P3 *) specialize (HAt eq_refl). destruct HBt as [Hb0 [Hb1 Hb2]]. destruct k as [|k].
    + apply setpc_inv; auto; cbn; try congruence. repeat split; auto; lia.
    + unfold Dcl.Inv; cbn [pcs built lock maps builds]. split; [|split; [|split]].
      * intros u. unfold upd. destruct (Nat.eqb_spec u t) as [->|Hne]; [intros _; exact HAt | apply HA].
      * intros u. unfold upd. destruct (Nat.eqb_spec u t) as [->|Hne]; [repeat split; auto; lia|].
        specialize (HB u). pose proof (HA u) as HAu. destruct (pcs s u) eqn:Eu; cbn [locked_pc] in HAu;
          try exact I; try exact HB; exfalso; specialize (HAu eq_refl); congruence.
      * congruence.
      * intros _. right. exists t. unfold upd. now rewrite Nat.eqb_refl.
  - (* P4 *) specialize (HAt eq_refl). destruct HBt as [Hb0 [Hb1 Hb2]].
    unfold Dcl.Inv; cbn [pcs built lock maps builds]. split; [|split; [|split]].
    + intros u. unfold upd. destruct (Nat.eqb_spec u t) as [->|Hne]; [intros _; exact HAt | apply HA].
    + intros u. unfold upd. destruct (Nat.eqb_spec u t) as [->|Hne]; [reflexivity|].
      specialize (HB u). pose proof (HA u) as HAu. destruct (pcs s u) eqn:Eu; cbn [locked_pc] in HAu;
        try exact I; try reflexivity; exfalso; specialize (HAu eq_refl); congruence.
    + intros _. split; assumption.
    + discriminate.
  - (* P5 *) specialize (HAt eq_refl). destruct k as [|k]; apply setpc_inv; auto; cbn; try congruence; rewrite Ept; cbn; congruence.
  - (* P6 *) specialize (HAt eq_refl).
    unfold Dcl.Inv; cbn [pcs built lock maps builds]. split; [|split; [|split]].
    + intros u. unfold upd. destruct (Nat.eqb_spec u t) as [->|Hne]; [cbn; discriminate|].
      intro Hu. specialize (HA u Hu). congruence.
    + intros u. unfold upd. destruct (Nat.eqb_spec u t) as [->|Hne]; [exact HBt | apply HB].
    + exact HC.
    + intro Hf. destruct (HD Hf) as [H0|[w Hw]]; [now left|]. right. exists w. unfold upd.
      destruct (Nat.eqb_spec w t) as [->|Hne]; [rewrite Ept in Hw; discriminate | exact Hw].
  - (* PD *) exact HI.
Qed.

Lemma init_inv : Inv init.
Proof.
  unfold Dcl.Inv, init; cbn. split; [|split; [|split]]; try (intros; discriminate); auto.
Qed.

Theorem run_inv : forall sched s, Inv s -> Inv (run s sched).
Proof.
  induction sched as [|t r IH]; intros s H; [exact H|]. unfold Dcl.run in *. cbn [fold_left].
  apply IH. now apply step_inv.
Qed.

Theorem reachable_inv sched : Inv (run init sched).
Proof. apply run_inv, init_inv. Qed.

(* at most one thread is between acquire and release *)
Theorem mutex sched t u : let s := run init sched in
  locked_pc (pcs s t) = true -> locked_pc (pcs s u) = true -> u = t.
Proof. intro s. destruct (reachable_inv sched) as [HA _]. exact (mutex_of s HA t u). Qed.

(* the build body is started at most once *)
Theorem built_once sched : builds (run init sched) <= 1.
Proof.
  destruct (reachable_inv sched) as [HA [HB [HC HD]]]. destruct (built (run init sched)) eqn:Eb.
  - destruct (HC eq_refl) as [H _]. lia.
  - destruct (HD eq_refl) as [H|[w Hw]]; [lia|]. specialize (HB w).
    destruct (pcs (run init sched) w); try discriminate; lia.
Qed.

(* the flag is raised only over complete maps, and every thread that returned has seen it *)
Theorem flag_implies_complete sched : let s := run init sched in
  built s = true -> builds s = 1 /\ maps s = B.
Proof. intro s. destruct (reachable_inv sched) as [_ [_ [HC _]]]. exact HC. Qed.

Theorem return_sees_complete sched t : let s := run init sched in
  pcs s t = PD -> built s = true /\ builds s = 1 /\ maps s = B.
Proof.
  intros s Hp. destruct (reachable_inv sched) as [_ [HB [HC _]]]. specialize (HB t). fold s in HB, HC.
  rewrite Hp in HB. split; [exact HB | exact (HC HB)].
Qed.
End Proofs.

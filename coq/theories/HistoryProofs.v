From XV Require Import Base History.

(* ---------------------------------------------------------------- memo *)
Section MemoProofs.
Variable V : Type.
Variable f : N -> V.
Notation cache_inv := (cache_inv V f).
Notation call := (call V f).
Notation run_memo := (run_memo V f).

Lemma cget_inv c k v : cache_inv c -> cget V c k = Some v -> v = f k.
Proof.
  induction c as [|[k' v'] r IH]; intros Hc E; cbn [cget] in E; [discriminate|].
  inversion Hc as [|? ? Hh Hr]; subst. destruct (N.eqb_spec k' k) as [->|_].
  - injection E as <-. exact Hh.
  - now apply IH.
Qed.

Lemma inv_firstn m c : cache_inv c -> cache_inv (firstn m c).
Proof.
  revert c; induction m as [|m IH]; intros c Hc; [constructor|].
  destruct c as [|x r]; [constructor|]. inversion Hc as [|? ? Hx Hr]; subst. cbn [firstn].
  constructor; [exact Hx | exact (IH r Hr)].
Qed.

Lemma inv_trim ms c : cache_inv c -> cache_inv (trim V ms c).
Proof. destruct ms as [m|]; cbn [trim]; [apply inv_firstn | auto]. Qed.

Lemma inv_drop c k : cache_inv c -> cache_inv (cdrop V c k).
Proof. intro Hc. eapply incl_Forall; [apply incl_filter | exact Hc]. Qed.

Lemma call_spec ms c x : cache_inv c -> fst (call ms c x) = f x /\ cache_inv (snd (call ms c x)).
Proof.
  intro Hc. unfold History.call. destruct (cget V c x) as [v|] eqn:E; cbn [fst snd].
  - pose proof (cget_inv c x v Hc E) as ->. split; [reflexivity|].
    constructor; [reflexivity | now apply inv_drop].
  - split; [reflexivity|]. apply inv_trim. constructor; [reflexivity | exact Hc].
Qed.

Theorem memo_history ms : forall xs c, cache_inv c ->
  fst (run_memo ms c xs) = map f xs /\ cache_inv (snd (run_memo ms c xs)).
Proof.
  induction xs as [|x r IH]; intros c Hc; cbn [History.run_memo map]; [split; [reflexivity | exact Hc]|].
  destruct (call_spec ms c x Hc) as [Hv Hc1]. destruct (call ms c x) as [v c1]; cbn [fst snd] in *.
  destruct (IH c1 Hc1) as [Hvs Hc2]. destruct (run_memo ms c1 r) as [vs c2]; cbn [fst snd] in *.
  split; [now rewrite Hv, Hvs | exact Hc2].
Qed.

Lemma empty_cache_inv : cache_inv [].
Proof. constructor. Qed.
End MemoProofs.

(* ---------------------------------------------------------------- scratch *)
Lemma clear_is_fresh c : clear c = fresh_ctx (c_params c).
Proof. reflexivity. Qed.

Lemma clear_canonical c c' : c_params c = c_params c' -> clear c = clear c'.
Proof. intro H. now rewrite !clear_is_fresh, H. Qed.

Section ScratchProofs.
Variable R : Type.
Variable use : ctx -> N -> R * ctx.
Hypothesis use_params : forall c x, c_params (snd (use c x)) = c_params c.

Theorem scratch_history : forall xs c p, c_params c = p ->
  run_scratch R use c xs = map (fun x => fst (use (fresh_ctx p) x)) xs.
Proof.
  induction xs as [|x r IH]; intros c p Hp; cbn [run_scratch map]; [reflexivity|].
  rewrite clear_is_fresh, Hp. pose proof (use_params (fresh_ctx p) x) as Hu.
  destruct (use (fresh_ctx p) x) as [res c']; cbn [fst snd] in *. now rewrite (IH c' p Hu).
Qed.
End ScratchProofs.

(* ---------------------------------------------------------------- registration *)
Lemma mem2_In p l : mem2 p l = true <-> In p l.
Proof.
  unfold mem2. rewrite existsb_exists. split.
  - intros [q [Hq E]]. apply andb_true_iff in E as [E1 E2]. apply N.eqb_eq in E1, E2.
    destruct p, q; cbn [fst snd] in *; subst; exact Hq.
  - intro H. exists p. split; [exact H|]. now rewrite !N.eqb_refl.
Qed.

Lemma mem3_In p l : mem3 p l = true <-> In p l.
Proof.
  unfold mem3. rewrite existsb_exists. split.
  - intros [q [Hq E]]. apply andb_true_iff in E as [E12 E3]. apply andb_true_iff in E12 as [E1 E2].
    apply N.eqb_eq in E1, E2, E3. destruct p as [[a b] c], q as [[a' b'] c']; cbn [fst snd] in *; subst; exact Hq.
  - intro H. exists p. split; [exact H|]. now rewrite !N.eqb_refl.
Qed.

Section RegProofs.
Variable widen : N -> N -> N -> list N.
Notation Inv := (Inv widen).
Notation wmarks := (wmarks widen).
Notation register1 := (register1 widen).
Notation run_doc := (run_doc widen).
Notation visit := (visit widen).
Notation doc_ok := (doc_ok widen).
Notation cover1 := (cover1 widen).

Lemma Inv_incl s cov cov' : (forall m, In m cov' -> In m cov) -> Inv s cov -> Inv s cov'.
Proof. intros H [H1 H2]. split; [intros m Hm; apply H1, H, Hm | exact H2]. Qed.

Lemma in_wmarks i e t x : In x (widen i e t) -> In (i, x) (wmarks i e t).
Proof. intro H. unfold History.wmarks. apply in_map_iff. now exists x. Qed.

Lemma wmarks_in i e t m : In m (wmarks i e t) -> exists x, m = (i, x) /\ In x (widen i e t).
Proof. unfold History.wmarks. rewrite in_map_iff. intros [x [<- Hx]]. now exists x. Qed.

Lemma register1_inv e t s i cov : Inv s cov -> Inv (register1 e t s i) (wmarks i e t ++ cov).
Proof.
  intros [H1 H2]. unfold History.register1. destruct (mem3 (i, e, t) (seen s)) eqn:Es.
  - split; [|exact H2]. intros m Hm. apply in_app_or in Hm as [Hm|Hm]; [|now apply H1].
    apply wmarks_in in Hm as [x [-> Hx]]. now apply (H2 i e t Es).
  - split; cbn [seen marks].
    + intros m Hm. apply mem2_In, in_or_app. apply in_app_or in Hm as [Hm|Hm]; [now left|].
      right. now apply mem2_In, H1.
    + intros i' e' t' Hs x Hx. apply mem2_In, in_or_app. apply mem3_In in Hs. destruct Hs as [Heq|Hs].
      * injection Heq as -> -> ->. left. now apply in_wmarks.
      * right. apply mem2_In. apply (H2 i' e' t'); [now apply mem3_In | exact Hx].
Qed.

Lemma register_inv e t : forall en s cov, Inv s cov ->
  Inv (register widen s e t en) (flat_map (fun i => wmarks i e t) en ++ cov).
Proof.
  unfold register, register_with.
  induction en as [|i r IH]; intros s cov H; cbn [fold_left flat_map app]; [exact H|].
  apply (Inv_incl _ (flat_map (fun i => wmarks i e t) r ++ (wmarks i e t ++ cov))).
  - intros m Hm. apply in_or_app. rewrite <- app_assoc in Hm. apply in_app_or in Hm as [Hm|Hm].
    + right. apply in_or_app. now left.
    + apply in_app_or in Hm as [Hm|Hm]; [now left | right; apply in_or_app; now right].
  - apply IH. now apply register1_inv.
Qed.

Lemma visit_inv s n cov : Inv s cov -> Inv (fst (visit s n)) (cover1 n cov).
Proof.
  intro H. unfold History.visit, visit_with, History.cover1. cbn [fst].
  destruct (n_xsi n) as [t|]; [|exact H]. now apply register_inv.
Qed.

Lemma collect_spec s n cov1 : Inv s cov1 ->
  forallb (fun i => implb (memb i (n_selected n)) (mem2 (i, n_elem n) cov1)) (n_enabled n) = true ->
  collect s n = spec_node n.
Proof.
  intros [H1 _] Hok. unfold collect, spec_node. f_equal. apply filter_ext_in. intros i Hi.
  rewrite forallb_forall in Hok. specialize (Hok i Hi).
  destruct (memb i (n_selected n)); [|now rewrite andb_false_r].
  cbn [implb] in Hok. rewrite andb_true_r. apply H1. now apply mem2_In.
Qed.

Lemma cover1_incl n cov m : In m cov -> In m (cover1 n cov).
Proof. unfold History.cover1. destruct (n_xsi n); [intro; apply in_or_app; now right | auto]. Qed.

Theorem run_doc_inv : forall doc s cov, Inv s cov ->
  exists cov', (forall m, In m cov -> In m cov') /\ Inv (fst (run_doc s doc)) cov'.
Proof.
  induction doc as [|n r IH]; intros s cov H.
  - exists cov. split; [auto | exact H].
  - unfold History.run_doc in *. cbn [run_doc_with].
    pose proof (visit_inv s n cov H) as Hv. unfold History.visit in Hv.
    destruct (visit_with register1 s n) as [s1 c]; cbn [fst] in Hv.
    destruct (IH s1 _ Hv) as [cov' [Hi Hinv]].
    destruct (run_doc_with register1 s1 r) as [s2 cs]; cbn [fst] in *.
    exists cov'. split; [|exact Hinv]. intros m Hm. now apply Hi, cover1_incl.
Qed.

Theorem run_doc_spec : forall doc s cov, Inv s cov -> doc_ok cov doc = true ->
  snd (run_doc s doc) = spec_doc doc.
Proof.
  induction doc as [|n r IH]; intros s cov H Hok; [reflexivity|].
  cbn [History.doc_ok] in Hok. apply andb_true_iff in Hok as [Hn Hr].
  unfold History.run_doc in *. cbn [run_doc_with].
  pose proof (visit_inv s n cov H) as Hv. unfold History.visit in Hv.
  assert (Hc : snd (visit_with register1 s n) = spec_node n).
  { unfold visit_with; cbn [snd]. unfold visit_with in Hv; cbn [fst] in Hv. now apply (collect_spec _ n (cover1 n cov)). }
  destruct (visit_with register1 s n) as [s1 c]; cbn [fst snd] in *.
  specialize (IH s1 _ Hv Hr). destruct (run_doc_with register1 s1 r) as [s2 cs]; cbn [snd] in *.
  unfold spec_doc. cbn [flat_map]. now rewrite Hc, IH.
Qed.

Lemma after_inv W0 : forall pre s, Inv s W0 -> Inv (after widen s pre) W0.
Proof.
  induction pre as [|d r IH]; intros s H; [exact H|]. unfold after in *. cbn [fold_left]. apply IH.
  destruct (run_doc_inv d s W0 H) as [cov' [Hi Hinv]]. exact (Inv_incl _ cov' W0 Hi Hinv).
Qed.

Lemma fresh_inv W0 : Inv {| seen := []; marks := W0 |} W0.
Proof. split; cbn [seen marks]; [intros m Hm; now apply mem2_In | intros i e t Hs; discriminate]. Qed.

(* history independence of the identity registration: after any history (complete, invalid or aborted runs)
   the values collected for a consistent document are those a fresh schema object collects *)
Theorem reg_history W0 pre d : doc_ok W0 d = true ->
  snd (run_doc (after widen {| seen := []; marks := W0 |} pre) d) = snd (run_doc {| seen := []; marks := W0 |} d).
Proof.
  intro Hok. rewrite (run_doc_spec d _ W0 (after_inv W0 pre _ (fresh_inv W0)) Hok).
  now rewrite (run_doc_spec d _ W0 (fresh_inv W0) Hok).
Qed.
End RegProofs.

From XV Require Import Base Wildcard Attrs.
From XV Require Import AttrValues.

Lemma in_filled_values g ud fm attrs n v :
  In (n, v) (filled_values g ud fm attrs) <->
  exists d, In d (decls g) /\ a_name d = n /\ present attrs n = false /\ absent_value ud fm d = Some v.
Proof.
  unfold filled_values. rewrite in_flat_map. split.
  - intros [d [Hd Hin]]. exists d.
    destruct (present attrs (a_name d)) eqn:Ep; [destruct Hin|].
    destruct (absent_value ud fm d) as [w|] eqn:Ev; [|destruct Hin].
    destruct Hin as [H|[]]. injection H as <- <-. auto.
  - intros [d (Hd & <- & Hp & Hv)]. exists d. split; [exact Hd|].
    rewrite Hp, Hv. now left.
Qed.

(* the names of Attrs.filled are the names of filled_values *)
Theorem filled_names g ud fm attrs : map fst (filled_values g ud fm attrs) = filled g ud fm attrs.
Proof.
  unfold filled_values, filled. induction (decls g) as [|d r IH]; [reflexivity|].
  cbn [flat_map]. rewrite map_app, IH. f_equal.
  destruct (present attrs (a_name d)); [reflexivity|].
  unfold absent_value. destruct (a_fixed d), (a_default d), ud, fm; reflexivity.
Qed.

Theorem absent_fixed_reported g ud fm attrs d f :
  In d (decls g) -> a_fixed d = Some f -> present attrs (a_name d) = false ->
  In (a_name d, Some f) (filled_values g ud fm attrs).
Proof.
  intros Hd Hf Hp. apply in_filled_values. exists d. repeat split; auto.
  unfold absent_value. rewrite Hf. reflexivity.
Qed.

Theorem absent_default_iff g ud fm attrs d v :
  NoDup (map a_name (decls g)) ->
  In d (decls g) -> a_fixed d = None -> a_default d = Some v -> present attrs (a_name d) = false ->
  (In (a_name d, Some v) (filled_values g ud fm attrs) <-> ud = true).
Proof.
  intros Hnd Hd Hf Hdf Hp. rewrite in_filled_values. split.
  - intros [d' (Hd' & Hn & _ & Hv)].
    assert (d' = d).
    { clear - Hnd Hd Hd' Hn. induction (decls g) as [|x r IH]; [destruct Hd|].
      cbn [map] in Hnd. inversion Hnd as [|? ? Hnotin Hr]; subst.
      destruct Hd as [->|Hd], Hd' as [->|Hd']; auto.
      - exfalso. apply Hnotin. rewrite <- Hn. apply in_map. exact Hd'.
      - exfalso. apply Hnotin. rewrite Hn. apply in_map. exact Hd. }
    subst d'. unfold absent_value in Hv. rewrite Hf, Hdf in Hv.
    destruct ud; [reflexivity|]. destruct fm; discriminate.
  - intros ->. exists d. repeat split; auto. unfold absent_value. rewrite Hf, Hdf. reflexivity.
Qed.

Theorem nothing_else_without_fill g ud attrs n v :
  In (n, v) (filled_values g ud false attrs) ->
  exists d, In d (decls g) /\ a_name d = n /\ (a_fixed d <> None \/ (ud = true /\ a_default d <> None)).
Proof.
  rewrite in_filled_values. intros [d (Hd & Hn & _ & Hv)]. exists d. repeat split; auto.
  unfold absent_value in Hv. destruct (a_fixed d); [left; discriminate|].
  destruct (a_default d); [|discriminate]. destruct ud; [right; split; [reflexivity | discriminate] | discriminate].
Qed.

Theorem default_first_refuted : exists d, a_fixed d = Some 2%N /\
  absent_value_default_first true false d <> Some (Some 2%N).
Proof.
  exists {| a_name := (0, 1)%N; a_use := Optional; a_fixed := Some 2%N; a_default := Some 1%N; a_ty := 0%N |}.
  split; [reflexivity | vm_compute; discriminate].
Qed.

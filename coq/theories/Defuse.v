(* Defused parsing: model of resources/sax.py defuse_xml (pre-scan with forbidding handlers up to
   the first start tag, then rewind) and of XMLResource.is_defused.
   The parser is abstracted as the sequence of expat callbacks it produces for a document. *)
From XV Require Import Base.

Inductive cb :=
| XmlDecl | DoctypeStart (external_id : bool) | EntityDecl (parameter : bool) | UnparsedDecl
| ExtRef          (* ExternalEntityRefHandler: external DTD subset or external entity *)
| Comment | PI | Start | Text | EntityUse | End.

Definition forbidden (c : cb) : bool :=
  match c with EntityDecl _ | UnparsedDecl | ExtRef => true | _ => false end.
Definition is_start (c : cb) : bool := match c with Start => true | _ => false end.

Inductive scan := Forbidden | Clean.

(* pulldom.parse with SafeExpatParser until the first START_ELEMENT *)
Fixpoint prescan (cbs : list cb) : scan :=
  match cbs with
  | [] => Clean
  | c :: r => if forbidden c then Forbidden else if is_start c then Clean else prescan r
  end.

(* number of callbacks consumed by the pre-scan (position of the refusing callback / first start) *)
Fixpoint scanned (cbs : list cb) : nat :=
  match cbs with
  | [] => 0
  | c :: r => if forbidden c || is_start c then 1 else S (scanned r)
  end.

(* after a clean pre-scan the source is rewound and parsed normally *)
Definition parse_after (cbs : list cb) : option (list cb) :=
  match prescan cbs with Forbidden => None | Clean => Some cbs end.

Inductive dmode := DNever | DRemote | DNonlocal | DAlways.
Inductive locality := NoBase | LocalBase | RemoteBase.
Definition is_defused (m : dmode) (l : locality) : bool :=
  match m, l with
  | DAlways, _ => true
  | DNever, _ => false
  | DRemote, RemoteBase => true
  | DRemote, _ => false
  | DNonlocal, LocalBase => false
  | DNonlocal, _ => true
  end.

(* well-formed documents: declarations only occur in the prolog (before the first start tag) and an
   entity is only used after the first start tag *)
Definition no_start (cbs : list cb) : bool := forallb (fun c => negb (is_start c)) cbs.
Definition wellformed (cbs : list cb) : Prop :=
  forall pre c post, cbs = pre ++ c :: post ->
    (forbidden c = true -> no_start pre = true) /\
    (c = EntityUse -> no_start pre = false).

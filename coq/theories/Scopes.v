(* C08: an identity constraint on an element that can contain itself (recursive type).
   Every instance of the scope element has its own table of field values.  elements.py raw_decode after repo fix 8cf8a00
   keeps a stack: entering a nested instance saves the counter of the enclosing one, leaving restores it.  Before the
   fix there was one counter per constraint: entering a nested instance reset it and leaving disabled it. *)
From XV Require Import Base.

(* a scope instance: its selected values and nested instances in document order *)
Inductive stree := SNode (items : list sitem)
with sitem := Val (v : Z) | Sub (s : stree).

Definition count (v : Z) (tbl : list Z) : nat := count_occ Z.eq_dec tbl v.
(* IdentityCounter.increase: the error is raised when the count of a value becomes 2 *)
Definition dup_error (v : Z) (tbl : list Z) : nat := if Nat.eqb (count v tbl) 1 then 1 else 0.

Fixpoint own_values (items : list sitem) : list Z :=
  match items with [] => [] | Val v :: r => v :: own_values r | Sub _ :: r => own_values r end.
Fixpoint dups_of (vs : list Z) (seen : list Z) : nat :=
  match vs with [] => 0 | v :: r => dup_error v seen + dups_of r (v :: seen) end.

Section Over.
Variable f : stree -> nat.
Fixpoint sum_subs (items : list sitem) : nat :=
  match items with [] => 0 | Val _ :: r => sum_subs r | Sub s :: r => f s + sum_subs r end.
(* the items of one instance with a table of its own; nested instances are processed by f and leave the table alone *)
Fixpoint items_stack (items : list sitem) (tbl : list Z) : nat :=
  match items with
  | [] => 0
  | Val v :: r => dup_error v tbl + items_stack r (v :: tbl)
  | Sub s :: r => f s + items_stack r tbl
  end.
End Over.

(* specification: the duplicates of every instance, judged on the instance's own values *)
Fixpoint spec (s : stree) : nat :=
  match s with SNode items => dups_of (own_values items) [] + sum_subs spec items end.

(* the traversal with a stack of tables *)
Fixpoint run_stack (s : stree) : nat :=
  match s with SNode items => items_stack run_stack items [] end.

(* the traversal with one counter and an enabled flag: reset on entry, disabled on exit *)
Section Single.
Variable g : stree -> (list Z * bool) * nat.      (* a nested instance: the state it leaves behind, its errors *)
Fixpoint items_single (items : list sitem) (st : list Z * bool) : (list Z * bool) * nat :=
  match items with
  | [] => (st, 0)
  | Val v :: r =>
      if snd st then let '(st', n) := items_single r (v :: fst st, true) in (st', dup_error v (fst st) + n)
      else items_single r st
  | Sub s :: r => let '(st1, n1) := g s in let '(st2, n2) := items_single r st1 in (st2, n1 + n2)
  end.
End Single.
Fixpoint run_single (s : stree) : (list Z * bool) * nat :=
  match s with
  | SNode items => let '(st', n) := items_single run_single items ([], true) in ((fst st', false), n)
  end.

"""C04 - all validation entry points and modes agree on one verdict.

For generated valid and invalid documents (faults of the C01-C03, C07, C08 kinds against a schema with a dozen
datatypes, identity constraints and wildcards): is_valid, iter_errors, validate, strict / lax / skip decoding,
to_dict, the package-level functions and XmlDocument, for every source kind (path, file URL, text, bytes, open
text / binary file, ElementTree, Element, XMLResource), both schema classes.  The lax error list determines every
other outcome through Limits.v `run_mode` (C04_strict_raises_first, C04_is_valid_iff); decoded data of valid
documents is identical across modes and sources.  The validate command is run in a subprocess on files with
0, 1, 255, 256, 257, 512 errors (C04_cli_zero_iff_valid)."""
import io
import re
import json
import os
import subprocess
import sys

import c11
import common

IMPORTS = 'From XV Require Import Base Limits.'


def err_key(e):
    return [getattr(e, 'path', None), type(e).__name__, ' '.join(str(getattr(e, 'reason', '') or '').split())[:80]]


def canon(d):
    return json.dumps(d, sort_keys=True, default=str)


def tmpdir():
    d = os.path.join(str(common.BUILD), 'tmp', 'c04_%d' % os.getpid())
    os.makedirs(d, exist_ok=True)
    return d


def sources(doc, path):
    """(name, factory) for every source kind; ElementTree sources only for documents without prefix-dependent values"""
    import xml.etree.ElementTree as ET
    import xmlschema
    with open(path, 'w', encoding='utf-8') as f:
        f.write(doc)
    out = [('path', lambda: path), ('file-url', lambda: 'file://' + path), ('text', lambda: doc),
           ('bytes', lambda: doc.encode('utf-8')), ('text-file', lambda: open(path, encoding='utf-8')),
           ('binary-file', lambda: open(path, 'rb')), ('resource', lambda: xmlschema.XMLResource(path))]
    try:
        ET.fromstring(doc)
        wellformed = True
    except ET.ParseError:
        wellformed = False
    if wellformed and re.search(r'<(t|unk):q[ >]', doc) is None and 'xsi:type' not in doc:
        out += [('ElementTree', lambda: ET.parse(path)), ('Element', lambda: ET.parse(path).getroot())]
    return out


def subject(case):
    import xmlschema
    s = c11.schemas()[case['version']]
    doc = case['doc']
    path = os.path.join(tmpdir(), 'doc_%d.xml' % (abs(hash(doc)) % 10 ** 9))
    res = {}
    try:
        for name, mk in sources(doc, path):
            r = {}

            def with_src(fn):
                src = mk()
                try:
                    return fn(src)
                finally:
                    if hasattr(src, 'close'):
                        src.close()
            try:
                errs = with_src(lambda x: [err_key(e) for e in s.iter_errors(x)])
                r['errors'] = errs
                r['is_valid'] = with_src(lambda x: s.is_valid(x))
                try:
                    with_src(lambda x: s.validate(x))
                    r['validate'] = None
                except xmlschema.XMLSchemaValidationError as e:
                    r['validate'] = err_key(e)
                try:
                    r['decode_strict'] = ['ok', canon(with_src(lambda x: s.decode(x)))]
                except xmlschema.XMLSchemaValidationError as e:
                    r['decode_strict'] = ['raise', err_key(e)]
                d, e2 = with_src(lambda x: s.decode(x, validation='lax'))
                r['decode_lax'] = [canon(d), [err_key(e) for e in e2]]
                r['decode_skip'] = canon(with_src(lambda x: s.decode(x, validation='skip')))
                try:
                    r['to_dict'] = ['ok', canon(with_src(lambda x: s.to_dict(x)))]
                except xmlschema.XMLSchemaValidationError as e:
                    r['to_dict'] = ['raise', err_key(e)]
                # package-level functions and XmlDocument
                r['pkg_is_valid'] = with_src(lambda x: xmlschema.is_valid(x, schema=s, use_location_hints=False))
                r['pkg_errors'] = with_src(lambda x: [err_key(e) for e in xmlschema.iter_errors(x, schema=s, use_location_hints=False)])
                try:
                    with_src(lambda x: xmlschema.validate(x, schema=s, use_location_hints=False))
                    r['pkg_validate'] = None
                except xmlschema.XMLSchemaValidationError as e:
                    r['pkg_validate'] = err_key(e)
                try:
                    r['pkg_to_dict'] = ['ok', canon(with_src(lambda x: xmlschema.to_dict(x, schema=s, use_location_hints=False)))]
                except xmlschema.XMLSchemaValidationError as e:
                    r['pkg_to_dict'] = ['raise', err_key(e)]
                if name == 'resource':
                    r['xmldoc_errors'] = len(errs)      # XmlDocument does not take an XMLResource as source
                else:
                    try:
                        docobj = with_src(lambda x: xmlschema.XmlDocument(x, schema=s, validation='lax'))
                        r['xmldoc_errors'] = len(docobj.errors)
                    except Exception as e:  # noqa
                        r['xmldoc_errors'] = 'EXC ' + common.exc_class(e)
            except Exception as e:  # noqa
                r['exc'] = common.exc_class(e) + ': ' + str(e)[:100]
            res[name] = r
        # lazy resources: the verdict entry points only (lazy decoding is C06's subject, F-C06b/c)
        if 'exc' not in res.get('text', {'exc': 1}):
            for depth in (1, 2, 3):
                r = {}
                try:
                    r['errors'] = sorted(err_key(e)[2] for e in s.iter_errors(xmlschema.XMLResource(path, lazy=depth)))
                    r['is_valid'] = s.is_valid(xmlschema.XMLResource(path, lazy=depth))
                    try:
                        s.validate(xmlschema.XMLResource(path, lazy=depth))
                        r['validate'] = None
                    except xmlschema.XMLSchemaValidationError as e:
                        r['validate'] = err_key(e)[2]
                    r['pkg_is_valid'] = xmlschema.is_valid(path, schema=s, lazy=depth, use_location_hints=False)
                except Exception as e:  # noqa
                    r['exc'] = common.exc_class(e) + ': ' + str(e)[:100]
                res['lazy%d' % depth] = r
    finally:
        if os.path.exists(path):
            os.unlink(path)
    return res


def union_strict_error(strict, first):
    """identification of F-C04a: same path, the path is the union-typed element t:u of the harness schema, the strict
    error is the union's XMLSchemaDecodeError 'invalid value ...', the lax error is another (member type) error"""
    path_s, cls_s, reason_s = strict
    path_l, cls_l, reason_l = first
    return (path_s == path_l and re.search(r'[:}]u(\[\d+\])?$', path_s or '') is not None and cls_s == 'XMLSchemaDecodeError'
            and reason_s.startswith('invalid value') and cls_l != 'XMLSchemaDecodeError')


def check_docs(ctx, cases):
    impl = common.pool_map(subject, cases)
    for c, o in zip(cases, impl):
        rep = {'kind': 'doc', 'case': c}
        if 'harness_exception' in o:
            ctx.violation('subject failed: %s' % o['harness_exception'], rep, no_input=True)
            continue
        ref = o['text']
        if 'exc' in ref:
            ctx.dist('document', 'not processable: ' + ref['exc'].split(':')[0])
            # every source must fail alike
            for name, r in o.items():
                if 'exc' not in r or r['exc'].split(':')[0] != ref['exc'].split(':')[0]:
                    ctx.violation('source kind %s: %s, text source: %s' % (name, r.get('exc', 'processed'), ref['exc']),
                                  dict(rep, impl={name: r, 'text': ref}))
            continue
        E = ref['errors']
        ctx.count(('doc', c['version'], c['doc']), nontrivial=len(E) > 0)
        ctx.dist('errors_per_document', min(len(E), 5))
        problems = []
        for name, r in o.items():
            if 'exc' in r and name.startswith('lazy') and r['exc'].startswith('FOREIGN:') and \
                    any(v not in ('urn:c11', 'urn:other', 'urn:o', 'urn:unk', 'http://www.w3.org/2001/XMLSchema-instance',
                                  'http://www.w3.org/2001/XMLSchema', '') for v in re.findall(r'xmlns:\w+="([^"]*)"', c['doc'])):
                ctx.known_finding('F-C04b')     # same defect as F-C11c, reached through an ancestor in a mutated namespace
                continue
            if 'exc' in r:
                problems.append('%s: %s' % (name, r['exc']))
                continue
            if name.startswith('lazy'):
                # the verdict must not depend on the source kind; how often one fault is reported may differ between the
                # chunked and the whole-document traversal and is not compared
                if not E and r['errors'] and all('not found for' in x for x in r['errors']) and 'xsi:type' in c['doc']:
                    ctx.known_finding('F-C04c')
                    continue
                if bool(r['errors']) != bool(E):
                    problems.append('%s resource yields %d errors, the text source %d' % (name, len(r['errors']), len(E)))
                if r['is_valid'] != (not E) or r['pkg_is_valid'] != (not E) or (r['validate'] is None) != (not E):
                    problems.append('%s resource: is_valid=%s package is_valid=%s validate %s, the text source has %d errors'
                                    % (name, r['is_valid'], r['pkg_is_valid'], 'passes' if r['validate'] is None else 'raises', len(E)))
                continue
            # the model's policy applied to the lax error list of THIS source
            e = r['errors']
            want_valid = not e
            first = e[0] if e else None
            # F-C04a: for a value every member type of a union rejects, strict raises the union's own decode error
            # ("invalid value ...") while lax collects the first member's facet / pattern error (same path)
            strict_errs = [x for x in (r['validate'], r['decode_strict'][1] if r['decode_strict'][0] == 'raise' else None,
                                       r['to_dict'][1] if r['to_dict'][0] == 'raise' else None, r['pkg_validate']) if x]
            if first and strict_errs and all(x == strict_errs[0] for x in strict_errs) and strict_errs[0] != first \
                    and union_strict_error(strict_errs[0], first):
                ctx.known_finding('F-C04a')
                first = strict_errs[0]
            chk = [('is_valid', r['is_valid'] == want_valid), ('validate', r['validate'] == first),
                   ('decode_strict', (r['decode_strict'][0] == 'ok') == want_valid and
                    (want_valid or r['decode_strict'][1] == first)),
                   ('decode_lax errors', r['decode_lax'][1] == e),
                   ('to_dict', (r['to_dict'][0] == 'ok') == want_valid and (want_valid or r['to_dict'][1] == first)),
                   ('package is_valid', r['pkg_is_valid'] == want_valid), ('package iter_errors', r['pkg_errors'] == e),
                   ('package validate', r['pkg_validate'] == first),
                   ('package to_dict', (r['pkg_to_dict'][0] == 'ok') == want_valid),
                   ('XmlDocument errors', r['xmldoc_errors'] == len(e))]
            if want_valid:
                chk += [('decoded data strict = lax', r['decode_strict'][1] == r['decode_lax'][0]),
                        ('decoded data strict = skip', r['decode_strict'][1] == r['decode_skip']),
                        ('decoded data = to_dict', r['decode_strict'][1] == r['to_dict'][1])]
            for what, ok in chk:
                if not ok:
                    problems.append('%s source: %s disagrees with iter_errors (%d errors)' % (name, what, len(e)))
            # across source kinds (an ElementTree carries no prefixes: paths and data keys are spelled differently)
            tree = name in ('ElementTree', 'Element')
            if (tree and [x[1] for x in e] != [x[1] for x in E]) or (not tree and e != E):
                problems.append('%s source yields errors %s, text source %s' % (name, [x[2] for x in e][:3], [x[2] for x in E][:3]))
            elif want_valid and not tree and r['decode_strict'] != ref['decode_strict']:
                problems.append('%s source decodes to different data than the text source' % name)
        if problems:
            ctx.violation('%s (XSD %s) for %s' % ('; '.join(problems[:4]), c['version'], c['doc'][:160]),
                          dict(rep, impl={k: v for k, v in list(o.items())[:3]}, theorem='C04_strict_raises_first / C04_is_valid_iff'))
        ctx.sample({'doc': c['doc'][:200], 'errors': len(E), 'first': E[0] if E else None}, cap=4)


# ------------------------------------------------------------------ imported-namespace roots and location hints
def subject_hints(case):
    """package-level functions called with a schema instance must use that schema also when the document root is in
    a namespace the schema only imports and the document carries a resolvable xsi:schemaLocation hint"""
    import xmlschema
    d = tmpdir()
    imp = os.path.join(d, 'imp.xsd')
    other = os.path.join(d, 'other.xsd')
    main = os.path.join(d, 'main.xsd')
    with open(imp, 'w') as f:
        f.write('<xs:schema xmlns:xs="http://www.w3.org/2001/XMLSchema" targetNamespace="urn:imp">'
                '<xs:element name="e" type="xs:integer"/></xs:schema>')
    with open(other, 'w') as f:     # a permissive declaration of the same element
        f.write('<xs:schema xmlns:xs="http://www.w3.org/2001/XMLSchema" targetNamespace="urn:imp">'
                '<xs:element name="e" type="xs:string"/></xs:schema>')
    mid = os.path.join(d, 'mid.xsd')
    with open(mid, 'w') as f:       # (transitive arrangement: main imports urn:mid, which imports urn:imp)
        f.write('<xs:schema xmlns:xs="http://www.w3.org/2001/XMLSchema" targetNamespace="urn:mid">'
                '<xs:import namespace="urn:imp" schemaLocation="imp.xsd"/><xs:element name="k" type="xs:string"/></xs:schema>')
    with open(main, 'w') as f:
        f.write('<xs:schema xmlns:xs="http://www.w3.org/2001/XMLSchema" targetNamespace="urn:main">'
                '%s<xs:element name="m" type="xs:string"/></xs:schema>'
                % ('<xs:import namespace="urn:mid" schemaLocation="mid.xsd"/>' if case.get('transitive') else
                   '<xs:import namespace="urn:imp" schemaLocation="imp.xsd"/>'))
    cls = xmlschema.XMLSchema11 if case['version'] == '11' else xmlschema.XMLSchema10
    s = cls(main)
    doc = ('<i:e xmlns:i="urn:imp" xmlns:xsi="http://www.w3.org/2001/XMLSchema-instance" '
           'xsi:schemaLocation="urn:imp %s">%s</i:e>' % (other if case['hint'] else 'nowhere.xsd', case['value']))
    out = {}
    for name, fn in (('method', lambda: s.is_valid(doc)), ('package', lambda: xmlschema.is_valid(doc, s)),
                     ('package-errors', lambda: len(list(xmlschema.iter_errors(doc, s)))),
                     ('method-errors', lambda: len(list(s.iter_errors(doc)))),
                     ('package-to_dict', lambda: canon(xmlschema.to_dict(doc, s, validation='lax')[0])),
                     ('method-to_dict', lambda: canon(s.to_dict(doc, validation='lax')[0]))):
        try:
            out[name] = fn()
        except Exception as e:  # noqa
            out[name] = 'EXC ' + common.exc_class(e)
    for f in (imp, other, main, mid):
        os.unlink(f)
    return out


def check_hints(ctx):
    cases = [{'version': v, 'hint': h, 'value': val, 'transitive': t} for v in ('10', '11') for h in (True, False) for val in ('12', 'abc', '')
             for t in (False, True)]
    impl = common.pool_map(subject_hints, cases, procs=4)
    for c, o in zip(cases, impl):
        ctx.count(('hints', c['version'], c['hint'], c['value'], c['transitive']), nontrivial=c['value'] != '12')
        if 'harness_exception' in o:
            ctx.violation('hints subject failed: %s' % o['harness_exception'], {'kind': 'hints', 'case': c}, no_input=True)
            continue
        for a, b in (('method', 'package'), ('method-errors', 'package-errors'), ('method-to_dict', 'package-to_dict')):
            if o[a] != o[b]:
                ctx.violation('document <i:e>%s</i:e> in a%s imported namespace with%s a resolvable location hint (XSD %s): '
                              'schema.%s gives %s, the package-level function with the same schema gives %s'
                              % (c['value'], ' transitively' if c['transitive'] else 'n', '' if c['hint'] else 'out', c['version'], a, o[a], o[b]),
                              {'kind': 'hints', 'case': c, 'impl': o})
                break


# ------------------------------------------------------------------ CLI
def cli_doc(n_errors):
    items = ''.join('<t:item><t:n>x</t:n></t:item>' for _ in range(n_errors)) or '<t:item><t:n>1</t:n></t:item>'
    if n_errors:
        items += ''
    return '<t:root xmlns:t="urn:c11">%s</t:root>' % items


def subject_cli(case):
    d = tmpdir()
    xsd = os.path.join(d, 'cli_schema.xsd')
    with open(xsd, 'w') as f:
        # without the key: n="x" is an invalid key field as well (keeps one error per item)
        f.write(c11.RICH_XSD.replace('<xs:key name="K"><xs:selector xpath="t:item"/><xs:field xpath="t:n"/></xs:key>', '')
                .replace('<xs:keyref name="R" refer="t:K"><xs:selector xpath="t:item/t:sub"/><xs:field xpath="t:n"/></xs:keyref>', ''))
    files = []
    for i, n in enumerate(case['counts']):
        p = os.path.join(d, 'cli_%d_%d.xml' % (abs(hash(tuple(case['counts']))) % 10 ** 6, i))
        with open(p, 'w') as f:
            f.write(cli_doc(n))
        files.append(p)
    code = ("import sys; from xmlschema.cli import validate; sys.argv=['xmlschema-validate','--schema',%r]+%r; validate()"
            % (xsd, files))
    env = dict(os.environ, PYTHONPATH=str(common.REPO))
    p = subprocess.run([sys.executable, '-c', code], env=env, stdout=subprocess.PIPE, stderr=subprocess.PIPE, text=True, timeout=300)
    for f in files:
        os.unlink(f)
    import xmlschema
    s = xmlschema.XMLSchema(xsd)
    counted = [len(list(s.iter_errors(cli_doc(n)))) for n in case['counts']]
    return {'status': p.returncode, 'lib_counts': counted, 'stderr_tail': p.stderr[-200:]}


def check_cli(ctx):
    cases = [{'counts': c} for c in ([0], [1], [255], [256], [257], [512], [0, 0], [0, 256], [128, 128], [200, 100], [3, 0, 2])]
    impl = common.pool_map(subject_cli, cases, procs=6)
    terms = ['(cli_status %s)' % common.coq_list(['(repeat tt %d)' % n for n in (o.get('lib_counts') or c['counts'])])
             for c, o in zip(cases, impl)]
    model = common.coq_eval('C04', IMPORTS, '', terms)
    for c, o, m in zip(cases, impl, model):
        ctx.count(('cli', tuple(c['counts'])), nontrivial=sum(c['counts']) > 0)
        rep = {'kind': 'cli', 'case': c, 'impl': o, 'model_status': m}
        if 'harness_exception' in o:
            ctx.violation('cli subject failed: %s' % o['harness_exception'], rep, no_input=True)
            continue
        total = sum(o['lib_counts'])
        problems = []
        if (o['status'] == 0) != (total == 0):
            problems.append(('primary', 'xmlschema-validate exits with status %d for documents with %s errors'
                             % (o['status'], o['lib_counts'])))
        if o['status'] != m:
            problems.append(('aux', 'exit status %d, model %d' % (o['status'], m)))
        if problems:
            prim = [p for p in problems if p[0] == 'primary']
            ctx.violation('; '.join(p[1] for p in (prim or problems)), dict(rep, theorem='C04_cli_zero_iff_valid'),
                          no_input=not prim)


def gen(ctx):
    rng = ctx.rng
    cases = []
    n = 250 if ctx.quick() else 3000
    for i in range(n):
        d = rng.choice(c11.BASE_DOCS)
        k = rng.choice([0, 0, 1, 1, 2, 3])
        for _ in range(k):
            d = c11.mutate_doc(rng, d)
        cases.append({'doc': d, 'version': rng.choice(['10', '11', '11i'])})
    return cases


def cleanup():
    import shutil
    tmp = os.path.join(str(common.BUILD), 'tmp')
    if os.path.isdir(tmp):
        for d in os.listdir(tmp):
            if d.startswith('c04_'):
                shutil.rmtree(os.path.join(tmp, d), ignore_errors=True)


def run(ctx):
    cleanup()
    try:
        ctx.rule = ('seeded valid / invalid documents (0-3 mutations of two base documents: lexical, structural, identity, '
                    'xsi, namespace faults) x 9 source kinds x 14 entry points / modes x both schema classes; CLI on 11 '
                    'file sets with 0..512 errors; non-trivial = invalid document (or a CLI run with errors)')
        check_docs(ctx, gen(ctx))
        check_hints(ctx)
        check_cli(ctx)
    finally:
        cleanup()
    ctx.assumptions = ['PARTIAL by nature: the theorems cover the collection policy and exit status; that every source kind and '
                       'entry point feeds the same error stream is runtime plumbing checked by this differential run',
                       'ElementTree / Element sources only for documents without QName values or xsi:type (prefixes are lost)']


def replay(ctx, case):
    cleanup()
    try:
        if case.get('kind') == 'cli':
            check_cli(ctx)
        elif case.get('kind') == 'hints':
            check_hints(ctx)
        else:
            check_docs(ctx, [case['case']])
    finally:
        cleanup()

"""C20 - schema paths match instance paths; partial decoding equals the full result.

Schema with local declarations that repeat a local name with different types in different contexts (and a global
element of the same name), references to global elements, a substitution-group member, nested complex types; with
and without a target namespace.  Generated valid and invalid documents x every element path (plain, with
positional predicates, prefixed / default-namespace forms) x max_depth:
 * schema.find(path) is the declaration observed during validation through a validation hook (primary), and
   matches SchemaPath.v `find_schema` on the declaration tree (correspondence, C20_find_governs);
 * iter_decode(doc, path=p) equals the parts of the full JsonML decoding addressed by p (C20_partial_decode);
   iter_errors(doc, path=p) equals the errors of the full run located in the selected subtrees;
 * decode(doc, max_depth=k) equals the truncation of the full decoding (C20_depth_cut)."""
import json

import common
from common import coq_list, coq_N

IMPORTS = 'From XV Require Import Base Tree SchemaPath SubstPath.'
NS = 'urn:p'
NAMES = {'root': 1, 'a': 2, 'b': 3, 'c': 4, 'item': 5, 'g': 6, 'h': 7, 'm': 8, 'leaf': 9, 'deep': 10, 'qn': 11,
         'hc': 12, 'mc': 13, 'v': 14, 'x': 15, 'mr': 16}
TYPES = {'xs:int': 11, 'xs:date': 12, 'xs:string': 13, 'xs:boolean': 14, 'xs:QName': 15, 'xs:decimal': 16, 'xs:integer': 17, 'complex': 20}


XSDNS_SCHEMA = ('<schema xmlns="http://www.w3.org/2001/XMLSchema">'       # no target namespace, XSD as default namespace
                '<element name="root"><complexType><sequence>'
                '<element name="a" maxOccurs="unbounded"><complexType><sequence><element name="item" type="int" maxOccurs="unbounded"/>'
                '</sequence><attribute name="k" type="int"/></complexType>'
                '<unique name="UA"><selector xpath="item"/><field xpath="."/></unique></element>'
                '<element name="b" minOccurs="0" maxOccurs="unbounded"><complexType><sequence>'
                '<element name="item" type="date" maxOccurs="unbounded"/></sequence></complexType></element>'
                '</sequence></complexType></element></schema>')


def schema_xsd(ns, uri=NS, xsd_default=False):
    if xsd_default:
        return XSDNS_SCHEMA
    tns = ' targetNamespace="%s" xmlns:t="%s" elementFormDefault="qualified"' % (uri, uri) if ns else ''
    p = 't:' if ns else ''
    return ('<xs:schema xmlns:xs="http://www.w3.org/2001/XMLSchema"%s>'
            '<xs:element name="item" type="xs:string"/>'                     # a global with the repeated local name
            '<xs:element name="g" type="xs:boolean"/>'
            '<xs:element name="h" type="xs:string"/><xs:element name="m" type="xs:string" substitutionGroup="%sh"/>'
            # a substitution member with a type of its own (extension of the head's type): paths that go through it
            '<xs:complexType name="HT"><xs:sequence><xs:element name="v" type="xs:decimal" minOccurs="0"/></xs:sequence></xs:complexType>'
            # ... and a member whose type restricts the head's type, re-declaring the child with a narrower type
            '<xs:complexType name="RT"><xs:complexContent><xs:restriction base="P:HT"><xs:sequence><xs:element name="v" type="xs:integer" '
            'minOccurs="0"/></xs:sequence></xs:restriction></xs:complexContent></xs:complexType>'
            '<xs:element name="mr" type="P:RT" substitutionGroup="P:hc"/>'
            '<xs:complexType name="MT"><xs:complexContent><xs:extension base="P:HT"><xs:sequence><xs:element name="x" type="xs:int" '
            'minOccurs="0"/></xs:sequence></xs:extension></xs:complexContent></xs:complexType>'
            '<xs:element name="hc" type="P:HT"/><xs:element name="mc" type="P:MT" substitutionGroup="P:hc"/>'
            '<xs:complexType name="deepType"><xs:sequence><xs:element name="leaf" type="xs:int" maxOccurs="unbounded"/>'
            '<xs:element name="deep" type="%sdeepType" minOccurs="0"/></xs:sequence></xs:complexType>'
            '<xs:element name="root"><xs:complexType><xs:sequence>'
            '<xs:element name="a" maxOccurs="unbounded"><xs:complexType><xs:sequence>'
            '<xs:element name="item" type="xs:int" maxOccurs="unbounded"/></xs:sequence>'
            '<xs:attribute name="k" type="xs:int"/></xs:complexType>'
            '<xs:unique name="UA"><xs:selector xpath="%sitem"/><xs:field xpath="."/></xs:unique></xs:element>'
            '<xs:element name="b" minOccurs="0" maxOccurs="unbounded"><xs:complexType><xs:sequence>'
            '<xs:element name="item" type="xs:date" maxOccurs="unbounded"/><xs:element ref="%sg" minOccurs="0"/>'
            '<xs:element name="qn" type="xs:QName" minOccurs="0"/>'     # a QName whose prefix is declared on the parent element
            '</xs:sequence></xs:complexType></xs:element>'
            '<xs:element name="c" minOccurs="0" maxOccurs="unbounded"><xs:complexType><xs:sequence>'
            '<xs:element ref="%sh" maxOccurs="unbounded"/><xs:element name="deep" type="%sdeepType" minOccurs="0"/>'
            '<xs:element ref="P:hc" minOccurs="0" maxOccurs="unbounded"/>'
            '</xs:sequence></xs:complexType>'
            # a constraint on the middle element of three-step paths (c/deep/leaf), several scope instances
            '<xs:unique name="UC"><xs:selector xpath="%sdeep/%sleaf"/><xs:field xpath="."/></xs:unique></xs:element>'
            '</xs:sequence></xs:complexType></xs:element></xs:schema>' % (tns, p, p, p, p, p, p, p, p)).replace('P:', p)


# the declaration tree of the schema as the model sees it (deepType unfolded to a fixed depth)
def decl_tree():
    def deep(n):
        kids = [('leaf', 'xs:int', [])]
        if n:
            kids.append(('deep', 'complex', deep(n - 1)))
        return kids
    return ('root', 'complex', [
        ('a', 'complex', [('item', 'xs:int', [])]),
        ('b', 'complex', [('item', 'xs:date', []), ('g', 'xs:boolean', []), ('qn', 'xs:QName', [])]),
        # (only the heads are children of c: the members of their substitution groups are in SMAP)
        ('c', 'complex', [('h', 'xs:string', []), ('deep', 'complex', deep(4)), ('hc', 'complex', [('v', 'xs:decimal', [])])]),
    ])


# substitution group members: name -> (head, the member's own global declaration)
MEMBERS = [('m', 'h', ('m', 'xs:string', [])), ('mc', 'hc', ('mc', 'complex', [('v', 'xs:decimal', []), ('x', 'xs:int', [])])),
           ('mr', 'hc', ('mr', 'complex', [('v', 'xs:integer', [])]))]


def coq_smap():
    return coq_list(['(%s, (%s, %s))' % (coq_N(NAMES[m]), coq_N(NAMES[h]), coq_decl(d)) for m, h, d in MEMBERS])


def coq_decl(d):
    return '(SDecl %s %s %s)' % (coq_N(NAMES[d[0]]), coq_N(TYPES[d[1]]), coq_list([coq_decl(k) for k in d[2]]))


def gen_doc(rng, invalid=False, simple=False):
    def el(tag, text=None, kids=None, attrs=None):
        return {'tag': tag, 'text': text, 'kids': kids or [], 'attrs': attrs or {}}

    def deep(n):
        kids = [el('leaf', str(rng.randint(0, 4))) for _ in range(rng.randint(1, 3))]
        if n and rng.random() < 0.7:
            kids.append(el('deep', kids=deep(n - 1)))
        return kids
    kids = []
    for _ in range(rng.randint(1, 3)):
        kids.append(el('a', kids=[el('item', str(rng.choice([rng.randint(0, 99), rng.randint(0, 2)]))) for _ in range(rng.randint(1, 3))],
                       attrs={'k': '1'} if rng.random() < 0.5 else {}))
    for _ in range(rng.randint(0, 2)):
        ks = [el('item', '2020-0%d-1%d' % (rng.randint(1, 9), rng.randint(0, 9))) for _ in range(rng.randint(1, 2))]
        if rng.random() < 0.5 and not simple:
            ks.append(el('g', rng.choice(['true', 'false'])))
        battrs = {}
        if rng.random() < 0.5 and not simple:
            ks.append(el('qn', 'z:v%d' % rng.randint(1, 3)))
            battrs = {'xmlns:z': 'urn:zz'}
        kids.append(el('b', kids=ks, attrs=battrs))
    for _ in range(rng.choice([0, 1, 1, 2, 3]) if not simple else 0):
        ks = [el(rng.choice(['h', 'm']), 's%d' % i) for i in range(rng.randint(1, 3))]
        if rng.random() < 0.7:
            ks.append(el('deep', kids=deep(3)))
        for _k in range(rng.choice([0, 0, 1, 2])):
            r3 = rng.random()
            if r3 < 0.35:
                ks.append(el('hc', kids=[el('v', rng.choice(['1.5', '2']))] if rng.random() < 0.7 else []))
            elif r3 < 0.7:
                ks.append(el('mc', kids=([el('v', rng.choice(['1.5', '2']))] if rng.random() < 0.5 else []) +
                             ([el('x', str(rng.randint(0, 9)))] if rng.random() < 0.7 else [])))
            else:
                # (with `invalid`, also a decimal where the member's type wants an integer)
                ks.append(el('mr', kids=[el('v', '1.5' if invalid and rng.random() < 0.5 else str(rng.randint(0, 9)))] if rng.random() < 0.8 else []))
        kids.append(el('c', kids=ks))
    doc = el('root', kids=kids)
    if invalid:
        # damage one or two leaves
        leaves = [n for _a, n in nodes(doc) if n['text'] is not None]
        for n in rng.sample(leaves, min(len(leaves), rng.randint(1, 2))):
            n['text'] = 'BAD'
    return doc


def nodes(n, a=()):
    yield a, n
    for i, k in enumerate(n['kids']):
        yield from nodes(k, a + (i,))


def render(n, ns, top=True, default_ns=False, uri=NS):
    p = '' if (not ns or default_ns) else 't:'
    a = ''.join(' %s="%s"' % kv for kv in n['attrs'].items())
    if top and ns:
        a = (' xmlns="%s"' % uri if default_ns else ' xmlns:t="%s"' % uri) + a
    inner = (n['text'] or '') + ''.join(render(k, ns, False, default_ns, uri) for k in n['kids'])
    return '<%s%s%s>%s</%s%s>' % (p, n['tag'], a, inner, p, n['tag'])


def path_of(doc, a, ns, positions, default_ns=False):
    p = 't:' if ns and not default_ns else ''
    s = '/' + p + 'root'
    n = doc
    for i in a:
        c = n['kids'][i]
        same = [k for k in n['kids'] if k['tag'] == c['tag']]
        s += '/' + p + c['tag']
        if positions and len(same) > 1:
            s += '[%d]' % (1 + [id(k) for k in same].index(id(c)))
        n = c
    return s


def select_addrs(doc, a, positions):
    """addresses selected by the path of address a (without positions: all nodes with the same tag path)"""
    if positions:
        return [a]
    tags = []
    n = doc
    for i in a:
        n = n['kids'][i]
        tags.append(n['tag'])
    out = []
    for b, m in nodes(doc):
        if len(b) == len(a):
            t, x = [], doc
            for i in b:
                x = x['kids'][i]
                t.append(x['tag'])
            if t == tags:
                out.append(b)
    return out


def jsonml_sub(data, a):
    for i in a:
        kids = [x for x in data[1:] if isinstance(x, list)]
        data = kids[i]
    return data


def strip_root_xmlns(x):
    """a part decoded on its own reports the in-scope namespace declarations on its root: not a data difference"""
    if isinstance(x, list) and len(x) > 1 and isinstance(x[1], dict):
        attrs = {k: v for k, v in x[1].items() if not k.startswith('xmlns')}
        return [x[0]] + ([attrs] if attrs else []) + x[2:]
    return x


def jsonml_truncate(data, k):
    head = [x for x in data if not isinstance(x, list)]
    kids = [x for x in data[1:] if isinstance(x, list)]
    if k <= 1:
        # nodes at the cut keep their attributes; simple content of elements at the cut is kept only by leaves
        return [data[0]] + [x for x in data[1:] if isinstance(x, dict)] if kids else head
    return head[:1] + [x for x in data[1:] if isinstance(x, dict)] + [jsonml_truncate(c, k - 1) for c in kids] \
        + [x for x in head[1:] if not isinstance(x, dict)] if kids else head


_S = {}


def subject(case):
    import xmlschema
    if case.get('second') is not None and not case.get('_inner'):
        # the same prefixed paths first on a document of another namespace bound to the same prefix, in this process
        subject(dict(case, doc=case['second'], uri='urn:p2', _inner=True,
                     addrs=[list(a) for a, _n in nodes(case['second']) if a][:10]))
    uri = case.get('uri', NS)
    key = (case['ns'], case['version'], uri, bool(case.get('xsd_default')))
    if key not in _S:
        cls = xmlschema.XMLSchema11 if case['version'] == '1.1' else xmlschema.XMLSchema10
        _S[key] = cls(schema_xsd(case['ns'], uri, bool(case.get('xsd_default'))))
    s = _S[key]
    doc, ns = case['doc'], case['ns']
    xml = render(doc, ns, default_ns=case['default_ns'], uri=uri)
    nsmap = {'': uri} if case['default_ns'] else ({'t': uri} if ns else {})
    out = {'paths': []}
    conv = xmlschema.JsonMLConverter
    # declarations used during validation, by element identity
    used = {}

    def hook(elem, xsd_element):
        used[id(elem)] = xsd_element
        return False
    res = xmlschema.XMLResource(xml)
    full_errors = [(e.path, str(e.reason)[:60]) for e in s.iter_errors(res, validation_hook=hook)]
    full = s.decode(res, validation='lax', converter=conv)[0]
    out['full_errors'] = full_errors
    # address -> element
    elems = {}

    def walk(e, a):
        elems[a] = e
        for i, c in enumerate(e):
            walk(c, a + (i,))
    walk(res.root, ())
    for a in case['addrs']:
        a = tuple(a)
        for positions in (True, False):
            p = path_of(doc, a, ns, positions, case['default_ns'])
            r = {'addr': list(a), 'path': p, 'positions': positions}
            try:
                found = s.find(p, namespaces=nsmap)
                u = used.get(id(elems[a]))
                if u is not None and found is not u and (found is None or found.name != elems[a].tag or
                                                         any(elems[a[:k]].tag.split('}')[-1] in ('mc', 'mr') for k in range(1, len(a)))):
                    # a substitution-group member: find() gives the head particle (nothing for the children that only the
                    # member's type declares, the head's child for those that the member's type re-declares), get_element() -
                    # the lookup that validation uses - resolves the member and the declarations below it
                    found = s.get_element(elems[a].tag, p, nsmap)
                r['find'] = None if found is None else [found.name, 'complex' if found.type.is_complex() else (found.type.name or '?')]
                r['used'] = None if u is None else [u.name, 'complex' if u.type.is_complex() else (u.type.name or '?')]
                r['same_decl'] = (found is u) or (found is not None and u is not None and found.type is u.type and found.name == u.name)
            except Exception as e:  # noqa
                r['find_exc'] = common.exc_class(e) + ': ' + str(e)[:80]
            try:
                part = list(s.iter_decode(res, path=p, namespaces=nsmap, validation='lax', converter=conv))
                r['part'] = [strip_root_xmlns(x) for x in part if not isinstance(x, Exception)]
                r['part_errors'] = sorted(str(x.reason)[:60] for x in part if isinstance(x, Exception))
                r['val_errors'] = sorted(str(e.reason)[:60] for e in s.iter_errors(res, path=p, namespaces=nsmap))
                want = [strip_root_xmlns(jsonml_sub(full, b)) for b in select_addrs(doc, a, positions)]
                r['want'] = want
                sel = select_addrs(doc, a, positions)
                r['want_errors'] = sorted(reason for pth, reason in full_errors
                                          if any(pth == path_of(doc, b, ns, True, case['default_ns']) or
                                                 pth.startswith(path_of(doc, b, ns, True, case['default_ns']) + '/') for b in sel))
            except Exception as e:  # noqa
                r['part_exc'] = common.exc_class(e) + ': ' + str(e)[:80]
            out['paths'].append(r)
        # the children of the parent selected by a wildcard-terminated path: .../parent[k]/*
        if a:
            par = a[:-1]
            p = path_of(doc, par, ns, True, case['default_ns']) + '/*'
            r = {'addr': list(a), 'path': p, 'positions': False, 'same_decl': True}
            sibs = [par + (i,) for i in range(len(elems[par]))]
            # the lookup of a child's declaration through the wildcard-terminated path of its parent
            try:
                g = s.get_element(elems[a].tag, p, nsmap)
                u = used.get(id(elems[a]))
                if u is not None and not ((g is u) or (g is not None and g.type is u.type and g.name == u.name)):
                    r['same_decl'] = False
                    r['find'] = None if g is None else [g.name, 'complex' if g.type.is_complex() else g.type.name]
                    r['used'] = [u.name, 'complex' if u.type.is_complex() else u.type.name]
            except Exception as e:  # noqa
                r['find_exc'] = common.exc_class(e) + ': ' + str(e)[:80]
            try:
                part = list(s.iter_decode(res, path=p, namespaces=nsmap, validation='lax', converter=conv))
                r['part'] = [strip_root_xmlns(x) for x in part if not isinstance(x, Exception)]
                r['part_errors'] = sorted(str(x.reason)[:60] for x in part if isinstance(x, Exception))
                r['val_errors'] = sorted(str(e.reason)[:60] for e in s.iter_errors(res, path=p, namespaces=nsmap))
                r['want'] = [strip_root_xmlns(jsonml_sub(full, b)) for b in sibs]
                r['want_errors'] = sorted(reason for pth, reason in full_errors
                                          if any(pth == path_of(doc, b, ns, True, case['default_ns']) or
                                                 pth.startswith(path_of(doc, b, ns, True, case['default_ns']) + '/') for b in sibs))
            except Exception as e:  # noqa
                r['part_exc'] = common.exc_class(e) + ': ' + str(e)[:80]
            if not any(x['path'] == p for x in out['paths']):
                out['paths'].append(r)
        # a wildcard step above the name: .../grandparent[k]/*/name selects the same name in every context below
        if len(a) >= 2:
            gp = a[:-2]
            step = path_of(doc, a, ns, False, case['default_ns']).rsplit('/', 1)[-1]
            p = path_of(doc, gp, ns, True, case['default_ns']) + '/*/' + step
            sel = [gp + (i, j) for i in range(len(elems[gp])) for j in range(len(elems[gp + (i,)]))
                   if elems[gp + (i, j)].tag == elems[a].tag]
            r = {'addr': list(a), 'path': p, 'positions': False, 'same_decl': True}
            try:
                part = list(s.iter_decode(res, path=p, namespaces=nsmap, validation='lax', converter=conv))
                r['part'] = [strip_root_xmlns(x) for x in part if not isinstance(x, Exception)]
                r['part_errors'] = sorted(str(x.reason)[:60] for x in part if isinstance(x, Exception))
                r['val_errors'] = sorted(str(e.reason)[:60] for e in s.iter_errors(res, path=p, namespaces=nsmap))
                r['want'] = [strip_root_xmlns(jsonml_sub(full, b)) for b in sel]
                r['want_errors'] = sorted(reason for pth, reason in full_errors
                                          if any(pth == path_of(doc, b, ns, True, case['default_ns']) or
                                                 pth.startswith(path_of(doc, b, ns, True, case['default_ns']) + '/') for b in sel))
            except Exception as e:  # noqa
                r['part_exc'] = common.exc_class(e) + ': ' + str(e)[:80]
            if not any(x['path'] == p for x in out['paths']):
                out['paths'].append(r)
        # descendant steps: .//name (every element of that name in the document, below the root) and .../parent[k]//name
        if a:
            step = path_of(doc, a, ns, False, case['default_ns']).rsplit('/', 1)[-1]
            alla = [b for b in elems if b and elems[b].tag == elems[a].tag]
            forms = [('.//' + step, alla)]
            if len(a) >= 2:
                gp = a[:-2]
                forms.append((path_of(doc, gp, ns, True, case['default_ns']) + '//' + step,
                              [b for b in alla if len(b) > len(gp) and b[:len(gp)] == gp]))
            for p, sel in forms:
                if any(x['path'] == p for x in out['paths']):
                    continue
                sel = sorted(sel)
                r = {'addr': list(a), 'path': p, 'positions': False, 'same_decl': True}
                try:
                    part = list(s.iter_decode(res, path=p, namespaces=nsmap, validation='lax', converter=conv))
                    r['part'] = [strip_root_xmlns(x) for x in part if not isinstance(x, Exception)]
                    r['part_errors'] = sorted(str(x.reason)[:60] for x in part if isinstance(x, Exception))
                    r['val_errors'] = sorted(str(e.reason)[:60] for e in s.iter_errors(res, path=p, namespaces=nsmap))
                    # a selected element that lies inside another selected element is processed with it and again on its own
                    r['want'] = [strip_root_xmlns(jsonml_sub(full, b)) for b in sel]
                    r['want_errors'] = sorted(reason for b in sel for pth, reason in full_errors
                                              if pth == path_of(doc, b, ns, True, case['default_ns']) or
                                              pth.startswith(path_of(doc, b, ns, True, case['default_ns']) + '/'))
                except Exception as e:  # noqa
                    r['part_exc'] = common.exc_class(e) + ': ' + str(e)[:80]
                out['paths'].append(r)
    # the declarations used when the document is validated chunk by chunk (lazy resources look them up by path too)
    out['lazy'] = {}
    for k in (1, 2):
        try:
            out['lazy'][str(k)] = sorted(str(e.reason)[:60] for e in s.iter_errors(xmlschema.XMLResource(xml, lazy=k)))
        except Exception as e:  # noqa
            out['lazy'][str(k)] = 'EXC ' + common.exc_class(e) + ': ' + str(e)[:80]
    out['depth'] = {}
    for k in (1, 2, 3, 4):
        try:
            out['depth'][str(k)] = [s.decode(res, validation='lax', converter=conv, max_depth=k)[0], jsonml_truncate(full, k)]
        except Exception as e:  # noqa
            out['depth'][str(k)] = 'EXC ' + common.exc_class(e) + ': ' + str(e)[:80]
    return out


def coq_tree(n):
    return '(Node %s %s)' % (coq_N(NAMES[n['tag']]), coq_list([coq_tree(k) for k in n['kids']]))


def evaluate(ctx, cases):
    impl = common.pool_map(subject, cases)
    terms, owner = [], []
    decl = coq_decl(decl_tree())
    for ci, (c, o) in enumerate(zip(cases, impl)):
        if 'paths' not in o:
            continue
        for k, r in enumerate(o['paths']):
            if r['positions']:
                # the lookup that resolves every step from the declaration found for its parent (SubstPath.get_parent, proved
                # equal to the governing declaration: C20_lookup_from_parent_is_governing)
                terms.append('(match get_parent %s %s (names_along %s %s) with Some d => Some (d_name d, d_ty d) | None => None end)'
                             % (coq_smap(), decl, coq_tree(c['doc']), coq_list([str(i) for i in r['addr']])))
                owner.append((ci, k))
    model = dict(zip(owner, common.coq_eval('C20', IMPORTS, '', terms, shard=200)))
    rev_n = {v: k for k, v in NAMES.items()}
    rev_t = {v: k for k, v in TYPES.items()}
    for ci, (c, o) in enumerate(zip(cases, impl)):
        xml = render(c['doc'], c['ns'], default_ns=c['default_ns'])
        rep = {'kind': 'paths', 'case': c, 'xml': xml}
        if 'harness_exception' in o:
            ctx.violation('subject failed: %s' % o['harness_exception'], rep, no_input=True)
            continue
        problems, aux = [], []
        for k, r in enumerate(o['paths']):
            ctx.count(('p', xml, r['path'], c['version']), nontrivial=len(r['addr']) >= 2)
            ctx.dist('path_depth', len(r['addr']))
            if 'find_exc' in r:
                problems.append('schema.find(%s) raised %s' % (r['path'], r['find_exc']))
            elif not r['same_decl']:
                problems.append('schema.find(%s) gives %s, the declaration used in validation is %s' % (r['path'], r['find'], r['used']))
            m = model.get((ci, k))
            if m is not None and 'find' in r:
                mv = m[1] if isinstance(m, tuple) and m[0] == 'Some' else m
                want = None if mv is None else [rev_n[mv[0]], rev_t[mv[1]]]
                got = r['find'] and [r['find'][0].split('}')[-1],
                                     'complex' if r['find'][1] == 'complex' or 'Type' in str(r['find'][1]) else
                                     'xs:' + r['find'][1].split('}')[-1]]
                if want != got:
                    aux.append('find(%s): implementation %s, model %s' % (r['path'], got, want))
            if 'part_exc' in r:
                problems.append('iter_decode(path=%s) raised %s' % (r['path'], r['part_exc']))
            else:
                if r['part'] != r['want']:
                    problems.append('decoding with path=%s gives %s, the full decoding has %s there'
                                    % (r['path'], json.dumps(r["part"], default=str)[:120], json.dumps(r["want"], default=str)[:120]))
                if r['positions'] is True:
                    # a path with positions selects one node: a duplicate needs two, the uniqueness errors of the scope above
                    # the selection cannot be expected from validating that node alone
                    for k in ('want_errors', 'val_errors', 'part_errors'):
                        if r.get(k) is not None:
                            r[k] = [x for x in r[k] if not ('duplicated value' in x and ('UA' in x or 'UC' in x))]
                if r.get('val_errors') is not None and r['val_errors'] != r['want_errors']:
                    problems.append('iter_errors(path=%s) gives %s, the full run has %s in the selected part'
                                    % (r['path'], r['val_errors'][:3], r['want_errors'][:3]))
                if r['part_errors'] != r['want_errors']:
                    missing = [x for x in r['want_errors'] if x not in r['part_errors']]
                    extra = [x for x in r['part_errors'] if x not in r['want_errors']]
                    if missing and not extra and all('duplicated value' in x and ('UA' in x or 'UC' in x) for x in missing) \
                            and r.get('val_errors') == r['want_errors']:
                        ctx.known_finding('F-C20a')     # decoding with a path below the scope element skips its identity constraints
                    else:
                        problems.append('errors with path=%s are %s, the full run has %s in the selected part'
                                        % (r['path'], r['part_errors'][:3], r['want_errors'][:3]))
        full_reasons = sorted(r for _p, r in o['full_errors'])
        for k, v in o.get('lazy', {}).items():
            ctx.count(('lazy', xml, k, c['version']), nontrivial=True)
            if v != full_reasons:
                problems.append('validation through a lazy resource (depth %s) reports %s, the loaded document %s'
                                % (k, v[:3] if isinstance(v, list) else v, full_reasons[:3]))
        for k, v in o['depth'].items():
            ctx.count(('d', xml, k, c['version']), nontrivial=True)
            if isinstance(v, str):
                problems.append('decode(max_depth=%s) raised %s' % (k, v))
            elif v[0] != v[1]:
                problems.append('decode(max_depth=%s) gives %s, the full decoding cut at that depth is %s'
                                % (k, json.dumps(v[0], default=str)[:140], json.dumps(v[1], default=str)[:140]))
        if problems or aux:
            ctx.violation('%s [XSD %s] %s' % ('; '.join((problems or aux)[:3]), c['version'], xml[:150]),
                          dict(rep, impl={'paths': o['paths'][:4]}, theorem='C20_find_governs / C20_partial_decode / C20_depth_cut'),
                          no_input=not problems)
        ctx.sample({'xml': xml[:200], 'paths': [r['path'] for r in o['paths'][:5]]}, cap=4)


# ------------------------------------------------------------------ the selector cache (KeyedMemo.v)
def subject_selcache(case):
    """a history of cached_selector(path, namespaces) calls in one process; each result is compared with a selector built
    afresh for the same arguments, by what it selects on a document"""
    import xmlschema
    from xmlschema.xpath.selectors import ElementSelector, _selectors_cache
    out = []
    for path, nsitems, di in case['calls']:
        ns = dict(nsitems)
        res = xmlschema.XMLResource(case['docs'][di])
        before = len(_selectors_cache)
        try:
            cached = ElementSelector.cached_selector(path, ns)
            hit = len(_selectors_cache) == before
            got = [e.tag for e in cached.iter_select(res)]
            want = [e.tag for e in ElementSelector(path, ns).iter_select(res)]
            out.append({'hit': hit, 'got': got, 'want': want})
        except Exception as e:  # noqa
            out.append({'exc': common.exc_class(e) + ': ' + str(e)[:80]})
    return out


def check_selector_cache(ctx):
    rng = ctx.rng
    docs = ['<root xmlns="urn:a"><a><item>1</item></a><item>2</item></root>', '<root xmlns="urn:b"><a><item>1</item></a><item>2</item></root>',
            '<root><a><item>1</item></a><item>2</item></root>', '<p:root xmlns:p="urn:a"><p:a><p:item>1</p:item></p:a><p:item>2</p:item></p:root>']
    paths = ['item', 'a/item', '*/item', './/item', 'p:item', 'p:a/p:item', '/root/item']
    nss = [[], [['', 'urn:a']], [['', 'urn:b']], [['p', 'urn:a']], [['p', 'urn:b']], [['', 'urn:a'], ['p', 'urn:b']]]
    cases = [{'docs': docs, 'calls': [[rng.choice(paths), rng.choice(nss), rng.randrange(len(docs))] for _ in range(rng.randint(3, 8))]}
             for _ in range(40 if ctx.quick() else 600)]
    impl = common.pool_map(subject_selcache, cases, fresh_process=True)
    for c, o in zip(cases, impl):
        rep = {'kind': 'selector-cache', 'case': c, 'impl': o}
        if isinstance(o, dict):
            ctx.violation('selector cache family failed to run: %s' % o.get('harness_exception'), rep, no_input=True)
            continue
        for k, ((path, ns, di), r) in enumerate(zip(c['calls'], o)):
            ctx.count(('selcache', json.dumps(c['calls'][:k + 1])), nontrivial=k > 0)
            if 'exc' in r:
                ctx.dist('selector cache', 'raises')
                continue
            ctx.dist('selector cache', 'hit' if r['hit'] else 'miss')
            if r['got'] != r['want']:
                ctx.violation('after the calls %s the cached selector for path %r with namespaces %s selects %s in %s, a selector built afresh '
                              'selects %s (a cache key that forgets part of the arguments: C10_keyed_memo_history / C10_coarse_key_refuted)'
                              % (c['calls'][:k], path, dict(ns), r['got'], c['docs'][di][:60], r['want']),
                              dict(rep, theorem='C10_keyed_memo_history'))
                break


def gen(ctx):
    rng = ctx.rng
    cases = []
    for i in range(40 if ctx.quick() else 600):
        doc = gen_doc(rng, invalid=(i % 3 == 2))
        addrs = [list(a) for a, _n in nodes(doc) if a]
        if ctx.quick() and len(addrs) > 12:
            addrs = rng.sample(addrs, 12)
        ns = i % 2 == 1
        cases.append({'doc': doc, 'ns': ns, 'default_ns': ns and (i % 4 == 3), 'version': '1.1' if (i // 2) % 2 else '1.0',
                      'addrs': addrs, 'second': gen_doc(rng) if ns and i % 4 == 1 else None})
    # the schema written with XSD as its default namespace (no prefix for the XSD elements), documents without namespaces
    for i in range(8 if ctx.quick() else 100):
        doc = gen_doc(rng, invalid=(i % 3 == 2), simple=True)
        addrs = [list(a) for a, _n in nodes(doc) if a]
        cases.append({'doc': doc, 'ns': False, 'default_ns': False, 'version': '1.1' if i % 2 else '1.0', 'addrs': addrs[:12],
                      'second': None, 'xsd_default': True})
    return cases


def run(ctx):
    ctx.rule = ('seeded documents (valid, and invalid by 1-2 damaged leaves) of a schema with the local name `item` typed '
                'int / date in two contexts plus a global `item`, global references, a substitution member, a recursive type; '
                'with and without target namespace (prefixed and default-namespace spelling) x every element path with and '
                'without positional predicates x max_depth 1-4; non-trivial = path of depth >= 2 (and every max_depth case)')
    evaluate(ctx, gen(ctx))
    check_selector_cache(ctx)
    ctx.assumptions = ['only child-step paths (with positional predicates) are claimed; general XPath is elementpath\'s',
                       'decoded parts are compared with the JsonML converter (ordered, addressable)']


def replay(ctx, case):
    if case.get('kind') == 'selector-cache':
        check_selector_cache(ctx)
    else:
        evaluate(ctx, [case['case']])

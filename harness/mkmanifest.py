"""Regenerates /verif/MANIFEST.json from the table below (run after adding a check)."""
import json
import os
from pathlib import Path

VERIF = Path(__file__).resolve().parent.parent
LEVEL_NOTE = ('Trusted: Coq 8.16.1 kernel (vm_compute used, no native_compute), no axioms declared; '
              'hand-written Gallina model tied to /repo by a correspondence check that runs the model '
              'inside Coq and the implementation on the same abstract cases (differential testing, not proof); '
              'Python renderers/canonicalisers; XSD parsing, elementpath, ElementTree/pyexpat, CPython are '
              'exercised, not modelled. See DESIGN.md section 3.')

CHECKS = {
    'C01': dict(
        text='Proof (all particles, all words, unbounded) that the oracle `accepts` - Brzozowski derivatives with '
             'interleave on the compiled particle - decides the XSD content-model language defined from the XSD text, '
             'including XSD 1.1 open content; the implementation is tied to it by exhaustive (one-group family, words '
             'up to length 5) and seeded random differential runs on deterministic models. The visitor algorithm of '
             'the implementation is not itself verified and is known to be wrong on families of models (F-C01).',
        technique='Coq proof that a derivative matcher decides the declarative XSD particle language; '
                  'model-vs-implementation verdict vectors compared inside Coq (vm_compute)',
        design='5/C01'),
    'C15': dict(
        text='Proof that the decision procedure upa_check (certificate-checked closure of ACI-normalised derivatives '
             'over the marked alphabet) answers true exactly for models satisfying the declarative Unique Particle '
             'Attribution statement (and edc_check for Element Declarations Consistent); the build verdict of both '
             'schema classes is compared with it on exhaustive small and seeded random models. The syntactic test of '
             'the implementation is not verified and is known unsound and incomplete (F-C15a/b).',
        technique='Coq proof of a UPA decision procedure against declarative UPA; differential build verdicts',
        design='5/C15'),
    'C17': dict(
        text='Proof that the modelled NamespaceMapper (stacked mode) keeps, for every operation history, the invariant '
             '"every reverse entry is backed by a live prefix binding" and that under it unmap(map(name)) = name; '
             'push/pop of a declaring node restores the maps (partial: single push/pop, not whole traversals). Tied to '
             'the code by pre-order operation sequences of generated documents (shadowing, default set/unset) and end '
             'to end by resolving every decoded key and re-encoding (JsonML and default converters).',
        technique='Coq invariant proof for a faithful model of NamespaceMapper; differential op sequences; '
                  'decode/encode name resolution on generated documents',
        design='5/C17'),
    'C03': dict(
        text='Proof that the modelled attribute-group validation (required check, declared / prohibited / wildcard '
             'routing, type and fixed-value checks in value space, strict/lax/skip lookup of global declarations) '
             'reports no error exactly when the set-based statement of the property holds, and that the absent names '
             'appearing in decoded data are exactly those with a fixed value, a default under use_defaults, or all under '
             'fill_missing. Tied to the code by seeded declaration sets x wildcards x attribute subsets x options.',
        technique='Coq proof: faithful model of XsdAttributeGroup/XsdAnyAttribute decoding = declarative spec; '
                  'differential error kinds, verdicts and filled names',
        design='5/C03'),
    'C07': dict(
        text='Proof, over arbitrary acyclic type environments, that the modelled is_derived / is_blocked / xsi:type / '
             'substitution decisions hold exactly when a derivation chain exists whose methods avoid the element and '
             'declared-type block sets and the type is not abstract; the xsi:nil table and first-alternative selection '
             'are characterised. Tied to the code by seeded hierarchies x every type name as xsi:type, every member in '
             'place of its head, nil/fixed/alternative instance variants (emptiable content, so only C07 rules decide).',
        technique='Coq proof: faithful model of is_derived/is_blocked = chain reachability avoiding blocked methods; '
                  'differential verdicts on generated hierarchies',
        design='5/C07'),
    'C08': dict(
        text='Proof that the modelled identity tables report no unique/key/keyref/ID error exactly under the declarative '
             'conditions (NoDup of qualified tuples, completeness for keys, membership for complete keyref tuples, '
             'NoDup ids and refs included), per scope instance. Tied to the code by exhaustive small tables and seeded '
             'templates with lexical variants, missing fields, nested scopes and ID/IDREF.',
        technique='Coq proof of the identity-table logic against declarative conditions; differential error counts',
        design='5/C08'),
    'C16': dict(
        text='Proof (all namespace lists, both versions) that the modelled union / intersection / '
             'is_restriction / is_overlap coincide with set union / intersection / inclusion / non-empty '
             'intersection of the denoted namespace sets (same target namespace); the model is tied to the code '
             'by an exhaustive sweep of all constraint pairs at component level and end to end.',
        technique='Coq proof of set-algebra laws for a faithful model of XsdWildcard; exhaustive '
                  'model-vs-implementation correspondence via vm_compute',
        design='5/C16'),
}
NOT_YET = 'check not built yet in this round (planned, see DESIGN.md section 5)'


def main():
    props = [json.loads(l)['id'] for l in open(VERIF / 'properties.jsonl')]
    checks = []
    for pid in props:
        if pid not in CHECKS:
            continue
        c = CHECKS[pid]
        checks.append({
            'property_id': pid,
            'quick_cmd': './check %s --tier quick' % pid,
            'thorough_cmd': './check %s --tier thorough' % pid,
            'evidence_file': 'evidence/%s.json' % pid,
            'replay_cmd_template': './check %s --replay {path}' % pid,
            'engine': 'coq-model+correspondence',
            'level_claimed': {'category': 'proof', 'text': c['text'], 'design_ref': c['design']},
            'level_note': LEVEL_NOTE + (' ' + c['note'] if c.get('note') else ''),
            'technique': c['technique'],
        })
    man = {
        'version': 1,
        'setup_cmd': 'cd coq && coq_makefile -f _CoqProject -o Makefile && timeout 3000 make -j16',
        'hooks': {
            'guard': 'XMLSCHEMA_VERIF',
            'enable': 'no hooks are needed: checks import /repo through PYTHONPATH=/repo and observe through '
                      'public API, sys.addaudithook and sys.settrace',
            'baseline_off_cmd': 'cd /repo && /venv/bin/python -m pytest -ra -q -p no:cacheprovider --timeout=900 '
                                '--continue-on-collection-errors',
            'source_commits': [],
            'add_only': True,
        },
        'engines': [{
            'name': 'coq-model+correspondence',
            'path': 'check',
            'serves_properties': [c['property_id'] for c in checks],
            'kind_free_text': 'Coq 8.16 development (coq/theories) with one props/Cxx.v per property; Python '
                              'harness (harness/) evaluating the model with vm_compute against /repo',
        }],
        'checks': checks,
        'not_applicable': [{'property_id': p, 'reason': NOT_YET} for p in props if p not in CHECKS],
        'notes': 'See DESIGN.md. known_findings.json lists genuine defects (fixed: entries suppress nothing).',
    }
    (VERIF / 'MANIFEST.json').write_text(json.dumps(man, indent=1))


if __name__ == '__main__':
    main()

"""Entry point: ./check Cxx [--tier quick|thorough] [--replay FILE]"""
import argparse
import importlib
import json
import os
import sys
import traceback

sys.path.insert(0, os.path.dirname(os.path.abspath(__file__)))
import common  # noqa: E402


def main():
    ap = argparse.ArgumentParser()
    ap.add_argument('pid')
    ap.add_argument('--tier', default=os.environ.get('VERIF_TIER') or 'quick')
    ap.add_argument('--replay')
    ap.add_argument('--no-build', action='store_true')
    args = ap.parse_args()
    pid = args.pid.upper()
    tier = 'thorough' if args.tier == 'thorough' else 'quick'
    try:
        seed = int(os.environ.get('VERIF_SEED') or 0)
    except ValueError:
        seed = 0
    ctx = common.Ctx(pid, tier, seed)

    # 1. proof obligations
    broken = []
    ok, log = (True, '') if args.no_build else common.coq_build()
    hits = common.forbidden_scan()
    obl = common.prop_obligations(pid)
    if hits:
        broken.append('forbidden constructs in the Coq development: %s' % hits)
    if not obl['ok']:
        broken.append('props/%s.v does not compile: %s' % (pid, (obl['log'] or log)[-1500:]))
    if obl['missing_print_assumptions']:
        broken.append('theorems without Print Assumptions output: %s' % obl['missing_print_assumptions'])

    # 2. correspondence
    mod = importlib.import_module(pid.lower())
    try:
        if args.replay:
            case = json.loads(open(args.replay).read())
            mod.replay(ctx, case)
        else:
            mod.run(ctx)
    except Exception as e:  # the correspondence machinery itself no longer runs against this tree
        ctx.violation('correspondence harness for %s failed to run: %s: %s' % (pid, type(e).__name__, e),
                      {'kind': 'harness-failure', 'correspondence': 'harness/%s.py' % pid.lower(),
                       'traceback': traceback.format_exc()[-4000:]}, no_input=True)

    if broken and not any(not v[2] for v in ctx.violations):
        ctx.violation('proof obligation broken: ' + '; '.join(broken),
                      {'kind': 'broken-obligation', 'theorems': obl['theorems'], 'detail': broken},
                      no_input=True)

    # 3. report
    ev = common.write_evidence(ctx, obl)
    for f in ctx.known:
        if ctx.known_hits.get(f['id']):
            print('KNOWN-FINDING: property=%s %s %s (reproduced on %d input(s))'
                  % (pid, f['id'], f['what_fails'], ctx.known_hits[f['id']]))
    seen = set()
    for msg, path, no_input in ctx.violations:
        if path in seen:
            continue
        seen.add(path)
        print('VIOLATION property=%s replay=%s%s' % (pid, path, ' no-failing-input-found' if no_input else ''))
        print('  ' + msg[:600].replace('\n', ' '))
    print('%s %s tier=%s seed=%d evaluations=%d nontrivial=%d obligations=%d/%d wall=%.1fs'
          % (pid, 'FAIL' if ctx.violations else 'ok', tier, seed, ev['coverage']['evaluations'],
             ev['coverage']['distinct_nontrivial'], ev['coverage']['discharged'],
             ev['coverage']['obligations'], ev['wall_s']))
    sys.exit(1 if ctx.violations else 0)


if __name__ == '__main__':
    main()

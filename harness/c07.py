"""C07 - dynamic typing, substitution and nil obey derivation, block and abstract rules.

Seeded type hierarchies (complex: extension/restriction chains with abstract and block flags, schema
blockDefault; simple: restriction chains) x element declarations (block, abstract, nillable, fixed,
substitution groups up to two levels) x instance variants (every type name as xsi:type, every member
in place of its head, nil flag / content variants, fixed-value lexical variants, XSD 1.1 alternatives).
All content models are emptiable, so the verdict depends only on the C07 rules.  Oracle: the decision
functions of Derivation.v (proved equivalent to chain / block / abstract conditions)."""
import json

import common
from common import coq_list, coq_bool

IMPORTS = 'From XV Require Import Base Derivation.'
XSI = 'xmlns:xsi="http://www.w3.org/2001/XMLSchema-instance"'


# ------------------------------------------------------------------ hierarchy generation
def gen_hier(rng, simple=False):
    n = rng.randint(3, 8)
    types = []
    for i in range(n):
        base = None if i == 0 or rng.random() < 0.2 else rng.randrange(i)
        meth = 'restriction' if simple else rng.choice(['extension', 'restriction'])
        t = {'base': base, 'meth': meth, 'abstract': (not simple) and rng.random() < 0.15,
             'block': None if simple else rng.choice([None, None, '', 'extension', 'restriction', '#all'])}
        types.append(t)
    return {'simple': simple, 'types': types,
            'blockDefault': rng.choice([None, None, 'extension', 'restriction', 'substitution', '#all',
                                        'extension substitution'])}


def eff_block(attr, default, allowed=('extension', 'restriction', 'substitution')):
    v = default if attr is None else attr
    if not v:
        return []
    if v == '#all':
        return list(allowed)
    return [x for x in v.split() if x in allowed]


def content_elems(h, i):
    """names of the (optional) child elements of complex type i"""
    t = h['types'][i]
    if t['base'] is None:
        return ['c%d' % i]
    base = content_elems(h, t['base'])
    return base + (['c%d' % i] if t['meth'] == 'extension' else [])


def type_xsd(h, i):
    t = h['types'][i]
    if h['simple']:
        base = 'xs:integer' if t['base'] is None else 'S%d' % t['base']
        return ('<xs:simpleType name="S%d"><xs:restriction base="%s"><xs:maxInclusive value="%d"/>'
                '</xs:restriction></xs:simpleType>' % (i, base, 1000 - 10 * i))
    attrs = ' abstract="true"' if t['abstract'] else ''
    if t['block'] is not None:
        attrs += ' block="%s"' % t['block']
    seq = lambda names: '<xs:sequence>%s</xs:sequence>' % ''.join(
        '<xs:element name="%s" type="xs:string" minOccurs="0"/>' % n for n in names)
    if t['base'] is None:
        return '<xs:complexType name="T%d"%s>%s</xs:complexType>' % (i, attrs, seq(content_elems(h, i)))
    if t['meth'] == 'extension':
        return ('<xs:complexType name="T%d"%s><xs:complexContent><xs:extension base="T%d">%s</xs:extension>'
                '</xs:complexContent></xs:complexType>' % (i, attrs, t['base'], seq(['c%d' % i])))
    return ('<xs:complexType name="T%d"%s><xs:complexContent><xs:restriction base="T%d">%s</xs:restriction>'
            '</xs:complexContent></xs:complexType>' % (i, attrs, t['base'], seq(content_elems(h, i))))


def tname(h, i):
    return ('S%d' if h['simple'] else 'T%d') % i


def schema_xsd(case):
    h = case['hier']
    bd = ' blockDefault="%s"' % h['blockDefault'] if h['blockDefault'] else ''
    parts = ['<xs:schema xmlns:xs="http://www.w3.org/2001/XMLSchema"%s>' % bd]
    parts += [type_xsd(h, i) for i in range(len(h['types']))]
    for el in case['elems']:
        a = ' type="%s"' % (el.get('tyname') or tname(h, el['ty']))
        if el.get('block') is not None:
            a += ' block="%s"' % el['block']
        if el.get('abstract'):
            a += ' abstract="true"'
        if el.get('nillable'):
            a += ' nillable="true"'
        if el.get('fixed') is not None:
            a += ' fixed="%s"' % el['fixed']
        if el.get('subst'):
            a += ' substitutionGroup="%s"' % el['subst']
        alts = ''.join('<xs:alternative test="%s" type="%s"/>' % (t, ty) for t, ty in el.get('alts', []))
        parts.append('<xs:element name="%s"%s>%s</xs:element>' % (el['name'], a, alts) if alts
                     else '<xs:element name="%s"%s/>' % (el['name'], a))
    parts.append('<xs:element name="doc"><xs:complexType><xs:sequence>'
                 '<xs:element ref="%s" minOccurs="0" maxOccurs="unbounded"/></xs:sequence></xs:complexType></xs:element>'
                 % case['docref'])
    parts.append('</xs:schema>')
    return ''.join(parts)


_SCHEMAS = {}


def subject(case):
    import xmlschema
    key = json.dumps([case['hier'], case['elems'], case['docref'], case['version'], case.get('inherit')], sort_keys=True)
    if key not in _SCHEMAS:
        cls = xmlschema.XMLSchema11 if case['version'] == '1.1' else xmlschema.XMLSchema10
        try:
            _SCHEMAS[key] = cls(schema_xsd(case))
        except Exception as e:  # noqa
            _SCHEMAS[key] = 'ERR:%s: %s' % (common.exc_class(e), str(e)[:300])
    s = _SCHEMAS[key]
    if isinstance(s, str):
        return {'build': s}
    out = []
    for inst in case['instances']:
        try:
            errs = [str(e.reason or '')[:100] for e in s.iter_errors(inst['xml'])]
            out.append({'valid': s.is_valid(inst['xml']), 'errors': errs[:3]})
        except Exception as e:  # noqa
            out.append({'exc': common.exc_class(e) + ': ' + str(e)[:200]})
    return {'build': 'ok', 'results': out}


# ------------------------------------------------------------------ Coq terms
def coq_meths(ms):
    return coq_list([{'extension': 'Ext', 'restriction': 'Restr'}[m] for m in ms if m in ('extension', 'restriction')])


def coq_env(h):
    defs = []
    for t in h['types']:
        defs.append('{| t_base := %s; t_meth := %s; t_simple := %s; t_abstract := %s; t_block := %s |}' % (
            'None' if t['base'] is None else '(Some %d)' % t['base'],
            'Ext' if t['meth'] == 'extension' else 'Restr', coq_bool(h['simple']), coq_bool(t['abstract']),
            coq_meths([] if h['simple'] else eff_block(t['block'], h['blockDefault']))))
    return coq_list(defs)


def model_terms(case):
    env = coq_env(case['hier'])
    terms = []
    for inst in case['instances']:
        k = inst['kind']
        if k == 'xsitype':
            terms.append('(xsi_type_ok %s %d %s %d)' % (env, inst['ty'], coq_meths(inst['eb']), inst['T']))
        elif k == 'subst':
            terms.append('(subst_ok %s %d %s %s %d %s)' % (env, inst['ht'], coq_meths(inst['hb']),
                                                           coq_bool('substitution' in inst['hb']), inst['mt'],
                                                           coq_bool(inst['mabs'])))
        elif k == 'nil':
            terms.append('(match nil_check %s %d %s %s with NilError => false | _ => true end)' % (
                coq_bool(inst['nillable']), inst['v'], coq_bool(inst['has_fixed']), coq_bool(inst['empty'])))
        elif k == 'alt':
            terms.append('(Nat.eqb (alternative_type_dyn %s 0) %d)' % (
                coq_list(['(%s, %d)' % ('TError' if b == 'err' else 'TBool ' + coq_bool(b), t) for b, t in inst['alts']]), inst['want']))
        else:
            terms.append('true')
    return terms


# ------------------------------------------------------------------ case generation
def xsitype_case(rng, version, simple=False):
    h = gen_hier(rng, simple)
    n = len(h['types'])
    ty = rng.randrange(n)
    eblock = rng.choice([None, None, '', 'extension', 'restriction', '#all', 'substitution'])
    el = {'name': 'e', 'ty': ty, 'block': eblock}
    eb = eff_block(eblock, h['blockDefault'])
    insts = []
    body = '5' if simple else ''
    for T in range(n):
        insts.append({'kind': 'xsitype', 'ty': ty, 'eb': eb, 'T': T,
                      'xml': '<doc %s><e xsi:type="%s">%s</e></doc>' % (XSI, tname(h, T), body)})
    insts.append({'kind': 'xsitype', 'ty': ty, 'eb': eb, 'T': n + 3,
                  'xml': '<doc %s><e xsi:type="Nope">%s</e></doc>' % (XSI, body)})
    return {'hier': h, 'elems': [el], 'docref': 'e', 'version': version, 'instances': insts}


def derived_from(h, t, b):
    while t is not None:
        if t == b:
            return True
        t = h['types'][t]['base']
    return False


def subst_case(rng, version):
    h = gen_hier(rng)
    n = len(h['types'])
    ht = rng.randrange(n)
    hblock = rng.choice([None, None, '', 'extension', 'restriction', 'substitution', '#all'])
    hb = eff_block(hblock, h['blockDefault'])
    head = {'name': 'h', 'ty': ht, 'block': hblock, 'abstract': rng.random() < 0.3}
    elems = [head]
    insts = [{'kind': 'head', 'abstract': head['abstract'], 'tabs': h['types'][ht]['abstract'],
              'xml': '<doc><h/></doc>'}]
    cands = [t for t in range(n) if derived_from(h, t, ht)]
    prev = None
    for k in range(rng.randint(1, 3)):
        # second level: a member of a member (its type must derive from that member's type); the member in the middle is
        # abstract in about a third of the chains
        chain = prev is not None and rng.random() < 0.6
        mt = rng.choice([t for t in cands if derived_from(h, t, prev['ty'])] or cands) if chain else rng.choice(cands)
        m = {'name': 'm%d' % k, 'ty': mt, 'abstract': rng.random() < 0.3, 'subst': 'h'}
        if chain and derived_from(h, mt, prev['ty']):
            m['subst'] = prev['name']
            prev['block'] = ''      # an intermediate head that blocks substitution is a corner we do not judge
        elems.append(m)
        prev = m
        insts.append({'kind': 'subst', 'ht': ht, 'hb': hb, 'mt': mt, 'mabs': m['abstract'], 'two_level': m['subst'] != 'h',
                      'xml': '<doc><%s/></doc>' % m['name']})
    return {'hier': h, 'elems': elems, 'docref': 'h', 'version': version, 'instances': insts}


def nil_case(rng, version):
    h = {'simple': False, 'types': [{'base': None, 'meth': 'extension', 'abstract': False, 'block': None}],
         'blockDefault': None}
    nillable = rng.random() < 0.7
    fixed = rng.choice([None, None, 'abc'])
    el = {'name': 'e', 'ty': 0, 'tyname': 'xs:string', 'nillable': nillable, 'fixed': fixed}
    insts = []
    for lex, v in (('true', 1), ('1', 1), ('false', 0), ('0', 0), (' true ', 1), ('TRUE', 2), ('yes', 2)):
        for content in ('', 'abc'):
            insts.append({'kind': 'nil', 'nillable': nillable, 'v': v, 'has_fixed': fixed is not None,
                          'empty': content == '',
                          'xml': '<doc %s><e xsi:nil="%s">%s</e></doc>' % (XSI, lex, content)})
    return {'hier': h, 'elems': [el], 'docref': 'e', 'version': version, 'instances': insts}


FIXED_POOL = {'xs:integer': [('1', 1), ('01', 1), (' 1 ', 1), ('+1', 1), ('2', 2), ('x', None)],
              'xs:boolean': [('true', 1), ('1', 1), ('false', 0), ('0', 0), ('x', None)],
              'xs:decimal': [('1.0', 1), ('1', 1), ('1.00', 1), ('1.5', 2), ('x', None)],
              'xs:string': [('a', 1), (' a', 2), ('A', 3)]}


def fixed_case(rng, version):
    h = {'simple': False, 'types': [{'base': None, 'meth': 'extension', 'abstract': False, 'block': None}],
         'blockDefault': None}
    ty = rng.choice(list(FIXED_POOL))
    good = [p for p in FIXED_POOL[ty] if p[1] is not None]
    fx = rng.choice(good)
    el = {'name': 'e', 'ty': 0, 'tyname': ty, 'fixed': fx[0]}
    insts = [{'kind': 'fixed', 'want': val is not None and val == fx[1],
              'xml': '<doc><e>%s</e></doc>' % lex} for lex, val in FIXED_POOL[ty]]
    insts.append({'kind': 'fixed', 'want': True, 'xml': '<doc><e/></doc>'})
    return {'hier': h, 'elems': [el], 'docref': 'e', 'version': version, 'instances': insts}


def alt_case(rng, preset=None):
    """XSD 1.1 type alternatives with attribute-equality tests: the first whose test holds governs."""
    h = {'simple': False, 'types': [{'base': None, 'meth': 'extension', 'abstract': False, 'block': None}],
         'blockDefault': None}
    # declared type: anyType-like complex with attribute k and simple content via alternatives of simple types
    types = ['xs:integer', 'xs:boolean', 'xs:date']
    # tests: attribute equality, and two tests that can end in a dynamic error (year overflow, invalid cast, division by
    # zero): a test that raises does not hold, so the next alternative (or the declared type) governs
    DTEST, NTEST = "xs:date(@d) gt xs:date('2020-06-01')", "(10 idiv xs:integer(@n)) = 5"
    pool = ["@k='a'", "@k='b'", "@k='c'", "@k='a'", "@k='b'", DTEST, NTEST]
    alts = [(rng.choice(pool), rng.choice(types)) for _ in range(rng.randint(1, 3))]
    if preset is not None:
        # an earlier test that can hold through the inherited attribute, a later one through an own attribute (and the reverse)
        alts = [[("@k='a'", 'xs:integer'), (DTEST, 'xs:date')], [("@k='b'", 'xs:boolean'), (NTEST, 'xs:integer')],
                [(DTEST, 'xs:date'), ("@k='a'", 'xs:integer')], [(NTEST, 'xs:integer'), ("@k='c'", 'xs:boolean'), ("@k='a'", 'xs:date')]][preset]
    el = {'name': 'e', 'ty': 0, 'tyname': 'TA', 'alts': alts}
    insts = []
    good = {'xs:integer': '12', 'xs:boolean': 'true', 'xs:date': '2020-01-01'}
    inherit = rng.random() < 0.5 or preset is not None
    combos = [(None, kv, None, None) for kv in ('a', 'b', 'c', 'z')]
    if inherit:
        # XSD 1.1 inheritable attribute on the parent: visible to the tests unless the element has its own attribute k
        combos += [(dk, kv, None, None) for dk in ('a', 'b', 'c') for kv in (None, 'a', 'b', 'z')]
        # an earlier test that holds through the inherited attribute, a later one through an own attribute
        combos += [(dk, None, d, None) for dk in ('a', 'b') for d in ('2021-01-01', '2019-01-01', 'junk')]
        combos += [(dk, None, None, n) for dk in ('a', 'c') for n in ('2', '0', '5')]
    combos += [(None, kv, d, None) for kv in (None, 'a') for d in ('2021-01-01', '2019-01-01', '99999999999999999999-01-01', 'junk', '2020-02-30')]
    combos += [(None, kv, None, n) for kv in (None, 'b') for n in ('2', '0', '5', 'x', '')]

    def holds(t, eff, d, n):
        """True / False, or 'err' when the evaluation ends in a dynamic error (model: TError)"""
        if t == DTEST:
            return d == '2021-01-01' if d in (None, '2021-01-01', '2019-01-01') else 'err'
        if t == NTEST:
            return n == '2' if n in (None, '2', '5') else 'err'
        return t == "@k='%s'" % eff
    for dock, kv, d, n in combos:
        eff = kv if kv is not None else dock
        flags = [holds(t, eff, d, n) for t, _ty in alts]
        chosen = next((ty for (t, ty), f in zip(alts, flags) if f is True), None)
        for content_ty in types:
            content = good[content_ty]
            if chosen is None:
                want = True      # the declared type TA (simple content string) accepts any text
            else:
                want = (content_ty == chosen) or (chosen == 'xs:integer' and False)
            idx = {None: 0, 'xs:integer': 1, 'xs:boolean': 2, 'xs:date': 3}
            attrs = ''.join(' %s="%s"' % (a, v) for a, v in (('k', kv), ('d', d), ('n', n)) if v is not None)
            insts.append({'kind': 'alt', 'alts': [(f, idx[ty]) for f, (_t, ty) in zip(flags, alts)],
                          'want': idx[chosen], 'want_valid': want,
                          'xml': '<doc%s><e%s>%s</e></doc>' % (' k="%s"' % dock if dock else '', attrs, content)})
        # xsi:type together with the type table: the selected alternative is the governing declared type, so the instance
        # type must be derived from it (the A_* types are unrelated to each other; all derive from the declared xs:anyType)
        if rng.random() < 0.35:
            for xt in types:
                for content_ty in (xt, types[(types.index(xt) + 1) % 3]):
                    want = (chosen is None or chosen == xt) and content_ty == xt
                    attrs = ''.join(' %s="%s"' % (a, v) for a, v in (('k', kv), ('d', d), ('n', n)) if v is not None)
                    insts.append({'kind': 'alt', 'alts': [(f, idx[ty]) for f, (_t, ty) in zip(flags, alts)],
                                  'want': idx[chosen], 'want_valid': want, 'xsi': xt,
                                  'xml': '<doc %s%s><e%s xsi:type="%s">%s</e></doc>'
                                         % (XSI, ' k="%s"' % dock if dock else '', attrs, xt.replace('xs:', 'A_'), good[content_ty])})
    if inherit:
        # the inheritable attribute on an intermediate element: it is inherited by that element's descendants only, not
        # by the elements that follow it
        idx = {None: 0, 'xs:integer': 1, 'xs:boolean': 2, 'xs:date': 3}
        for k1 in ('a', 'b', 'c'):
            chosen1 = next((ty for (t, ty) in alts if t == "@k='%s'" % k1), None)
            first = next((t for (t, ty) in alts if holds(t, k1, None, None) is True), None)
            if chosen1 is None or first != "@k='%s'" % k1:
                continue
            other = next(ty for ty in types if ty != chosen1)
            for second in ('<sec><e>%s</e></sec>' % good[other], '<e>%s</e>' % good[other]):
                flags = [holds(t, None, None, None) for t, _ty in alts]
                insts.append({'kind': 'alt', 'alts': [(f, idx[ty]) for f, (_t, ty) in zip(flags, alts)], 'want': 0, 'want_valid': True,
                              'xml': '<doc><sec k="%s"><e>%s</e></sec>%s</doc>' % (k1, good[chosen1], second)})
    return {'hier': h, 'elems': [el], 'docref': 'e', 'version': '1.1', 'instances': insts, 'alt_schema': True, 'inherit': inherit}


def schema_xsd_alt(case):
    el = case['elems'][0]
    alts = ''.join('<xs:alternative test="%s" type="%s"/>' % (t, ty.replace('xs:', 'A_')) for t, ty in el['alts'])
    deriv = ''.join('<xs:complexType name="A_%s"><xs:simpleContent><xs:extension base="xs:%s">'
                    '<xs:attribute name="k" type="xs:string"/><xs:attribute name="d" type="xs:string"/><xs:attribute name="n" type="xs:string"/>'
                    '</xs:extension></xs:simpleContent></xs:complexType>'
                    % (n, n) for n in ('integer', 'boolean', 'date'))
    return ('<xs:schema xmlns:xs="http://www.w3.org/2001/XMLSchema">'
            '%s<xs:element name="e" type="xs:anyType">%s</xs:element>'
            '<xs:element name="sec"><xs:complexType><xs:sequence><xs:element ref="e" minOccurs="0" maxOccurs="unbounded"/></xs:sequence>'
            '<xs:attribute name="k" type="xs:string" inheritable="true"/></xs:complexType></xs:element>'
            '<xs:element name="doc"><xs:complexType><xs:choice maxOccurs="unbounded"><xs:element ref="e"/><xs:element ref="sec"/>'
            '</xs:choice>%s</xs:complexType></xs:element></xs:schema>'
            % (deriv, alts, '<xs:attribute name="k" type="xs:string" inheritable="true"/>' if case.get('inherit') else ''))


_orig_schema_xsd = schema_xsd


def schema_xsd(case):  # noqa: F811
    if case.get('alt_schema'):
        return schema_xsd_alt(case)
    return _orig_schema_xsd(case)


def evaluate(ctx, cases):
    impl = common.pool_map(subject, cases)
    terms, owner = [], []
    for ci, (c, o) in enumerate(zip(cases, impl)):
        if o.get('build') != 'ok':
            ctx.violation('schema build failed: %s' % str(o.get('build') or o)[:300],
                          {'kind': 'c07', 'case': dict(c, instances=[]), 'xsd': schema_xsd(c)}, no_input=True)
            continue
        for k, t in enumerate(model_terms(c)):
            terms.append(t)
            owner.append((ci, k))
    model = common.coq_eval('C07', IMPORTS, '', terms, shard=300)
    for (ci, k), m in zip(owner, model):
        c, o, inst = cases[ci], impl[ci]['results'][k], cases[ci]['instances'][k]
        rep = {'kind': 'c07', 'case': dict(c, instances=[inst]), 'xsd': schema_xsd(c), 'xml': inst['xml'], 'impl': o}
        if 'exc' in o:
            ctx.violation('validation raised %s on %s' % (o['exc'], inst['xml']), rep)
            continue
        kind = inst['kind']
        if kind == 'xsitype':
            want = bool(m)
        elif kind == 'subst':
            want = bool(m)
        elif kind == 'nil':
            want = bool(m)
            # not nilled: content must be valid for xs:string with the fixed value 'abc'
            if inst['v'] == 0 and inst['nillable'] and inst['has_fixed'] and not inst['empty']:
                want = want and True
        elif kind == 'alt':
            if not m:
                ctx.violation('harness and model disagree on the chosen alternative', rep, no_input=True)
            want = inst['want_valid']
        elif kind == 'head':
            want = not inst['abstract'] and not inst['tabs']
        else:
            want = inst['want']
        ctx.count((kind, json.dumps(c['hier'], sort_keys=True), json.dumps(c['elems'], sort_keys=True), inst['xml'], c['version']),
                  nontrivial=kind in ('xsitype', 'subst') and len(c['hier']['types']) >= 3 or kind in ('nil', 'fixed', 'alt'))
        ctx.dist('kind', '%s/%s' % (kind, 'valid' if want else 'invalid'))
        if kind == 'alt':
            ctx.dist('alternative tests', 'a test ends in a dynamic error' if any(f == 'err' for f, _t in inst.get('alts', []))
                     else 'all tests evaluate')
            ctx.dist('alternative with xsi:type', 'xsi' in inst)
        if o['valid'] != want:
            ctx.violation('%s [%s, XSD %s]: implementation says %s, the %s rules say %s; errors %s'
                          % (inst['xml'], kind, c['version'], 'valid' if o['valid'] else 'invalid',
                             {'xsitype': 'derivation/block/abstract', 'subst': 'substitution', 'nil': 'xsi:nil',
                              'fixed': 'fixed-value', 'alt': 'type-alternative', 'head': 'abstract-head'}[kind],
                             'valid' if want else 'invalid', o['errors'][:2]),
                          dict(rep, theorem='C07_xsi_type_ok / C07_subst_ok / C07_nil_table / C07_first_alternative'))
        ctx.sample({'kind': kind, 'xml': inst['xml'], 'valid': o['valid'],
                    'types': [(t['base'], t['meth'], t['abstract'], t['block']) for t in c['hier']['types']],
                    'elements': c['elems']}, cap=6)


def run(ctx):
    rng = ctx.rng
    q = ctx.quick()
    cases = []
    for i in range(160 if q else 2500):
        cases.append(xsitype_case(rng, '1.1' if i % 2 else '1.0'))
    for i in range(40 if q else 500):
        cases.append(xsitype_case(rng, '1.1' if i % 2 else '1.0', simple=True))
    for i in range(120 if q else 2000):
        cases.append(subst_case(rng, '1.1' if i % 2 else '1.0'))
    for i in range(12 if q else 60):
        cases.append(nil_case(rng, '1.1' if i % 2 else '1.0'))
    for i in range(24 if q else 200):
        cases.append(fixed_case(rng, '1.1' if i % 2 else '1.0'))
    for i in range(24 if q else 200):
        cases.append(alt_case(rng, preset=i if i < 4 else None))
    ctx.rule = ('seeded hierarchies of 3-8 types (extension/restriction, abstract, block, blockDefault; simple restriction '
                'chains) x element block/abstract x every type name as xsi:type; substitution groups (1-2 levels) x every '
                'member; xsi:nil lexical x nillable x fixed x content; fixed values x lexical variants; XSD 1.1 alternatives '
                'with attribute-equality tests; non-trivial = hierarchy of >= 3 types (xsi:type / substitution) or any '
                'nil / fixed / alternative instance; distinct by schema+instance+version')
    evaluate(ctx, cases)
    ctx.assumptions = ['all content models are emptiable and all children optional, so verdicts depend on the C07 rules only',
                       "'final' is not generated (it constrains schema construction, not instances)",
                       'elements declared with xs:anyType and a block are not generated (special-cased by the implementation)',
                       'alternative tests are attribute equalities evaluated by elementpath']


def replay(ctx, case):
    evaluate(ctx, [case['case']])

"""C15 - schema build accepts a content model exactly when it is deterministic (UPA) and consistent (EDC).

Implementation observable: XMLSchema10/11(xsd) in strict mode builds, or raises XMLSchemaModelError.
Reference: `upa_check` (props/C15.v: correct against the declarative UPA whenever it answers), strict
for XSD 1.0, with element-vs-wildcard pairs excused for XSD 1.1; `edc_check` for same-named local
elements with different types.  Disagreements that the pinned snapshot reproduces are the known
finding F-C15 (the syntactic test of check_model/distinguishable_paths is neither sound nor complete)."""
import json

import cm
import common

IMPORTS = 'From XV Require Import Base Regex Particle Upa Harness.'
FUEL = 6000
TYPES = {'xs:string': 1, 'xs:int': 2}


def render_particle_edc(p, named):
    if p['t'] == 'e' and (p.get('ty') or '').startswith('anon:'):
        # an anonymous type of its own: two such declarations never have the same type definition
        return ('<xs:element name="%s"%s><xs:complexType><xs:attribute name="x" type="xs:%s"/></xs:complexType></xs:element>'
                % (p['n'], cm.occ_attrs(p), p['ty'][5:]))
    if p['t'] == 'e' and p.get('ty'):
        return '<xs:element name="%s" type="%s"%s/>' % (p['n'], p['ty'], cm.occ_attrs(p))
    return _orig_render(p, named)


_orig_render = cm.render_particle


def xsd_for(case):
    cm.render_particle = render_particle_edc
    try:
        return cm.render_xsd(case['model'])
    finally:
        cm.render_particle = _orig_render


def cross_xsd(case, base_location):
    """a complex type of urn:t extending a base type of the imported namespace urn:o: the two wildcards of the effective
    content model are declared in schema documents with different target namespaces"""
    w1, w2 = [lf for lf in cm.leaves(case['model']) if lf['t'] == 'w']
    base = ('<xs:schema xmlns:xs="http://www.w3.org/2001/XMLSchema" targetNamespace="%s" xmlns:o="%s" elementFormDefault="qualified">'
            '<xs:element name="x" type="xs:string"/><xs:complexType name="B"><xs:sequence><xs:element ref="o:x"/>'
            '<xs:any namespace="%s" processContents="lax"%s/></xs:sequence></xs:complexType></xs:schema>'
            % (cm.ONS, cm.ONS, w1['ns'], cm.occ_attrs(w1)))
    main = ('<xs:schema xmlns:xs="http://www.w3.org/2001/XMLSchema" targetNamespace="%s" xmlns:t="%s" xmlns:o="%s" '
            'elementFormDefault="qualified"><xs:import namespace="%s" schemaLocation="%s"/>'
            '<xs:complexType name="D"><xs:complexContent><xs:extension base="o:B"><xs:sequence>'
            '<xs:any namespace="%s" processContents="lax"%s/></xs:sequence></xs:extension></xs:complexContent></xs:complexType>'
            '<xs:element name="r" type="t:D"/></xs:schema>' % (cm.TNS, cm.TNS, cm.ONS, cm.ONS, base_location, w2['ns'], cm.occ_attrs(w2)))
    return base, main


def dual_xsd(case):
    """XSD 1.1: element m is a member of the substitution groups of both h and k"""
    named = []
    body = cm.render_particle(case['model'], named)
    decls = ''.join('<xs:element name="%s" type="xs:string"/>' % k for k in ('a', 'b', 'h', 'k'))
    # further members that belong to one group only (directly and transitively): the shared member is then not the only,
    # and not necessarily the first, substitute of either head
    decls += ('<xs:element name="n1" type="xs:string" substitutionGroup="t:h"/><xs:element name="n2" type="xs:string" substitutionGroup="t:n1"/>'
              '<xs:element name="q1" type="xs:string" substitutionGroup="t:k"/>')
    decls += '<xs:element name="m" type="xs:string" substitutionGroup="t:h t:k"/>'
    return ('<xs:schema xmlns:xs="http://www.w3.org/2001/XMLSchema" targetNamespace="%s" xmlns:t="%s" '
            'elementFormDefault="qualified">%s%s<xs:element name="r"><xs:complexType>%s</xs:complexType></xs:element></xs:schema>'
            % (cm.TNS, cm.TNS, decls, ''.join(named), body))


def subject(case):
    import os
    import xmlschema
    cls = xmlschema.XMLSchema11 if case['version'] == '1.1' else xmlschema.XMLSchema10
    tmp = None
    try:
        if case.get('cross'):
            d = common.BUILD / 'tmp'
            d.mkdir(parents=True, exist_ok=True)
            tmp = d / ('c15_%d_%d.xsd' % (os.getpid(), abs(hash(json.dumps(case, sort_keys=True))) % 10 ** 9))
            base, main = cross_xsd(case, 'file://' + str(tmp))
            tmp.write_text(base)
            cls(main)
        elif case.get('dual'):
            cls(dual_xsd(case))
        else:
            cls(xsd_for(case))
        return {'build': 'ok'}
    except Exception as e:  # noqa
        return {'build': common.exc_class(e), 'msg': str(e)[:160]}
    finally:
        if tmp is not None and tmp.exists():
            tmp.unlink()


def make_case(model, version, cross=False, dual=False):
    model = cm.assign_pids(json.loads(json.dumps(model)))
    c = {'model': model, 'version': version, 'sigma': cm.alphabet(model, ('d',))}
    if cross:
        c['cross'] = True
    if dual:
        c['dual'] = True
    return c


def dual_leaf(name, occ):
    lf = cm.E(name, occ)
    lf['syms'] = [name, 'm'] if name in ('h', 'k') else [name]
    return lf


def cross_model(ns1, occ1, ns2, occ2):
    """effective content of the extension: sequence(sequence(o:x, any ns1 [declared in urn:o]), sequence(any ns2 [urn:t]))"""
    w1 = cm.W(ns1, occ1)
    w1['tns'] = cm.ONS
    w2 = cm.W(ns2, occ2)
    return cm.G('seq', [cm.G('seq', [cm.E('x', (1, 1)), w1], (1, 1)), cm.G('seq', [w2], (1, 1))], (1, 1))


def edc_pairs(model):
    out = []
    for k, lf in enumerate(cm.leaves(model)):
        if lf['t'] == 'e':
            ty = lf.get('ty') or 'xs:string'
            out.append((cm.CODE[lf['n']], 100 + k if ty.startswith('anon:') else TYPES[ty]))
    return out


def model_term(case):
    m = case['model']
    lv = list(cm.leaves(m))
    pids = '[%s]' % '; '.join(str(lf['pid']) for lf in lv)
    ex = []
    if case['version'] == '1.1':
        for a in lv:
            for b in lv:
                if a['t'] == 'e' and b['t'] == 'w':
                    ex.append('(%d, %d)' % (a['pid'], b['pid']))
    edc = '[%s]' % '; '.join('(%d%%N, %d%%N)' % p for p in edc_pairs(m))
    return '(c15_case %s %s %s [%s] %d, edc_check %s)' % (
        cm.coq_part(m), cm.coq_syms(case['sigma']), pids, '; '.join(ex), FUEL, edc)


def desc(c):
    return '%s XSD %s' % (cm.show(c['model']), c['version'])


def evaluate(ctx, cases):
    impl = common.pool_map(subject, cases)
    res = common.coq_eval('C15', IMPORTS, '', [model_term(c) for c in cases], shard=60)
    suspects = []
    for c, o, r in zip(cases, impl, res):
        if 'harness_exception' in o:
            ctx.violation('subject failed on %s: %s' % (desc(c), o['harness_exception']),
                          {'kind': 'model', 'case': c}, no_input=True)
            continue
        strict, excused, size, edc = r
        strict = strict[1] if isinstance(strict, tuple) else strict
        excused = excused[1] if isinstance(excused, tuple) else excused
        size = size[1] if isinstance(size, tuple) else size
        upa = excused if c['version'] == '1.1' else strict
        if upa is None:
            ctx.dist('reference', 'out-of-fuel')
            continue
        want_ok = bool(upa and edc)
        ctx.dist('reference', 'deterministic' if want_ok else ('UPA-violation' if not upa else 'EDC-violation'))
        if c['version'] == '1.1' and strict is False and excused is True:
            ctx.dist('xsd11', 'element-vs-wildcard competition excused')
        ctx.dist('closure_states', 10 * (size // 10) if size is not None else 'n/a')
        ctx.count(('m', json.dumps(c, sort_keys=True)), nontrivial=cm.size(c['model']) >= 3)
        if c.get('cross'):
            ctx.dist('family', 'wildcards of two target namespaces')
        if c.get('dual'):
            ctx.dist('family', 'member of two substitution groups (XSD 1.1)')
        ctx.sample({'model': desc(c), 'reference_deterministic': want_ok, 'implementation': o['build'],
                    'closure_states': size})
        if o['build'] not in ('ok', 'model'):
            # another kind of refusal (e.g. XSD 1.0 restrictions on xs:all): not judged
            ctx.dist('impl_other', o['build'])
            continue
        if (o['build'] == 'ok') != want_ok:
            suspects.append((c, o, want_ok))
    if not suspects:
        return
    pinned = common.run_pinned('c15', 'subject', [s[0] for s in suspects])
    for (c, o, want_ok), po in zip(suspects, pinned):
        if po.get('build') == o['build']:
            ctx.known_finding('F-C15a' if o['build'] == 'ok' else 'F-C15b')
            ctx.dist('known_' + ('missed_ambiguity' if o['build'] == 'ok' else 'false_alarm'), desc(c), 1)
            continue
        ctx.violation('%s: the model is %s but the schema build %s'
                      % (desc(c), 'deterministic and consistent' if want_ok else 'not deterministic/consistent',
                         'fails with a model error' if o['build'] == 'model' else 'succeeds'),
                      {'kind': 'model', 'case': c, 'impl': o, 'reference_accepts': want_ok, 'xsd': xsd_for(c),
                       'theorem': 'C15_upa_check_correct / C15_edc_check_correct'})


def _copy_model(m):
    import copy
    return copy.deepcopy(m)


def gen_cases(ctx):
    rng = ctx.rng
    cases = []
    fam = list(cm.exhaustive_depth1())
    if ctx.quick():
        fam = rng.sample(fam, 500)
    for m in fam:
        if ctx.quick():
            cases.append(make_case(m, rng.choice(['1.0', '1.1'])))
        else:
            cases.append(make_case(m, '1.0'))
            cases.append(make_case(m, '1.1'))
    # wildcard / substitution-head leaf variants of the one-group family
    variants = []
    for k in ('seq', 'choice'):
        for go in cm.OCCS:
            for o1 in cm.OCCS:
                for o2 in [(1, 1), (0, 1), (0, None), (1, 2)]:
                    for l1, l2 in (('a', 'w##other'), ('w##other', 'a'), ('a', 'w##any'), ('w##any', 'a'),
                                   ('a', 'w##targetNamespace'), ('h', 'a'), ('h', 'm'), ('m', 'h'),
                                   ('w##other', 'w##local'), ('w##other', 'w' + cm.ONS)):
                        def mk(x, occ):
                            return cm.W(x[1:], occ) if x.startswith('w') else cm.E(x, occ)
                        variants.append(cm.G(k, [mk(l1, o1), mk(l2, o2)], go))
    if ctx.quick():
        variants = rng.sample(variants, 350)
    for m in variants:
        cases.append(make_case(m, rng.choice(['1.0', '1.1']) if ctx.quick() else '1.0'))
        if not ctx.quick():
            cases.append(make_case(m, '1.1'))
    # one group of three element leaves over {a,b} (65 536 models per version: sampled / thorough: 20 000)
    occs3 = cm.OCCS
    for i in range(1500 if ctx.quick() else 20000):
        k = rng.choice(['seq', 'seq', 'choice'])
        ps = [cm.E(rng.choice('ab'), rng.choice(occs3)) for _ in range(3)]
        cases.append(make_case(cm.G(k, ps, rng.choice(occs3)), rng.choice(['1.0', '1.1'])))
    for i in range(250 if ctx.quick() else 4000):
        v = '1.1' if i % 2 else '1.0'
        cases.append(make_case(cm.random_model(rng, version=v, max_leaves=5), v))
    # a repeated choice with a branch that hides a name between mandatory particles inside an optional nested group, and
    # another branch that starts with that name: ((c, (a|b)?, d) | (a, h))+ and its neighbours
    tmpl = [(pre, io, post, oo, second) for pre in (True, False) for io in [(0, 1), (1, 1), (0, 2)] for post in (True, False)
            for oo in [(1, None), (1, 2), (0, None), (1, 1)] for second in ('a', 'b', 'c')]
    for pre, io, post, oo, second in (tmpl if not ctx.quick() else rng.sample(tmpl, 50)):
        b1 = ([cm.E('c')] if pre else []) + [cm.G('choice', [cm.E('a'), cm.E('b')], io)] + ([cm.E('d')] if post else [])
        m = cm.G('choice', [cm.G('seq', b1, (1, 1)), cm.G('seq', [cm.E(second), cm.E('h')], (1, 1))], oo)
        for v in ('1.0', '1.1'):
            cases.append(make_case(m, v))
    # a nested choice with an emptiable alternative before / after the alternative that competes with a particle outside the
    # choice: ((b? | a), a), ((a | b?), a), (a, (b? | a))+, (((b?) | m), h) and their neighbours
    import itertools
    nested = []
    for emp in (cm.E('b', (0, 1)), cm.G('seq', [cm.E('b', (0, 1))], (1, 1)), cm.E('b', (0, None))):
        for comp, out in (('a', 'a'), ('m', 'h'), ('h', 'm'), ('a', 'b')):
            for third in (None, 'c'):
                alts = [emp, cm.E(comp)] + ([cm.E(third)] if third else [])
                for perm in itertools.permutations(alts):
                    for io in [(1, 1), (1, 2)]:
                        inner = cm.G('choice', list(perm), io)
                        for first in (True, False):
                            for oo in [(1, 1), (1, None)]:
                                nested.append(cm.G('seq', [inner, cm.E(out)] if first else [cm.E(out), inner], oo))
    for m in (nested if not ctx.quick() else rng.sample(nested, 120)):
        for v in (('1.0', '1.1') if not ctx.quick() else (rng.choice(['1.0', '1.1']),)):
            cases.append(make_case(_copy_model(m), v))
    # wildcards declared in schema documents with different target namespaces (extension of an imported base type)
    forms = ['##any', '##other', '##local', '##targetNamespace', cm.TNS, cm.ONS, cm.PNS, '%s %s' % (cm.ONS, cm.PNS), '##local %s' % cm.TNS]
    cross = [(a, o1, b, o2) for a in forms for b in forms for o1 in [(0, 1), (0, None), (1, 1)] for o2 in [(1, 1), (0, 1), (0, None)]]
    if ctx.quick():
        cross = rng.sample(cross, 150)
    for a, o1, b, o2 in cross:
        for v in (['1.0', '1.1'] if not ctx.quick() else [rng.choice(['1.0', '1.1'])]):
            cases.append(make_case(cross_model(a, o1, b, o2), v, cross=True))
    # XSD 1.1: one element substituting two heads; the heads compete wherever they are both admitted
    duals = [(k, n1, o1, n2, o2, go) for k in ('seq', 'choice') for n1 in ('h', 'k', 'm', 'a') for n2 in ('h', 'k', 'm')
             for o1 in [(1, 1), (0, 1), (0, None)] for o2 in [(1, 1), (0, 1)] for go in [(1, 1), (0, None)] if n1 != n2]
    if ctx.quick():
        duals = rng.sample(duals, 80)
    for k, n1, o1, n2, o2, go in duals:
        cases.append(make_case(cm.G(k, [dual_leaf(n1, o1), dual_leaf(n2, o2)], go), '1.1', dual=True))
    # EDC: same local name with equal / different types
    for i in range(60 if ctx.quick() else 600):
        v = '1.1' if i % 2 else '1.0'
        m = cm.random_model(rng, version=v, max_leaves=4, names=('a', 'b'), p_wild=0.0, p_head=0.0, p_ref=0.0, allow_all=False)
        for lf in cm.leaves(m):
            if rng.random() < 0.6:
                lf['ty'] = rng.choice(['xs:string', 'xs:int', 'xs:int', 'anon:int', 'anon:int', 'anon:string'])
        cases.append(make_case(m, v))
    return cases


def run(ctx):
    cases = gen_cases(ctx)
    ctx.rule = ('models: %s one-group models over {a,b} x 8 occurrence ranges, wildcard / substitution-head leaf '
                'variants, seeded random models (depth<=3, <=5 leaves, group refs, all), local declarations with '
                'equal/different types (EDC); both schema classes; non-trivial = at least two particles; '
                'distinct by model+version' % ('a sample of the' if ctx.quick() else 'all 2416'))
    evaluate(ctx, cases)
    ctx.assumptions = [
        'UPA is decided over the finite interned alphabet of the model plus one foreign name, marked with particle ids',
        'models on which upa_check runs out of fuel are excluded and counted',
        'a build refusal that is not a model error (e.g. XSD 1.0 limits on xs:all) is not judged',
        'F-C15a/b: verdicts that the pinned snapshot %s reproduces identically are the known findings'
        % common.pinned_dir().name]


def replay(ctx, case):
    c = case['case']
    evaluate(ctx, [make_case(c['model'], c['version'], cross=c.get('cross', False), dual=c.get('dual', False))])

"""C18 - one schema object can be built and used from many threads with unchanged results.

* Controlled scheduler: 2-4 real threads serialised by a baton; seeded switch decisions at every Python function call
  inside xmlschema/ and elementpath/ (sys.settrace) and at every line of XsdGlobals.build; the library's Lock objects
  (maps._build_lock, maps.cache._lock) are replaced from outside by scheduler-aware proxies (a blocked acquire yields).
  The threads race to build a schema created with build=False and then run calls of the C10 pool; every result is
  compared with the sequential baseline.
* Correspondence with Dcl.v: the tracer logs the protocol events of build() (value read by the fast check, acquire
  attempts, second check, number of completed body statements, the moment the flag is seen raised, release); the
  event sequence is replayed through `step` inside Coq and the model's flag / progress / build count are compared with
  the observed ones at every event.
* Free-running stress: the same thread programs without tracing, switch interval 1e-6 s."""
import json
import os
import re
import sys
import threading
import time

import common
import c10
from common import coq_list

IMPORTS = 'From XV Require Import Base Dcl.'
DEFS = '''Definition BB := 5. Definition TT := 1.
(* an event = thread id and the number of model steps it stands for; output after each event:
   (pc code of the thread, built, maps, builds) *)
Fixpoint replay (s : state) (evs : list (nat * nat)) : list (nat * bool * nat * nat) :=
  match evs with
  | [] => []
  | (t, k) :: r => let s1 := fold_left (step BB TT) (repeat t k) s in
                   (pc_code (pcs s1 t), built s1, maps s1, builds s1) :: replay s1 r
  end.
'''
LIBS = (str(common.REPO) + '/xmlschema/', '/elementpath/')
PCT_WINDOW = 700
# The five steps of the build body, identified by the callee (function name, file) of calls made - directly or through a
# private helper - while a build() frame of the observed maps is running: no statement text or line number is used, so a
# rewrite of build() that keeps its behaviour keeps the observation.
MILESTONES = [('XsdGlobals.check_loaded_schemas', 'xsd_globals.py'), ('GlobalMaps.load', 'builders.py'),
              ('TypesMap.build_builtins', 'builders.py'), ('GlobalMaps.build', 'builders.py'), ('XsdGlobals.check', 'xsd_globals.py')]


class Stall(Exception):
    pass


class Sched:
    def __init__(self, rng, p_switch, pct=None):
        self.rng, self.p = rng, p_switch
        # priority schedule for the phase after the build (PCT): the runnable thread of highest priority runs; at `pct`
        # random points (counted from the moment the flag is up, within the first PCT_WINDOW points) the running thread
        # drops below all others.  A thread stopped at such a point stays stopped until the others are done or blocked.
        self.pct = pct
        self.prio = {}
        self.pct_step = 0
        self.calls = {}
        self.pct_points = set(rng.randrange(PCT_WINDOW) for _ in range(pct)) if pct and not isinstance(pct, list) else set()
        if isinstance(pct, list):       # explicit change points (systematic sweep)
            self.pct_points = set(pct)
        self.cv = threading.Condition()
        self.current = None
        self.alive = []
        self.waiting_on = {}
        self.tids = {}
        self.switches = 0
        self.points = 0
        self.events = []          # protocol events of build()
        self.error = None
        self.target = None
        self.build_state = {}
        self.acq_count = {}       # thread -> number of acquisitions of the build lock

    def tid(self):
        return self.tids.get(threading.get_ident())

    def _runnable(self, me):
        return [t for t in self.alive if t != me and not (t in self.waiting_on and self.waiting_on[t].owner is not None)]

    def _handoff(self, me, nxt):
        self.current = nxt
        self.switches += 1
        self.cv.notify_all()
        if me is not None:
            while self.current != me:
                if not self.cv.wait(timeout=30):
                    self.error = 'stall: thread %s waited 30 s for the baton' % me
                    raise Stall(self.error)

    def _best(self, cands):
        return max(cands, key=lambda t: self.prio.setdefault(t, self.rng.random()))

    def yield_point(self, force=False, code=None):
        me = self.tid()
        if me is None or self.current != me:
            return
        self.points += 1
        if self.pct and not force and self.target is not None and self.target._built:
            self.prio.setdefault(me, self.rng.random())
            # change points are counted over the calls of rarely executed functions (at most twice so far in this run):
            # state shared through the schema object is set up in code that runs once per schema, not in the hot paths
            if code is not None:
                n = self.calls[code] = self.calls.get(code, 0) + 1
                if n <= 2:
                    self.pct_step += 1
                    if self.pct_step in self.pct_points:
                        self.prio[me] = min(self.prio.values()) - 1.0
            with self.cv:
                cands = self._runnable(me)
                if cands:
                    best = self._best(cands)
                    if self.prio[best] > self.prio[me]:
                        self._handoff(me, best)
            return
        if not force and self.rng.random() >= self.p:
            return
        with self.cv:
            cands = self._runnable(me)
            if not cands:
                if force:
                    self.error = 'deadlock: thread %s blocked and no other thread can run' % me
                    raise Stall(self.error)
                return
            self._handoff(me, self._best(cands) if self.pct and self.target is not None and self.target._built else self.rng.choice(cands))

    def run(self, fns):
        threads = []
        n = len(fns)
        self.alive = list(range(n))

        def wrapper(i):
            self.tids[threading.get_ident()] = i
            with self.cv:
                while self.current != i:
                    if not self.cv.wait(timeout=60):
                        return
            sys.settrace(self.tracer)
            try:
                fns[i]()
            except Stall:
                pass
            finally:
                sys.settrace(None)
                with self.cv:
                    self.alive.remove(i)
                    if self.alive:
                        cands = self._runnable(None) or self.alive
                        self.current = self._best(cands) if self.pct else self.rng.choice(cands)
                    else:
                        self.current = None
                    self.cv.notify_all()
        for i in range(n):
            th = threading.Thread(target=wrapper, args=(i,), daemon=True)
            threads.append(th)
            th.start()
        with self.cv:
            self.current = self.rng.randrange(n)
            self.cv.notify_all()
        for th in threads:
            th.join(timeout=120)
            if th.is_alive():
                self.error = self.error or 'stall: a thread did not finish within 120 s'
                with self.cv:
                    self.current = -1
                    self.cv.notify_all()

    # ---- tracing
    def _build_frame_of(self, frame):
        """the running build() frame of the observed maps that (within three levels) made this call, if any"""
        f = frame.f_back
        for _ in range(3):
            if f is None:
                return None
            if f.f_code is BUILD['code']:
                # (the innermost build() frame decides: a nested build of an ancestor's maps is not observed)
                return f if f.f_locals.get('self') is self.target else None
            f = f.f_back
        return None

    def tracer(self, frame, event, arg):
        if event != 'call':
            return None
        code = frame.f_code
        fn = code.co_filename
        if LIBS[0] in fn or LIBS[1] in fn:
            if code is BUILD['code'] and frame.f_locals.get('self') is self.target:
                self.build_state[(self.tid(), id(frame))] = {'seen': False, 'locked': False, 'builder': False, 'flag': False,
                                                             'done': 0, 'acqs': self.acq_count.get(self.tid(), 0)}
                return self.line_tracer
            key = (code.co_qualname, fn.rsplit('/', 1)[-1])
            if code.co_qualname == 'XsdElement.collect_key_fields':
                # a reader of the shared identity tables: every entry it can find must be complete (Publish.v)
                elem = frame.f_locals.get('self')
                for identity in tuple(getattr(elem, 'selected_by', ())):
                    for e, sels in list(identity.elements.items()):
                        if len(sels) != len(identity.fields):
                            self.events.append(('incomplete_entry', self.tid(), str(identity.name), str(e.name), len(sels), len(identity.fields)))
            if key in MILESTONES:
                bf = self._build_frame_of(frame)
                st = bf is not None and self.build_state.get((self.tid(), id(bf)))
                if st:
                    k = MILESTONES.index(key)
                    if not st['builder']:
                        # a step of the build body outside the locked, re-checked section
                        self.events.append(('unprotected_step', self.tid(), k))
                    elif k == st['done']:
                        st['done'] = k + 1
                        if k == 0:
                            self.events.append(('body_start', self.tid()))
                    else:
                        self.events.append(('step_out_of_order', self.tid(), k, st['done']))
            self.yield_point(code=code)
        return None

    def line_tracer(self, frame, event, arg):
        me = self.tid()
        if event == 'line':
            maps = frame.f_locals['self']
            st = self.build_state[(me, id(frame))]
            built = bool(maps._built)
            if not st['seen']:
                # the first line of the frame: the unlocked test of the flag
                st['seen'] = True
                self.events.append(('fast', me, built))
            elif not st['locked']:
                if self.acq_count.get(me, 0) > st['acqs']:
                    # the first line after this thread took the build lock: the test is repeated
                    st['locked'] = True
                    st['builder'] = not built
                    self.events.append(('check2', me, built))
            elif st['builder']:
                # `done` steps have been started - and, since the build frame itself is running, completed
                if built and not st['flag']:
                    st['flag'] = True
                    self.events.append(('flag', me, st['done']))
                else:
                    self.events.append(('progress', me, st['done'], built))
            self.yield_point()
        return self.line_tracer


BUILD = {}


def locate_build():
    """the code object of XsdGlobals.build (its frames are observed; nothing of its text is used)"""
    from xmlschema.validators.xsd_globals import XsdGlobals
    BUILD.update(code=XsdGlobals.build.__code__)


class ProxyLock:
    """scheduler-aware replacement of threading.Lock for the build lock and the cache lock"""
    def __init__(self, sched, name):
        self.sched, self.name, self.owner = sched, name, None

    def acquire(self, blocking=True, timeout=-1):
        s = self.sched
        me = s.tid()
        while self.owner is not None:
            if self.name == 'build':
                s.events.append(('acq_fail', me))
            if not blocking:
                return False
            s.waiting_on[me] = self
            try:
                s.yield_point(force=True)
            finally:
                s.waiting_on.pop(me, None)
        self.owner = me
        if self.name == 'build':
            s.events.append(('acq', me))
            s.acq_count[me] = s.acq_count.get(me, 0) + 1
        return True

    def release(self):
        if self.name == 'build':
            self.sched.events.append(('release', self.owner))
        self.owner = None

    def locked(self):
        return self.owner is not None

    __enter__ = acquire

    def __exit__(self, *a):
        self.release()


STREAM = {'sched': None, 'free': False}


def chunked_stream(data, chunk):
    """a seekable binary stream with short reads; every read is a point where the thread may lose the processor, as a
    read from a file, pipe or socket is (the controlled scheduler decides there, free-running threads yield)"""
    import io

    class Chunked(io.BytesIO):
        def read(self, n=-1):
            if STREAM['sched'] is not None:
                STREAM['sched'].yield_point()
            elif STREAM['free']:
                time.sleep(0)
            return super().read(chunk if n is None or n < 0 or n > chunk else n)
    return Chunked(data)


def apply_op(xmlschema, schema, op, doc, arg):
    """C10 pool plus the stream family: calls on a shared schema created with defuse='always' whose source is a stream"""
    if not op.startswith('stream_'):
        return c10.apply_op(xmlschema, schema, op, doc, arg)
    src = chunked_stream(doc['xml'].encode(), 24 + 8 * (arg % 4))
    try:
        if op == 'stream_is_valid':
            return schema.is_valid(src)
        if op == 'stream_iter_errors':
            return sorted(c10.canon_err(e) for e in schema.iter_errors(src))
        r = schema.decode(src, validation='lax')
        return [c10.canon_data(r[0]), sorted(c10.canon_err(e) for e in r[1])]
    except Exception as e:  # noqa
        return 'EXC %s: %s' % (common.exc_class(e), ' '.join(str(e).split())[:100])


def seq_schema(xmlschema, case):
    if case.get('family') != 'streams':
        return c10.make_schema(xmlschema, case['version'])
    s = unbuilt_schema(xmlschema, case['version'], defuse='always')
    s.build()
    return s


def unbuilt_schema(xmlschema, version, **kw):
    cls = xmlschema.XMLSchema11 if version == '1.1' else xmlschema.XMLSchema10
    s = cls(c10.schema_text(version), build=False, **kw)
    s.add_schema(c10.OTHER, namespace=c10.ONS)
    s.add_schema(c10.OTHER2, namespace=c10.ONS2)
    return s


def thread_programs(xmlschema, schema, case, results):
    docs = case['docs']

    def mk(i, prog):
        def fn():
            out = []
            try:
                schema.build()
                for op, di, arg in prog:
                    out.append(apply_op(xmlschema, schema, op, docs[di], arg))
            except Stall:
                raise
            except BaseException as e:  # noqa
                out.append('THREAD-EXC %s: %s' % (type(e).__name__, str(e)[:200]))
            results[i] = out
        return fn
    return [mk(i, p) for i, p in enumerate(case['programs'])]


def baseline(xmlschema, case):
    """sequential results: each call on a fresh, sequentially built schema object"""
    memo = {}
    docs = case['docs']
    probe = c10.make_schema(xmlschema, case['version'])
    for d in docs:
        try:
            d['data'] = probe.decode(d['xml'], validation='lax')[0]
        except Exception:  # noqa
            d['data'] = None
    out = []
    for prog in case['programs']:
        r = []
        for op, di, arg in prog:
            key = (op, di, arg)
            if key not in memo:
                memo[key] = apply_op(xmlschema, seq_schema(xmlschema, case), op, docs[di], arg)
            r.append(memo[key])
        out.append(r)
    return out


def subject(case):
    import random
    import warnings
    import xmlschema
    warnings.simplefilter('ignore')
    locate_build()
    base = baseline(xmlschema, case)
    schema = unbuilt_schema(xmlschema, case['version'], **({'defuse': 'always'} if case.get('family') == 'streams' else {}))
    if case.get('prebuilt'):
        schema.build()
    n = len(case['programs'])
    results = [None] * n
    out = {'baseline_ok': True}
    if case['mode'] == 'controlled':
        sched = Sched(random.Random(case['seed']), case['p'], pct=case.get('pct'))
        sched.target = schema.maps
        object.__setattr__(schema.maps, '_build_lock', ProxyLock(sched, 'build'))
        schema.maps.cache._lock = ProxyLock(sched, 'cache')
        STREAM['sched'] = sched
        try:
            sched.run(thread_programs(xmlschema, schema, case, results))
        finally:
            STREAM['sched'] = None
        out.update(switches=sched.switches, points=sched.points, events=sched.events, error=sched.error, rare=sched.pct_step)
    else:
        old = sys.getswitchinterval()
        sys.setswitchinterval(1e-6)
        STREAM['free'] = True
        try:
            barrier = threading.Barrier(n)
            fns = thread_programs(xmlschema, schema, case, results)
            ths = [threading.Thread(target=lambda f=f: (barrier.wait(), f()), daemon=True) for f in fns]
            for t in ths:
                t.start()
            for t in ths:
                t.join(timeout=120)
            out.update(switches=None, points=None, events=[], error='stall: a free-running thread did not finish' if any(t.is_alive() for t in ths) else None)
        finally:
            sys.setswitchinterval(old)
            STREAM['free'] = False
    out['mismatch'] = None
    for i in range(n):
        if results[i] is None:
            out['mismatch'] = {'thread': i, 'step': None, 'got': 'no result', 'want': None}
            break
        for k, (got, want) in enumerate(zip(results[i], base[i])):
            if got != want:
                op, di, arg = case['programs'][i][k]
                out['mismatch'] = {'thread': i, 'step': k, 'op': op, 'doc': case['docs'][di]['xml'], 'got': got, 'want': want}
                break
        if out['mismatch']:
            break
        if len(results[i]) != len(base[i]):
            out['mismatch'] = {'thread': i, 'step': len(base[i]), 'got': results[i][-1:], 'want': 'no further result'}
            break
    # the global components after the race equal those of a sequential build
    seq = seq_schema(xmlschema, case)
    out['globals_equal'] = sorted(c.name or '' for c in schema.maps.iter_globals()) == sorted(c.name or '' for c in seq.maps.iter_globals())
    out['built'] = bool(schema.built)
    return out


def model_events(events, nthreads):
    """translate the protocol log into (thread, number of model steps) events with the expected observation"""
    evs, obs = [], []
    progress = {}
    builder_tail = {}
    for e in events:
        kind, t = e[0], e[1]
        if kind == 'fast':
            evs.append((t, 1)); obs.append(('fast', e[2]))
        elif kind == 'acq_fail':
            evs.append((t, 1)); obs.append(('blocked', None))
        elif kind == 'acq':
            evs.append((t, 1)); obs.append(('acq', None))
        elif kind == 'check2':
            evs.append((t, 1)); obs.append(('check2', e[2]))
            progress[t] = 0
        elif kind == 'progress':
            k = e[2] - progress.get(t, 0)
            progress[t] = e[2]
            if builder_tail.get(t):
                evs.append((t, 0)); obs.append(('tail', True))
            else:
                evs.append((t, max(k, 0))); obs.append(('progress', (e[2], e[3])))
        elif kind == 'flag':
            k = e[2] - progress.get(t, 0)
            progress[t] = e[2]
            builder_tail[t] = True
            evs.append((t, max(k, 0) + 2)); obs.append(('flag', e[2]))     # last body steps, P3 0 -> P4, P4 -> P5
        elif kind == 'release':
            evs.append((t, 3 if builder_tail.get(t) else 1)); obs.append(('release', None))
        elif kind == 'body_start':
            continue
    return evs, obs


def evaluate(ctx, cases):
    impl = common.pool_map(subject, cases, procs=min(common.NPROC, 12))
    terms, translated = [], []
    for c, o in zip(cases, impl):
        evs, obs = model_events(o.get('events') or [], len(c['programs']))
        translated.append((evs, obs))
        terms.append('replay init %s' % coq_list(['(%d, %d)' % (t, k) for t, k in evs]))
    model = common.coq_eval('C18', IMPORTS, DEFS, terms, shard=40)
    for c, o, (evs, obs), m in zip(cases, impl, translated, model):
        rep = {'kind': 'schedule', 'case': {k: v for k, v in c.items()}}
        if 'harness_exception' in o:
            ctx.violation('subject failed: %s' % o['harness_exception'], rep, no_input=True)
            continue
        nops = sum(len(p) for p in c['programs'])
        ctx.count(('sched', c['mode'], c['seed'], c['version']), nontrivial=True, n=nops)
        ctx.dist('mode', c['mode'])
        ctx.dist('family', c.get('family', 'mixed pool'))
        ctx.dist('threads', len(c['programs']))
        if o['switches'] is not None:
            ctx.dist('forced switches per run', '<100' if o['switches'] < 100 else '<1000' if o['switches'] < 1000 else '>=1000')
        if o['error']:
            ctx.violation('%s [%s run, %d threads, seed %d]' % (o['error'], c['mode'], len(c['programs']), c['seed']), rep)
            continue
        if o['mismatch']:
            mm = o['mismatch']
            ctx.violation('thread %s, call %s on %s returns %s under the %s schedule (seed %d, %s forced switches), sequentially %s [XSD %s]'
                          % (mm['thread'], mm.get('op'), str(mm.get('doc'))[:160], str(mm['got'])[:200], c['mode'], c['seed'],
                             o['switches'], str(mm['want'])[:200], c['version']), dict(rep, mismatch=mm))
            continue
        if not o['globals_equal'] or not o['built']:
            ctx.violation('after the racing build the global components differ from a sequential build (built=%s)' % o['built'], rep)
            continue
        inc = [e for e in (o.get('events') or []) if e[0] == 'incomplete_entry']
        if inc:
            e = inc[0]
            ctx.violation('thread %s enters collect_key_fields while the shared entry of element %s in the identity constraint %s holds %d of %d '
                          'field selectors: a reader can find an incomplete entry (C18_atomic_publication_complete) [seed %d]'
                          % (e[1], e[3], e[2], e[4], e[5], c['seed']), dict(rep, theorem='C18_atomic_publication_complete', events=inc[:5]))
            continue
        if c['mode'] != 'controlled' or c.get('prebuilt'):
            continue        # (a schema built before the threads start has no build protocol to observe)
        # protocol correspondence with Dcl.v
        starts = sum(1 for e in o['events'] if e[0] == 'body_start')
        ctx.dist('build body executions', starts)
        bad = None
        if starts != 1:
            bad = 'the build body ran %d times (C18_built_once: at most once, and once when the flag is up)' % starts
        for e in o['events']:
            if e[0] == 'unprotected_step':
                bad = ('thread %d ran step %d of the build body (%s) outside the section that holds the build lock and has '
                       're-tested the flag (C18_mutex / C18_built_once)' % (e[1], e[2], MILESTONES[e[2]][0]))
            elif e[0] == 'step_out_of_order':
                bad = 'thread %d ran step %d of the build body (%s) after %d completed steps' % (e[1], e[2], MILESTONES[e[2]][0], e[3])
        for k, ((t, steps), (kind, val), out) in enumerate(zip(evs, obs, m)):
            if bad:
                break
            pcc, built, maps, builds = out
            if kind in ('fast', 'check2') and val != built:
                bad = 'event %d: thread %d reads _built=%s at the %s check, the model has built=%s' % (k, t, val, kind, built)
            elif kind == 'progress' and (val[1] != built or (pcc == 3 and val[0] != maps)):
                bad = 'event %d: thread %d has completed %d body statements with _built=%s, the model has maps=%d built=%s' % (k, t, val[0], val[1], maps, built)
            elif kind == 'flag' and (not built or maps != 5):
                bad = ('event %d: thread %d raised the flag after %d of 5 body statements; in the model the flag is raised only '
                       'over complete maps (C18_flag_implies_complete)' % (k, t, val))
            elif kind == 'blocked' and pcc != 1:
                bad = 'event %d: thread %d blocked on the build lock, model pc code %d' % (k, t, pcc)
            elif kind == 'acq' and pcc != 2:
                bad = 'event %d: thread %d acquired the build lock, model pc code %d (mutual exclusion)' % (k, t, pcc)
            elif kind == 'release' and pcc != 7:
                bad = 'event %d: thread %d released the lock, model pc code %d' % (k, t, pcc)
        if not bad and m:
            if m[-1][3] != 1 or not m[-1][1]:
                bad = 'final model state builds=%d built=%s' % (m[-1][3], m[-1][1])
        if bad:
            ctx.violation('protocol log of build() does not replay in the model: %s [seed %d]' % (bad, c['seed']),
                          dict(rep, theorem='C18_flag_implies_complete / C18_return_sees_complete', events=o['events'][:200]), no_input=False)
        ctx.sample({'threads': len(c['programs']), 'switches': o['switches'], 'switch points': o['points'],
                    'protocol events': [list(e) for e in o['events'][:12]]}, cap=3)


def pool_doc(r):
    """a document of the C10 pool that does not make the schema load a further namespace during validation (such documents
    are outside the property)"""
    while True:
        d = c10.gen_doc(r)
        if 'xlink' not in d['xml']:
            return d


def gen(ctx):
    import random
    cases = []
    q = ctx.quick()
    for i in range(60 if q else 2400):
        seed = ctx.rng.randrange(10 ** 9)
        r = random.Random(seed)
        docs = [pool_doc(r) for _ in range(r.randint(2, 4))]
        n = r.randint(2, 4)
        programs = [[[r.choice(c10.OPS), r.randrange(len(docs)), r.randint(0, 7)] for _ in range(r.randint(1, 4))] for _ in range(n)]
        mode = 'controlled' if i % 4 else 'free'
        cases.append({'seed': seed, 'version': '1.1' if i % 3 else '1.0', 'docs': docs, 'programs': programs, 'mode': mode,
                      'p': r.choice([0.002, 0.01, 0.05, 0.2])})
    # focused families: (a) every thread goes through the per-schema scratch context, (b) every thread meets the first use
    # of an xsi:type inside an identity scope (registration of the identity elements) with duplicated values
    for i in range(80 if q else 600):
        seed = ctx.rng.randrange(10 ** 9)
        r = random.Random(seed)
        n = r.randint(2, 4)
        if i % 2:
            docs = [pool_doc(r)]
            programs = [[['simple_scratch', 0, r.randint(0, 7)] for _ in range(r.randint(1, 3))] for _ in range(n)]
        else:
            docs = []
            while len(docs) < 3:
                d = pool_doc(r)
                if d['root'] in ('R', 'R2') and 'xsi:type="B"' in d['xml'] or 'xsi:type="C"' in d['xml']:
                    docs.append(d)
            programs = [[[r.choice(['decode_lax', 'iter_errors', 'is_valid']), r.randrange(len(docs)), 0] for _ in range(r.randint(1, 2))]
                        for _ in range(n)]
        cases.append({'seed': seed, 'version': '1.1' if i % 3 else '1.0', 'docs': docs, 'programs': programs, 'mode': 'controlled',
                      # registration: long runs too, so that one thread gets through a whole document while another one
                      # is in the middle of binding the elements of the instance type to the identity constraint
                      'p': r.choice([0.05, 0.2, 0.5] if i % 2 else [0.003, 0.01, 0.03, 0.1]),
                      'family': 'scratch' if i % 2 else 'registration'})
        if i % 4 == 0:
            cases[-1]['pct'] = r.randint(1, 3)
    # (b') systematic: two threads meet the first use of an xsi:type inside an identity scope on a built schema; one run for
    # every rarely-executed call k: the thread that makes it is set aside there until the other one is done or blocked
    for j in range(1 if q else 8):
        seed = ctx.rng.randrange(10 ** 9)
        r = random.Random(seed)
        docs = []
        while len(docs) < 2:
            d = pool_doc(r)
            if d['root'] in ('R', 'R2') and d['xml'].count('xsi:type="B"') + d['xml'].count('xsi:type="C"') >= 2 and d['xml'].count('<item>') >= 3:
                docs.append(d)
        # both threads validate the same document, so whatever the first one is in the middle of registering is needed by
        # the second one too
        programs = [[[r.choice(['iter_errors', 'decode_lax']), 0, 0]] for k in range(2)]
        for k in range(PCT_WINDOW):
            cases.append({'seed': seed, 'version': '1.1' if j % 2 else '1.0', 'docs': docs, 'programs': programs, 'mode': 'controlled',
                          'p': 0.0, 'family': 'registration-sweep', 'pct': [k], 'prebuilt': True})
    # (c) the source of every call is a stream with short reads and the shared schema defuses always: documents with a
    # long prolog, with or without a DOCTYPE that declares an entity (refused sequentially)
    for i in range(80 if q else 800):
        seed = ctx.rng.randrange(10 ** 9)
        r = random.Random(seed)
        n = r.randint(2, 4)
        docs = []
        for k in range(r.randint(2, 4)):
            d = pool_doc(r)
            pro = '<?xml version="1.0"?><!-- %s -->' % ('x' * r.randint(30, 120))
            if k == 0 or r.random() < 0.4:
                pro += '<!DOCTYPE %s [<!ENTITY e "x">]>' % d['root']
            docs.append(dict(d, xml=pro + d['xml']))
        programs = [[[r.choice(['stream_is_valid', 'stream_iter_errors', 'stream_decode']), r.randrange(len(docs)), r.randint(0, 7)]
                     for _ in range(r.randint(1, 3))] for _ in range(n)]
        cases.append({'seed': seed, 'version': '1.1' if i % 3 else '1.0', 'docs': docs, 'programs': programs,
                      'mode': 'controlled' if i % 5 else 'free', 'p': r.choice([0.2, 0.5, 0.8]), 'family': 'streams'})
    return cases


def run(ctx):
    ctx.rule = ('2-4 threads sharing one schema object created with build=False: each thread calls build() and then 1-4 calls of the '
                'C10 operation pool on 2-4 generated documents; 3 of 4 runs under the seeded controlled scheduler (switch '
                'probability 0.002-0.2 at every function call inside xmlschema/ and elementpath/ and every line of '
                'XsdGlobals.build; lock proxies), 1 of 4 free-running with switch interval 1e-6 s; every result compared with the '
                'sequential baseline, the global components with a sequential build, the protocol log of build() replayed in the '
                'Coq model; stream family: the shared schema defuses always and every source is a stream with short reads, each read a '
                'switch point; evaluations = calls; non-trivial = every run')
    evaluate(ctx, gen(ctx))
    ctx.assumptions = ['PARTIAL: the locking protocol is proved for all schedules; neutrality of the shared caches, the scratch context '
                       'and the post-flag tail under real interleavings is explored by the scheduler (switches at function-call '
                       'granularity, CPython) - not proved',
                       'documents that trigger loading of further schemas during validation are outside the property']


def replay(ctx, case):
    evaluate(ctx, [case['case']])

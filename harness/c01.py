"""C01 - child sequences are valid exactly when they are in the content-model language.

For each abstract content model (exhaustive depth-1 family over {a,b}, seeded random deeper models
with wildcards, substitution heads, group references, `all` groups, XSD 1.1 open content) and each
schema class, every word up to a length bound over the model's alphabet plus one foreign name is
validated by the implementation; the verdict vector is compared inside Coq with `accepts`
(proved equal to the XSD language, props/C01.v).  Only models that `upa_check` proves deterministic
and that the implementation builds are used.  Disagreements are classified against the pinned
snapshot (known finding F-C01: the greedy occurrence accounting of ModelVisitor is wrong on
whole families of models, DESIGN 2.5/6)."""
import json

import cm
import common

IMPORTS = 'From XV Require Import Base Regex Particle Upa Harness.'
ROOT_PATH = '/t:r'
FUEL = 4000


def subject(case):
    """Build the schema for one (model, version, open content) and validate every word."""
    import xmlschema
    model, version = case['model'], case['version']
    cls = xmlschema.XMLSchema11 if version == '1.1' else xmlschema.XMLSchema10
    xsd = cm.render_xsd(model, tuple(case['open']) if case.get('open') else None)
    try:
        schema = cls(xsd)
    except Exception as e:  # noqa
        return {'build': common.exc_class(e), 'msg': str(e)[:200]}
    bits = 0
    no_parent_error = []
    foreign = []
    for i, w in enumerate(cm.words_upto(case['sigma'], case['n'])):
        xml = cm.render_xml(w)
        try:
            errors = list(schema.iter_errors(xml))
            ok = schema.is_valid(xml)
        except Exception as e:  # noqa
            foreign.append([i, common.exc_class(e)])
            continue
        if ok != (not errors):
            foreign.append([i, 'is_valid/iter_errors disagree'])
        if ok:
            bits |= 1 << i
        elif not any(getattr(e, 'path', None) == ROOT_PATH for e in errors):
            no_parent_error.append(i)
    return {'build': 'ok', 'bits': str(bits), 'no_parent_error': no_parent_error, 'foreign': foreign}


def make_case(model, version, open_content=None, n=None):
    model = cm.assign_pids(json.loads(json.dumps(model)))
    extra = ('d',)
    sigma = cm.alphabet(model, extra)
    if open_content:
        for s in cm.SYMS:
            if cm.wild_allows(open_content[1], s) and s in ('x', 'n', 'c') and s not in sigma:
                sigma.append(s)
        sigma = sorted(set(sigma), key=lambda s: cm.CODE[s])
    if n is None:
        n = 5 if len(sigma) <= 3 else 4 if len(sigma) <= 5 else 3
    return {'model': model, 'version': version, 'open': list(open_content) if open_content else None,
            'sigma': sigma, 'n': n}


def model_term(case, bits):
    p = cm.coq_part(case['model'])
    pids = '[%s]' % '; '.join(str(lf['pid']) for lf in cm.leaves(case['model']))
    sig = cm.coq_syms(case['sigma'])
    if case.get('open'):
        wild = 'Pos %s' % cm.coq_syms([s for s in cm.SYMS if cm.wild_allows(case['open'][1], s)])
        return '(c01_open_case %s %s (%s) %s %s %d %d %s%%N)' % (
            'true' if case['open'][0] == 'suffix' else 'false', p, wild, sig, pids, FUEL, case['n'], bits)
    if case['version'] == '1.1':
        lv = list(cm.leaves(case['model']))
        ex = ['(%d, %d)' % (a['pid'], b['pid']) for a in lv for b in lv if a['t'] == 'e' and b['t'] == 'w']
        return '(c01_case_ex %s %s %s [%s] %d %d %s%%N)' % (p, sig, pids, '; '.join(ex), FUEL, case['n'], bits)
    return '(c01_case %s %s %s %d %d %s%%N)' % (p, sig, pids, FUEL, case['n'], bits)


def case_desc(case):
    return '%s XSD %s%s' % (cm.show(case['model']), case['version'],
                            ' open=%s' % case['open'] if case.get('open') else '')


def evaluate(ctx, cases):
    impl = common.pool_map(subject, cases)
    terms, idx = [], []
    for k, (c, o) in enumerate(zip(cases, impl)):
        if 'harness_exception' in o:
            ctx.violation('subject failed on %s: %s' % (case_desc(c), o['harness_exception']),
                          {'kind': 'model', 'case': c, 'impl': o}, no_input=True)
            continue
        # models the implementation refuses are C15's business; still ask Coq for the UPA verdict
        terms.append(model_term(c, o.get('bits', '0')))
        idx.append(k)
    res = common.coq_eval('C01', IMPORTS, '', terms, shard=40)
    suspects = []
    for k, r in zip(idx, res):
        c, o = cases[k], impl[k]
        upa, n_acc, mism = r
        upa = upa[1] if isinstance(upa, tuple) else upa
        ctx.dist('upa_verdict', {True: 'deterministic', False: 'ambiguous', None: 'out-of-fuel'}[upa])
        if upa is not True:
            continue
        if o['build'] != 'ok':
            ctx.dist('impl_build', o['build'])
            continue
        nwords = sum(len(c['sigma']) ** L for L in range(c['n'] + 1))
        ctx.count(('m', json.dumps(c, sort_keys=True)), nontrivial=(cm.size(c['model']) >= 3 and 0 < n_acc < nwords),
                  n=nwords)
        ctx.dist('model_depth', cm.depth(c['model']))
        ctx.dist('accepted_share', '%d%%' % (10 * round(10 * n_acc / nwords)))
        ctx.sample({'model': cm.show(c['model']), 'version': c['version'], 'open': c.get('open'),
                    'alphabet': c['sigma'], 'max_word_length': c['n'], 'words': nwords, 'in_language': n_acc})
        if o['foreign']:
            ctx.violation('%s: %s' % (case_desc(c), o['foreign'][:3]),
                          {'kind': 'model', 'case': c, 'impl': o, 'xsd': cm.render_xsd(c['model'])})
        if mism or o['no_parent_error']:
            suspects.append((c, o, mism))
    if not suspects:
        return
    # classify against the pinned snapshot: same wrong verdicts there => known finding F-C01
    pinned = common.run_pinned('c01', 'subject', [s[0] for s in suspects])
    for (c, o, mism), po in zip(suspects, pinned):
        words = list(cm.words_upto(c['sigma'], c['n']))
        bits = int(o['bits'])
        pbits = int(po.get('bits', '0')) if po.get('build') == 'ok' else None
        new = [i for i in mism if pbits is None or ((bits >> i) & 1) != ((pbits >> i) & 1)]
        old = [i for i in mism if i not in new]
        if old:
            ctx.known_finding('F-C01')
            ctx.dist('known_F-C01_models', cm.show(c['model']), 0)
        for i in new[:1]:
            w = words[i]
            verdict = bool((bits >> i) & 1)
            ctx.violation('%s: child sequence %s is %s by the implementation but %s the content-model language'
                          % (case_desc(c), w, 'accepted' if verdict else 'rejected',
                             'not in' if verdict else 'in'),
                          {'kind': 'model', 'case': c, 'word': w, 'impl_valid': verdict, 'model_in_language': not verdict,
                           'xsd': cm.render_xsd(c['model'], tuple(c['open']) if c.get('open') else None),
                           'xml': cm.render_xml(w), 'theorem': 'C01_accepts_iff_word',
                           'other_mismatching_words': [words[j] for j in new[1:6]]})
        # rejected words must carry an error on the parent (pinned comparison as well)
        npe = [i for i in o['no_parent_error'] if i not in mism and i not in po.get('no_parent_error', [])]
        for i in npe[:1]:
            ctx.violation('%s: sequence %s rejected without an error attached to the parent element'
                          % (case_desc(c), words[i]),
                          {'kind': 'model', 'case': c, 'word': words[i], 'xml': cm.render_xml(words[i]),
                           'xsd': cm.render_xsd(c['model'])})


def run(ctx):
    rng = ctx.rng
    cases = []
    fam = list(cm.exhaustive_depth1())
    if ctx.quick():
        fam = rng.sample(fam, 260)
    for m in fam:
        cases.append(make_case(m, rng.choice(['1.0', '1.1']) if ctx.quick() else '1.0'))
        if not ctx.quick():
            cases.append(make_case(m, '1.1'))
    nrand = 200 if ctx.quick() else 3000
    for i in range(nrand):
        v = '1.1' if i % 2 else '1.0'
        m = cm.random_model(rng, version=v)
        cases.append(make_case(m, v))
    # XSD 1.1: a bounded element and a wildcard that admits the same name (the element has precedence, the surplus
    # occurrences belong to the wildcard)
    over = [(k, eo, ns, wo, tail) for k in ('seq', 'all') for eo in [(0, 1), (0, 2), (1, 2), (1, 1)] for ns in ('##any', '##targetNamespace')
            for wo in [(0, None), (0, 1), (0, 2), (1, 2)] for tail in (False, True)]
    for k, eo, ns, wo, tail in (over if not ctx.quick() else rng.sample(over, 40)):
        ps = [cm.E('a', eo), cm.W(ns, wo)] + ([cm.E('c', (1, 1) if k == 'seq' else (0, 1))] if tail else [])
        if k == 'all' and (eo[1] or 0) > 1 and False:
            continue
        cases.append(make_case(cm.G(k, ps, (1, 1)), '1.1'))
    # the wildcard in a nested group (or a repeated one), the competing element after it
    nested = [(ns, wo, go, eo) for ns in ('##any', '##targetNamespace') for wo in [(0, None), (0, 2), (1, 1)]
              for go in [(1, 1), (0, 1), (0, 2)] for eo in [(1, 1), (0, 1), (1, 2)]]
    for ns, wo, go, eo in (nested if not ctx.quick() else rng.sample(nested, 20)):
        cases.append(make_case(cm.G('seq', [cm.G('seq', [cm.W(ns, wo)], go), cm.E('b', eo)], (1, 1)), '1.1'))
        cases.append(make_case(cm.G('seq', [cm.E('c', (0, 1)), cm.G('seq', [cm.G('choice', [cm.W(ns, wo), cm.E('d')], (1, 1))], go), cm.E('b', eo)], (1, 1)), '1.1'))
    # a nested group that must occur at least twice, inside a repeated sequence: a later repetition with too few inner
    # occurrences ((a|b){2,2} c)+ with 'a a c a c' - words up to length 6 (the counters of the inner group across passes)
    inners = [cm.G('choice', [cm.E('a'), cm.E('b')], (2, 2)), cm.G('choice', [cm.E('a'), cm.E('b')], (2, 3)), cm.E('a', (2, 3)),
              cm.G('seq', [cm.E('a'), cm.E('b', (0, 1))], (2, 2)), cm.G('seq', [cm.E('b', (1, 3))], (1, 2)), cm.E('a', (2, 2))]
    reps = [(inner, first, oo) for inner in inners for first in (True, False) for oo in [(1, None), (1, 2), (0, 2), (2, 2)]]
    for inner, first, oo in (reps if not ctx.quick() else rng.sample(reps, 16)):
        ps = [inner, cm.E('c')] if first else [cm.E('c'), inner]
        for v in (('1.0', '1.1') if not ctx.quick() else (rng.choice(['1.0', '1.1']),)):
            cases.append(make_case(cm.G('seq', ps, oo), v, n=6))
    # XSD 1.1: a wildcard next to the head of a substitution group; a member of the group is attributed to the head's particle
    heads = [(k, wfirst, wo, ho, ns) for k in ('seq', 'all') for wfirst in (True, False) for wo in [(0, 1), (0, None), (0, 2)]
             for ho in [(1, 1), (2, 2), (0, 1), (1, 2)] for ns in ('##any', '##targetNamespace')]
    for k, wfirst, wo, ho, ns in (heads if not ctx.quick() else rng.sample(heads, 30)):
        if k == 'all' and (ho[1] or 0) > 1:
            continue
        ps = [cm.W(ns, wo), cm.E('h', ho)] if wfirst else [cm.E('h', ho), cm.W(ns, wo)]
        cases.append(make_case(cm.G(k, ps, (1, 1)), '1.1'))
    nopen = 40 if ctx.quick() else 400
    for i in range(nopen):
        m = cm.random_model(rng, version='1.1', max_leaves=4, p_wild=0.0, allow_all=False)
        oc = (rng.choice(['interleave', 'suffix']), rng.choice(['##other', '##local', cm.ONS, '##local %s' % cm.ONS]))
        cases.append(make_case(m, '1.1', oc))
    ctx.rule = ('models: %s of the 2416*2 one-group models over {a,b} with 8 occurrence ranges, seeded random models '
                '(depth<=3, <=6 leaves, elements/wildcards/substitution head/group refs/all), XSD 1.1 open content; '
                'per model every word up to length 3-5 over its alphabet plus a foreign name; evaluations = '
                '(model, word) validations of deterministic, buildable models; non-trivial = model with >= 2 '
                'particles whose language is neither empty nor everything on the explored words; distinct by model+version'
                % ('a sample' if ctx.quick() else 'all'))
    # regression corpus first
    import os
    reg = common.VERIF / 'regressions' / 'C01'
    if reg.exists():
        for f in sorted(os.listdir(reg)):
            c = json.loads((reg / f).read_text())
            cases.insert(0, make_case(c['model'], c['version'], tuple(c['open']) if c.get('open') else None, c.get('n')))
    evaluate(ctx, cases)
    ctx.assumptions = [
        'the verdict is compared only on models that upa_check proves deterministic (property is conditional)',
        'open content is exercised only with wildcards that cannot match the names of the model (no priority question)',
        'wildcards are read over the finite interned alphabet {a,b,c,d,h,m in urn:t, x in urn:o, y in urn:p, n absent}',
        'F-C01: mis-judgements that the pinned snapshot %s reproduces identically are the known finding'
        % common.pinned_dir().name]


def replay(ctx, case):
    c = case['case']
    evaluate(ctx, [make_case(c['model'], c['version'], tuple(c['open']) if c.get('open') else None, c.get('n'))])

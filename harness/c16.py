"""C16 - wildcard namespace constraints behave as sets (DESIGN 5/C16).

Exhaustive: every ordered pair of namespace constraints expressible over
{##any, ##other, "", non-empty subsets of {##local, ##targetNamespace, urn:a, urn:b}} (and, for
XSD 1.1, notNamespace over the same subsets), for element and attribute wildcards, both versions.
Primary observables (the property itself, judged on the implementation alone, on the universe
{absent, target, urn:a, urn:b, fresh}): union = set union, intersection = set intersection,
accepted restriction => inclusion, overlap <=> sets intersect.  Model correspondence: the same
observations predicted by Wildcard.v (union/intersection/is_restriction/is_overlap/allowed).
End-to-end: attribute wildcards composed by complex-type extension (union) and by attribute-group
references (intersection), observed by validating instances.
"""
import itertools
from copy import copy

import common
from common import coq_N, coq_list, coq_bool

TNS = 'urn:t'
POOL = ['##local', '##targetNamespace', 'urn:a', 'urn:b']
INTERN = {'': 0, 'http://www.w3.org/2001/XMLSchema-instance': 1, TNS: 5, 'urn:a': 6, 'urn:b': 7,
          'urn:fresh': 9}
UNIVERSE = ['', TNS, 'urn:a', 'urn:b', 'urn:fresh']
IMPORTS = 'From XV Require Import Base Wildcard.'


def forms(v11):
    out = [('ns', '##any'), ('ns', '##other'), ('ns', '')]
    subsets = []
    for k in range(1, len(POOL) + 1):
        for c in itertools.combinations(POOL, k):
            subsets.append(' '.join(c))
    out += [('ns', s) for s in subsets]
    if v11:
        out += [('not', s) for s in subsets]
    return out


def form_attr(f):
    return ('namespace="%s"' if f[0] == 'ns' else 'notNamespace="%s"') % f[1]


def tok_ns(tok):
    return '' if tok == '##local' else TNS if tok == '##targetNamespace' else tok


def form_coq(f):
    kind, val = f
    if kind == 'not':
        sh = 'SNot %s' % coq_list([coq_N(INTERN[tok_ns(t)]) for t in val.split()])
    elif val == '##any':
        sh = 'SAny'
    elif val == '##other':
        sh = 'SOther'
    else:
        sh = 'SList %s' % coq_list([coq_N(INTERN[tok_ns(t)]) for t in val.split()])
    return '{| sh := %s; wtns := %s |}' % (sh, coq_N(INTERN[TNS]))


def form_set(f):
    """Independent set reading of a form on the universe (the property's denotation)."""
    kind, val = f
    res = []
    for u in UNIVERSE:
        if kind == 'not':
            res.append(u not in [tok_ns(t) for t in val.split()])
        elif val == '##any':
            res.append(True)
        elif val == '##other':
            res.append(u not in ('', TNS))
        else:
            res.append(u in [tok_ns(t) for t in val.split()])
    return res


def schema_text(version, fs):
    parts = ['<xs:schema xmlns:xs="http://www.w3.org/2001/XMLSchema" targetNamespace="%s" '
             'xmlns:t="%s" elementFormDefault="qualified">' % (TNS, TNS)]
    for i, f in enumerate(fs):
        parts.append('<xs:complexType name="w%d"><xs:sequence><xs:any %s processContents="skip"/>'
                     '</xs:sequence><xs:anyAttribute %s processContents="skip"/></xs:complexType>'
                     % (i, form_attr(f), form_attr(f)))
    parts.append('</xs:schema>')
    return ''.join(parts)


_SCHEMAS = {}


def get_wild(version, idx, kind):
    import xmlschema
    if version not in _SCHEMAS:
        cls = xmlschema.XMLSchema11 if version == '1.1' else xmlschema.XMLSchema10
        _SCHEMAS[version] = cls(schema_text(version, forms(version == '1.1')))
    t = _SCHEMAS[version].types['w%d' % idx]
    return t.content[0] if kind == 'elem' else t.attributes[None]


def vec(w):
    return [bool(w.is_namespace_allowed(u)) for u in UNIVERSE]


def subject(case):
    """Direct component level: one ordered pair of wildcards."""
    version, kind, i, j = case['version'], case['kind'], case['i'], case['j']
    a, b = get_wild(version, i, kind), get_wild(version, j, kind)
    out = {'a': vec(a), 'b': vec(b)}
    for op in ('union', 'intersection'):
        w = copy(a)
        try:
            getattr(w, op)(b)
            out[op] = vec(w)
        except Exception as e:  # noqa
            out[op] = 'ERR:' + common.exc_class(e)
    try:
        out['restr'] = bool(a.is_restriction(b))
    except Exception as e:  # noqa
        out['restr'] = 'ERR:' + common.exc_class(e)
    if kind == 'elem':
        try:
            out['overlap'] = bool(a.is_overlap(b))
        except Exception as e:  # noqa
            out['overlap'] = 'ERR:' + common.exc_class(e)
    return out


def model_term(case):
    v11 = case['version'] == '1.1'
    fs = forms(v11)
    a, b = form_coq(fs[case['i']]), form_coq(fs[case['j']])
    uni = coq_list([coq_N(INTERN[u]) for u in UNIVERSE])
    return ('(let a := %s in let b := %s in let U := %s in '
            '(map (allowed a) U, map (allowed b) U, '
            'match union %s a b with Some c => Some (map (allowed c) U) | None => None end, '
            'map (allowed (intersection a b)) U, is_restriction a b, is_overlap a b))'
            % (a, b, uni, coq_bool(v11)))


# ------------------------------------------------------------------ end-to-end
def e2e_schema(version, mode, fa, fb):
    head = ('<xs:schema xmlns:xs="http://www.w3.org/2001/XMLSchema" targetNamespace="%s" '
            'xmlns:t="%s">' % (TNS, TNS))
    if mode == 'ext':
        body = ('<xs:complexType name="base"><xs:anyAttribute %s processContents="skip"/></xs:complexType>'
                '<xs:complexType name="der"><xs:complexContent><xs:extension base="t:base">'
                '<xs:anyAttribute %s processContents="skip"/></xs:extension></xs:complexContent>'
                '</xs:complexType><xs:element name="r" type="t:der"/>' % (form_attr(fb), form_attr(fa)))
    else:
        body = ('<xs:attributeGroup name="g1"><xs:anyAttribute %s processContents="skip"/></xs:attributeGroup>'
                '<xs:attributeGroup name="g2"><xs:anyAttribute %s processContents="skip"/></xs:attributeGroup>'
                '<xs:complexType name="der"><xs:attributeGroup ref="t:g1"/><xs:attributeGroup ref="t:g2"/>'
                '</xs:complexType><xs:element name="r" type="t:der"/>' % (form_attr(fa), form_attr(fb)))
    return head + body + '</xs:schema>'


def subject_e2e(case):
    import xmlschema
    version, mode = case['version'], case['mode']
    fs = forms(version == '1.1')
    cls = xmlschema.XMLSchema11 if version == '1.1' else xmlschema.XMLSchema10
    try:
        schema = cls(e2e_schema(version, mode, fs[case['i']], fs[case['j']]))
    except Exception as e:  # noqa
        return {'build': 'ERR:' + common.exc_class(e)}
    res = []
    for u in UNIVERSE:
        if u:
            xml = '<t:r xmlns:t="%s" xmlns:u="%s" u:x="1"/>' % (TNS, u)
        else:
            xml = '<t:r xmlns:t="%s" x="1"/>' % TNS
        try:
            res.append(bool(schema.is_valid(xml)))
        except Exception as e:  # noqa
            res.append('ERR:' + common.exc_class(e))
    return {'build': 'ok', 'valid': res}


def case_key(c):
    return '%s|%s|%s|%s|%s' % (c['version'], c.get('kind') or c.get('mode'), c['op'] if 'op' in c else '',
                               c['fa'], c['fb'])


def check_pairs(ctx, cases):
    impl = common.pool_map(subject, cases)
    model = common.coq_eval('C16', IMPORTS, '', [model_term(c) for c in cases])
    for c, o, m in zip(cases, impl, model):
        fs = forms(c['version'] == '1.1')
        fa, fb = fs[c['i']], fs[c['j']]
        base = dict(c, fa=form_attr(fa), fb=form_attr(fb), universe=UNIVERSE, impl=o)
        if 'harness_exception' in o:
            ctx.violation('subject failed: %s' % o['harness_exception'], dict(base, kind='pair'), no_input=True)
            continue
        ma, mb, mu, mi, mr, mo = m
        mu = None if mu is None else mu[1] if isinstance(mu, tuple) else mu
        sa, sb = form_set(fa), form_set(fb)
        nontriv = fa != fb and fa[1] not in ('##any', '') and fb[1] not in ('##any', '')
        ctx.count((c['version'], c['kind'], c['i'], c['j']), nontrivial=nontriv)
        ctx.dist('shape_pair', '%s/%s' % (shape_name(fa), shape_name(fb)))
        problems = []
        # primary: the property itself on the implementation
        if o['a'] != sa or o['b'] != sb:
            problems.append(('primary', 'is_namespace_allowed differs from the set denotation: %s/%s vs %s/%s'
                             % (o['a'], o['b'], sa, sb)))
        if isinstance(o['union'], list) and o['union'] != [x or y for x, y in zip(o['a'], o['b'])]:
            problems.append(('primary', 'union admits %s, set union is %s'
                             % (o['union'], [x or y for x, y in zip(o['a'], o['b'])])))
        if isinstance(o['intersection'], list) and o['intersection'] != [x and y for x, y in zip(o['a'], o['b'])]:
            problems.append(('primary', 'intersection admits %s, set intersection is %s'
                             % (o['intersection'], [x and y for x, y in zip(o['a'], o['b'])])))
        if o['restr'] is True and any(x and not y for x, y in zip(o['a'], o['b'])):
            problems.append(('primary', 'accepted as restriction but set not included'))
        if 'overlap' in o:
            inter = any(x and y for x, y in zip(o['a'], o['b']))
            if o['overlap'] != inter:
                problems.append(('primary', 'is_overlap=%s but sets %s on the universe'
                                 % (o['overlap'], 'intersect' if inter else 'are disjoint')))
        # correspondence with the model (auxiliary observables included)
        mo_u = 'ERR:other-library:XMLSchemaValueError' if mu is None else mu
        pairs = [('a', o['a'], ma), ('b', o['b'], mb), ('union', o['union'], mo_u),
                 ('intersection', o['intersection'], mi), ('restr', o['restr'], mr)]
        if 'overlap' in o:
            pairs.append(('overlap', o['overlap'], mo))
        for name, iv, mv in pairs:
            if iv != mv:
                problems.append(('aux', 'model/implementation differ on %s: impl=%s model=%s' % (name, iv, mv)))
        if problems:
            prim = [p for p in problems if p[0] == 'primary']
            msg = '; '.join(p[1] for p in (prim or problems))
            ctx.violation('%s wildcards %s vs %s (XSD %s): %s' % (c['kind'], base['fa'], base['fb'], c['version'], msg),
                          dict(base, kind='pair', model=repr(m), theorem='C16_union/C16_intersection/'
                               'C16_restriction_sound/C16_overlap_iff'), no_input=not prim)
        ctx.sample({'version': c['version'], 'kind': c['kind'], 'a': base['fa'], 'b': base['fb'],
                    'impl': o}, cap=4)


def shape_name(f):
    return 'not' if f[0] == 'not' else f[1] if f[1] in ('##any', '##other') else 'list' if f[1] else 'empty'


def check_e2e(ctx, cases):
    impl = common.pool_map(subject_e2e, cases)
    for c, o in zip(cases, impl):
        fs = forms(c['version'] == '1.1')
        fa, fb = fs[c['i']], fs[c['j']]
        sa, sb = form_set(fa), form_set(fb)
        base = dict(c, fa=form_attr(fa), fb=form_attr(fb), universe=UNIVERSE, impl=o, kind='e2e',
                    xsd=e2e_schema(c['version'], c['mode'], fa, fb))
        ctx.count(('e2e', c['version'], c['mode'], c['i'], c['j']),
                  nontrivial=fa != fb and fa[1] not in ('##any', '') and fb[1] not in ('##any', ''))
        if 'harness_exception' in o:
            ctx.violation('subject failed: %s' % o['harness_exception'], base, no_input=True)
            continue
        if o['build'] != 'ok':
            # only the XSD 1.0 "not expressible" union may refuse the schema
            expressible = True
            if c['mode'] == 'ext' and c['version'] == '1.0':
                m = common.coq_eval('C16x', IMPORTS, '', ['match union false %s %s with Some _ => true | None => false end'
                                                         % (form_coq(fa), form_coq(fb))])
                expressible = m[0]
            if expressible:
                ctx.violation('schema with %s wildcards %s / %s refused (%s) although the combination is expressible'
                              % (c['mode'], base['fa'], base['fb'], o['build']), base, no_input=True)
            continue
        want = [x or y for x, y in zip(sa, sb)] if c['mode'] == 'ext' else [x and y for x, y in zip(sa, sb)]
        if o['valid'] != want:
            ctx.violation('%s of attribute wildcards %s and %s (XSD %s) admits %s on %s, the set %s is %s'
                          % ('extension' if c['mode'] == 'ext' else 'attribute-group combination', base['fa'],
                             base['fb'], c['version'], o['valid'], UNIVERSE,
                             'union' if c['mode'] == 'ext' else 'intersection', want), base)
        ctx.sample({'e2e': c['mode'], 'version': c['version'], 'a': base['fa'], 'b': base['fb'],
                    'valid_for_universe': o.get('valid')}, cap=6)


# ------------------------------------------------------------------ wildcards of two schema documents (different target namespaces)
ANS = 'urn:a'


def form_set_tns(f, tns):
    kind, val = f
    def tok(t):
        return '' if t == '##local' else tns if t == '##targetNamespace' else t
    res = []
    for u in UNIVERSE:
        if kind == 'not':
            res.append(u not in [tok(t) for t in val.split()])
        elif val == '##any':
            res.append(True)
        elif val == '##other':
            res.append(u not in ('', tns))
        else:
            res.append(u in [tok(t) for t in val.split()])
    return res


def form_coq_tns(f, tns):
    kind, val = f
    def code(t):
        return INTERN['' if t == '##local' else tns if t == '##targetNamespace' else t]
    if kind == 'not':
        sh = 'SNot %s' % coq_list([coq_N(code(t)) for t in val.split()])
    elif val == '##any':
        sh = 'SAny'
    elif val == '##other':
        sh = 'SOther'
    else:
        sh = 'SList %s' % coq_list([coq_N(code(t)) for t in val.split()])
    return '{| sh := %s; wtns := %s |}' % (sh, coq_N(INTERN[tns]))


_CROSS = {}


def subject_cross(case):
    import xmlschema
    version = case['version']
    if version not in _CROSS:
        cls = xmlschema.XMLSchema11 if version == '1.1' else xmlschema.XMLSchema10
        _CROSS[version] = cls(schema_text(version, forms(version == '1.1')).replace(TNS, ANS))
    a = get_wild(version, case['i'], 'elem')
    b = _CROSS[version].types['w%d' % case['j']].content[0]
    out = {}
    try:
        out['ab'] = bool(a.is_overlap(b))
        out['ba'] = bool(b.is_overlap(a))
        # a wildcard of one schema document as a restriction of a wildcard of another target namespace (xs:import)
        out['ra'] = bool(a.is_restriction(b))
        out['rb'] = bool(b.is_restriction(a))
        # union / intersection of a copy of `a` with `b` (an extension across an import combines the wildcards so)
        import copy as _copy
        for name, op in (('union', 'union'), ('inter', 'intersection')):
            w = _copy.copy(a)
            try:
                getattr(w, op)(b)
                out[name] = vec(w)
            except ValueError:
                out[name] = 'not-expressible'
        out['a_after'] = vec(a)
    except Exception as e:  # noqa
        out['exc'] = common.exc_class(e)
    return out


def check_cross(ctx, cases):
    impl = common.pool_map(subject_cross, cases)
    suspects = []
    terms = []
    for c in cases:
        fs = forms(c['version'] == '1.1')
        a, b = form_coq_tns(fs[c['i']], TNS), form_coq_tns(fs[c['j']], ANS)
        terms.append('(is_overlap %s %s, is_overlap %s %s, is_restriction %s %s, is_restriction %s %s)' % (a, b, b, a, a, b, b, a))
    model = common.coq_eval('C16c', IMPORTS, '', terms)
    for c, o, m in zip(cases, impl, model):
        fs = forms(c['version'] == '1.1')
        fa, fb = fs[c['i']], fs[c['j']]
        base = dict(c, fa=form_attr(fa), fb=form_attr(fb), kind='cross', impl=o)
        ctx.count(('cross', c['version'], c['i'], c['j']), nontrivial=True)
        if 'harness_exception' in o or 'exc' in o:
            ctx.violation('is_overlap failed: %s' % (o.get('exc') or o['harness_exception']), base, no_input=True)
            continue
        inter = any(x and y for x, y in zip(form_set_tns(fa, TNS), form_set_tns(fb, ANS)))
        problems = []
        for name, v in (('a.is_overlap(b)', o['ab']), ('b.is_overlap(a)', o['ba'])):
            if v != inter:
                problems.append(('primary', '%s=%s but the sets %s on the universe' % (name, v, 'intersect' if inter else 'are disjoint')))
        if (o['ab'], o['ba']) != tuple(m[:2]):
            problems.append(('aux', 'model/implementation differ on overlap: impl=%s model=%s' % ((o['ab'], o['ba']), m[:2])))
        if (o.get('ra'), o.get('rb')) != tuple(m[2:]):
            problems.append(('aux', 'model/implementation differ on restriction across target namespaces: impl=%s model=%s'
                             % ((o.get('ra'), o.get('rb')), m[2:])))
        sa, sb = form_set_tns(fa, TNS), form_set_tns(fb, ANS)
        combo = []
        if isinstance(o.get('union'), list) and o['union'] != [x or y for x, y in zip(sa, sb)]:
            combo.append(('primary', 'the union admits %s, the two wildcards together admit %s'
                          % ([u for u, x in zip(UNIVERSE, o['union']) if x], [u for u, x, y in zip(UNIVERSE, sa, sb) if x or y])))
        if isinstance(o.get('inter'), list) and o['inter'] != [x and y for x, y in zip(sa, sb)]:
            combo.append(('primary', 'the intersection admits %s, both wildcards admit %s'
                          % ([u for u, x in zip(UNIVERSE, o['inter']) if x], [u for u, x, y in zip(UNIVERSE, sa, sb) if x and y])))
        if combo:
            # F-C16a: a ##other operand keeps its token in the result, which is then read with the target namespace of the
            # receiving wildcard; identified by the ##other operand and by the same result on the pinned snapshot
            suspects.append((c, o, combo, base))
        if o.get('a_after') is not None and o['a_after'] != sa:
            problems.append(('primary', 'combining a copy changed the operand itself'))
        for name, v, d, bse in (('a.is_restriction(b)', o.get('ra'), sa, sb), ('b.is_restriction(a)', o.get('rb'), sb, sa)):
            if v and not all(y for x, y in zip(d, bse) if x):
                extra = [u for u, x, y in zip(UNIVERSE, d, bse) if x and not y]
                problems.append(('primary', '%s is accepted but the derived wildcard admits %s, which the base wildcard excludes' % (name, extra)))
        if problems:
            prim = [p for p in problems if p[0] == 'primary']
            ctx.violation('element wildcards %s (target namespace %s) and %s (target namespace %s), XSD %s: %s'
                          % (base['fa'], TNS, base['fb'], ANS, c['version'], '; '.join(p[1] for p in (prim or problems))),
                          dict(base, theorem='C16_overlap_iff'), no_input=not prim)
    if suspects:
        pinned = common.run_pinned('c16', 'subject_cross', [s_[0] for s_ in suspects])
        for (c, o, combo, base), po in zip(suspects, pinned):
            if '##other' in base['fa'] + base['fb'] and (po.get('union'), po.get('inter')) == (o.get('union'), o.get('inter')):
                ctx.known_finding('F-C16a')
            else:
                ctx.violation('element wildcards %s (target namespace %s) and %s (target namespace %s), XSD %s: %s'
                              % (base['fa'], TNS, base['fb'], ANS, c['version'], '; '.join(p[1] for p in combo)),
                              dict(base, theorem='C16_union / C16_intersection'))


# ------------------------------------------------------------------ an attribute group shared by two types
QFORMS = ['namespace="##any"', 'namespace="##other"', 'notNamespace="urn:a"', 'notNamespace="urn:a" notQName="t:b"',
          'notNamespace="##local" notQName="t:c"', 'namespace="##any" notQName="t:b"', 'notQName="t:b ##defined"']
PROBES = [('t:b', TNS), ('t:c', TNS), ('t:zz', TNS), ('a:x', 'urn:a'), ('b:x', 'urn:b'), ('x', '')]


QFORMS10 = ['namespace="##any"', 'namespace="##other"', 'namespace="urn:a"', 'namespace="##local urn:b"', 'namespace="##targetNamespace"']


def alias_schema(g, local, with_user, mode='local'):
    if mode == 'ext':
        # the other user extends a type that has its own wildcard and takes the group's wildcard by reference only
        user = ('<xs:complexType name="base"><xs:anyAttribute %s processContents="skip"/></xs:complexType>'
                '<xs:complexType name="user"><xs:complexContent><xs:extension base="t:base"><xs:attributeGroup ref="t:g"/>'
                '</xs:extension></xs:complexContent></xs:complexType><xs:element name="u" type="t:user"/>' % local) if with_user else ''
    else:
        user = ('<xs:complexType name="user"><xs:attributeGroup ref="t:g"/><xs:anyAttribute %s processContents="skip"/></xs:complexType>'
                '<xs:element name="u" type="t:user"/>' % local) if with_user else ''
    return ('<xs:schema xmlns:xs="http://www.w3.org/2001/XMLSchema" targetNamespace="%s" xmlns:t="%s">'
            '<xs:attribute name="b" type="xs:string"/><xs:attribute name="c" type="xs:string"/>'
            '<xs:attributeGroup name="g"><xs:anyAttribute %s processContents="skip"/></xs:attributeGroup>%s'
            '<xs:complexType name="alone"><xs:attributeGroup ref="t:g"/></xs:complexType>'
            '<xs:element name="r" type="t:alone"/></xs:schema>' % (TNS, TNS, g, user))


def subject_alias(case):
    import xmlschema
    out = {}
    for with_user in (False, True):
        try:
            cls = xmlschema.XMLSchema10 if case.get('version') == '1.0' else xmlschema.XMLSchema11
            s = cls(alias_schema(case['g'], case['local'], with_user, case.get('mode', 'local')))
        except Exception as e:  # noqa
            out[str(with_user)] = 'ERR:' + common.exc_class(e)
            continue
        res = []
        for name, ns in PROBES:
            decl = ' xmlns:%s="%s"' % (name.split(':')[0], ns) if ':' in name and not name.startswith('t:') else ''
            res.append(bool(s.is_valid('<t:r xmlns:t="%s"%s %s="1"/>' % (TNS, decl, name))))
        out[str(with_user)] = res
    return out


def check_alias(ctx, cases):
    impl = common.pool_map(subject_alias, cases)
    for c, o in zip(cases, impl):
        base = dict(c, kind='alias', impl=o, xsd=alias_schema(c['g'], c['local'], True, c.get('mode', 'local')))
        ctx.count(('alias', c['g'], c['local'], c.get('mode', 'local'), c.get('version', '1.1')), nontrivial=c['g'] != c['local'])
        if 'harness_exception' in o:
            ctx.violation('subject failed: %s' % o['harness_exception'], base, no_input=True)
            continue
        if isinstance(o['False'], str) or isinstance(o['True'], str):
            continue    # a combination the schema class refuses: not judged
        if o['False'] != o['True']:
            ctx.violation('the wildcard of an attribute group (%s) admits %s when the group is used by one type only, and %s '
                          'once another type %s (%s, XSD %s): a combination must not change its operands'
                          % (c['g'], dict(zip([p[0] for p in PROBES], o['False'])), dict(zip([p[0] for p in PROBES], o['True'])),
                             'extends a base type with this wildcard and references the group' if c.get('mode') == 'ext'
                             else 'combines the group with its own wildcard', c['local'], c.get('version', '1.1')), base)


def run(ctx):
    cases, e2e = [], []
    for version in ('1.0', '1.1'):
        n = len(forms(version == '1.1'))
        for kind in ('elem', 'attr'):
            for i in range(n):
                for j in range(n):
                    cases.append({'version': version, 'kind': kind, 'i': i, 'j': j})
        for mode in ('ext', 'ag'):
            for i in range(n):
                for j in range(n):
                    e2e.append({'version': version, 'mode': mode, 'i': i, 'j': j})
    if ctx.quick():
        # the component-level sweep is always exhaustive (2 s); the end-to-end sweep is sampled
        e2e = ctx.rng.sample(e2e, 700)
    ctx.exhaustive = True
    ctx.rule = ('every ordered pair of the 18 (XSD 1.0) / 33 (XSD 1.1) namespace constraints over '
                '{##any, ##other, "", subsets of {##local, ##targetNamespace, urn:a, urn:b}} (+ notNamespace in 1.1), '
                'element and attribute wildcards, evaluated on {absent, target, urn:a, urn:b, fresh}; '
                'non-trivial = the two constraints differ and neither is ##any or empty; end-to-end '
                'extension/attribute-group schemas validated against one attribute per universe namespace '
                '(%s)' % ('sampled' if ctx.quick() else 'exhaustive'))
    check_pairs(ctx, cases)
    check_e2e(ctx, e2e)
    cross = [{'version': v, 'i': i, 'j': j} for v in ('1.0', '1.1') for i in range(len(forms(v == '1.1'))) for j in range(len(forms(v == '1.1')))]
    check_cross(ctx, cross)
    check_alias(ctx, [{'g': g, 'local': l, 'mode': m, 'version': '1.1'} for g in QFORMS for l in QFORMS for m in ('local', 'ext')] +
                [{'g': g, 'local': l, 'mode': m, 'version': '1.0'} for g in QFORMS10 for l in QFORMS10 for m in ('local', 'ext')])
    ctx.extra['cross_namespace_pairs'] = len(cross)
    ctx.extra['component_pairs'] = len(cases)
    ctx.extra['end_to_end_schemas'] = len(e2e)
    ctx.assumptions = ['union / intersection / restriction: same target namespace for both wildcards; overlap is also checked for '
                       'wildcards of two schema documents with different target namespaces',
                       'notQName / ##defined are not modelled: they are exercised by the metamorphic shared-group family only',
                       'the XSI namespace is excluded from the universe (positive forms always admit it)']


def replay(ctx, case):
    if case.get('kind') == 'cross':
        check_cross(ctx, [{k: case[k] for k in ('version', 'i', 'j')}])
    elif case.get('kind') == 'alias':
        check_alias(ctx, [{k: case[k] for k in ('g', 'local', 'mode', 'version') if k in case}])
    elif case.get('kind') == 'e2e':
        check_e2e(ctx, [{k: case[k] for k in ('version', 'mode', 'i', 'j')}])
    else:
        check_pairs(ctx, [{k: case[k] for k in ('version', 'kind', 'i', 'j')}])

"""C13 - defused parsing refuses every entity declaration before any expansion.

Exhaustive product: defuse mode x source kind (text, bytes, StringIO, BytesIO, seekable / non-seekable raw and
buffered binary streams, file path, file URL) x locality of base_url (none, local, remote) x DTD payload catalogue
(internal / external / parameter / unparsed entities, nesting, position in the internal subset, external DTD
subset by SYSTEM and PUBLIC, UTF-8 BOM / UTF-16, 70 KiB prolog) x role (instance, main schema, included schema).
Primary: when defusing applies and the document declares an entity or references an external DTD subset the
library's forbidden-resource error is raised, no entity text appears in any parsed node, and the external
identifier is never opened (audit events); clean documents parse to the same tree as with defuse='never'.
Correspondence: the callback sequence recorded with a logging pyexpat parser on the same bytes is fed to
Defuse.v `prescan`, `is_defused` predicts whether defusing applies."""
import io
import os
import sys

import common

IMPORTS = 'From XV Require Import Base Defuse.'
SECRET_MARK = 'EXPANDED-PAYLOAD'
_EVENTS = []
_HOOKED = [False]
_ON = [False]


def _hook(event, args):
    if _ON[0] and event == 'open':
        p = args[0]
        if isinstance(p, bytes):
            p = p.decode('utf-8', 'replace')
        if isinstance(p, str):
            _EVENTS.append(p)
    elif _ON[0] and event == 'urllib.Request':
        _EVENTS.append(str(args[0]))


def record_on():
    if not _HOOKED[0]:
        sys.addaudithook(_hook)
        _HOOKED[0] = True
    del _EVENTS[:]
    _ON[0] = True


def tmpdir():
    d = os.path.join(str(common.BUILD), 'tmp', 'c13_%d' % os.getpid())
    os.makedirs(d, exist_ok=True)
    return d


def payloads(secret_path):
    big = '<!-- ' + 'x' * 70000 + ' -->'
    P = {
        'clean': '<r><a>text</a></r>',
        'clean-doctype': '<!DOCTYPE r><r><a>text</a></r>',
        'clean-prolog': '<?xml version="1.0"?><!-- c --><?pi x?><r><a>text</a></r>',
        'clean-internal-subset': '<!DOCTYPE r [<!ELEMENT r ANY><!ATTLIST r k CDATA #IMPLIED>]><r><a>text</a></r>',
        'internal': '<!DOCTYPE r [<!ENTITY e "%s">]><r><a>&e;</a></r>' % SECRET_MARK,
        'internal-attr': '<!DOCTYPE r [<!ENTITY e "%s">]><r k="&e;"><a>t</a></r>' % SECRET_MARK,
        'internal-unused': '<!DOCTYPE r [<!ENTITY e "%s">]><r><a>t</a></r>' % SECRET_MARK,
        'nested': '<!DOCTYPE r [<!ENTITY a "%s"><!ENTITY b "&a;&a;"><!ENTITY c "&b;&b;">]><r><a>&c;</a></r>' % SECRET_MARK,
        'external': '<!DOCTYPE r [<!ENTITY e SYSTEM "file://%s">]><r><a>&e;</a></r>' % secret_path,
        'external-public': '<!DOCTYPE r [<!ENTITY e PUBLIC "-//X//Y" "file://%s">]><r><a>&e;</a></r>' % secret_path,
        'parameter': '<!DOCTYPE r [<!ENTITY %% p "<!ENTITY e \'%s\'>">%%p;]><r><a>&e;</a></r>' % SECRET_MARK,
        'parameter-external': '<!DOCTYPE r [<!ENTITY %% p SYSTEM "file://%s">%%p;]><r><a>t</a></r>' % secret_path,
        'unparsed': '<!DOCTYPE r [<!NOTATION n SYSTEM "n"><!ENTITY u SYSTEM "file://%s" NDATA n>]><r><a>t</a></r>' % secret_path,
        'late-decl': '<!DOCTYPE r [<!ELEMENT r ANY><!-- c --><?pi y?><!ATTLIST r k CDATA #IMPLIED><!ENTITY e "%s">]><r><a>&e;</a></r>' % SECRET_MARK,
        'dtd-system': '<!DOCTYPE r SYSTEM "file://%s"><r><a>t</a></r>' % secret_path,
        'dtd-public': '<!DOCTYPE r PUBLIC "-//X//Y" "file://%s"><r><a>t</a></r>' % secret_path,
        'big-prolog': big + '<!DOCTYPE r [<!ENTITY e "%s">]><r><a>&e;</a></r>' % SECRET_MARK,
        'big-prolog-clean': big + '<r><a>text</a></r>',
        # the first start tag lies beyond the 64 KiB replay buffer of non-seekable streams and the body is long and numbered:
        # bytes lost by a wrong rewind change the tree
        'big-prolog-body': big + '<r>' + ''.join('<a>%05d</a>' % i for i in range(4000)) + '</r>',
    }
    out = {k: v.encode('utf-8') for k, v in P.items()}
    out['bom-internal'] = b'\xef\xbb\xbf' + out['internal']
    out['utf16-internal'] = ('<?xml version="1.0" encoding="UTF-16"?>' + P['internal']).encode('utf-16')
    out['utf16-clean'] = ('<?xml version="1.0" encoding="UTF-16"?>' + P['clean']).encode('utf-16')
    return out


FORBIDDEN_PAYLOADS = {'internal', 'internal-attr', 'internal-unused', 'nested', 'external', 'external-public', 'parameter',
                      'parameter-external', 'unparsed', 'late-decl', 'dtd-system', 'dtd-public', 'big-prolog', 'bom-internal',
                      'utf16-internal'}


class RawNoSeek(io.RawIOBase):
    def __init__(self, data):
        self._b = io.BytesIO(data)

    def readable(self):
        return True

    def seekable(self):
        return False

    def readinto(self, buf):
        d = self._b.read(len(buf))
        buf[:len(d)] = d
        return len(d)


class BufNoSeek(io.BufferedIOBase):
    def __init__(self, data):
        self._b = io.BytesIO(data)

    def readable(self):
        return True

    def seekable(self):
        return False

    def read(self, n=-1):
        return self._b.read(n)

    def read1(self, n=-1):
        return self._b.read(n)


class BufNoSeekShort(BufNoSeek):
    """a socket-like source: read(n) returns what is available, at most 64 bytes"""
    def read(self, n=-1):
        return self._b.read(64 if n is None or n < 0 or n > 64 else n)

    def read1(self, n=-1):
        return self.read(n)


class RawNoSeekShort(RawNoSeek):
    def readinto(self, buf):
        d = self._b.read(min(len(buf), 64))
        buf[:len(d)] = d
        return len(d)


def make_source(kind, data, path):
    if kind in ('text', 'StringIO') and data.startswith(b'\xef\xbb\xbf'):
        return None     # a byte order mark is not part of decoded text
    if kind == 'text':
        try:
            return data.decode('utf-8')
        except UnicodeDecodeError:
            return None
    if kind == 'bytes':
        return data
    if kind == 'StringIO':
        try:
            return io.StringIO(data.decode('utf-8'))
        except UnicodeDecodeError:
            return None
    if kind == 'BytesIO':
        return io.BytesIO(data)
    if kind == 'raw-noseek':
        return RawNoSeek(data)
    if kind == 'buffered-noseek':
        return BufNoSeek(data)
    if kind == 'raw-noseek-short':
        return RawNoSeekShort(data)
    if kind == 'buffered-noseek-short':
        return BufNoSeekShort(data)
    with open(path, 'wb') as f:
        f.write(data)
    if kind == 'file':
        return open(path, 'rb')
    if kind == 'path':
        return path
    if kind == 'file-url':
        return 'file://' + path
    raise KeyError(kind)


def log_callbacks(data):
    """expat callbacks of the prolog and content, in order (parameter entity parsing as xml.sax.expatreader)"""
    from xml.parsers import expat
    seq = []
    p = expat.ParserCreate()
    p.SetParamEntityParsing(expat.XML_PARAM_ENTITY_PARSING_UNLESS_STANDALONE)
    p.XmlDeclHandler = lambda *a: seq.append('XmlDecl')
    p.StartDoctypeDeclHandler = lambda n, s, pub, has: seq.append('DoctypeStart %s' % ('true' if (s or pub) else 'false'))
    p.EntityDeclHandler = lambda name, is_pe, *a: seq.append('EntityDecl %s' % ('true' if is_pe else 'false')) \
        if a[3 - 1] is None or True else None
    p.UnparsedEntityDeclHandler = lambda *a: seq.append('UnparsedDecl')

    def ext(*a):
        seq.append('ExtRef')
        return 1
    p.ExternalEntityRefHandler = ext
    p.CommentHandler = lambda *a: seq.append('Comment')
    p.ProcessingInstructionHandler = lambda *a: seq.append('PI')
    p.StartElementHandler = lambda *a: seq.append('Start')
    p.EndElementHandler = lambda *a: seq.append('End')
    p.CharacterDataHandler = lambda *a: seq.append('Text') if not seq or seq[-1] != 'Text' else None
    try:
        p.Parse(data, True)
    except expat.ExpatError:
        seq.append('ERROR')
    return seq


def subject(case):
    import xmlschema
    d = tmpdir()
    secret = os.path.join(d, 'secret.txt')
    if not os.path.exists(secret):
        with open(secret, 'w') as f:
            f.write(SECRET_MARK)
    data = payloads(secret)[case['payload']]
    path = os.path.join(d, 'doc_%d.xml' % (abs(hash((case['payload'], case['kind'], case['role']))) % 10 ** 8))
    out = {}
    base_url = {'none': None, 'local': d, 'remote': 'http://127.0.0.1:9/base/'}[case['locality']]
    src = make_source(case['kind'], data, path)
    if src is None:
        return {'skip': 'payload not representable as text'}
    record_on()
    try:
        try:
            if case['role'] == 'reopened-instance':
                # a lazy resource re-opens its source for every iteration: the file is harmless at construction time and
                # carries the payload when it is iterated; every opening has to be checked
                with open(path, 'wb') as f:
                    f.write(b'<root><a>clean</a></root>')
                r = xmlschema.XMLResource(src, base_url=base_url, defuse=case['mode'], lazy=True)
                with open(path, 'wb') as f:
                    f.write(data)
                texts = []
                for e in r.iter():
                    texts += [e.text or ''] + list(e.attrib.values())
                out['result'] = 'parsed'
                out['expanded'] = any(SECRET_MARK in t for t in texts)
            elif case['role'] == 'instance':
                r = xmlschema.XMLResource(src, base_url=base_url, defuse=case['mode'])
                texts = [e.text or '' for e in r.root.iter()] + [v for e in r.root.iter() for v in e.attrib.values()]
                out['result'] = 'parsed'
                out['tree'] = [(e.tag, (e.text or '').strip()) for e in r.root.iter()]
                out['expanded'] = any(SECRET_MARK in t for t in texts)
            else:
                # the document under test is a (broken) schema document: main schema or included by a clean main schema
                if case['role'] == 'main-schema':
                    xmlschema.XMLSchema(src, base_url=base_url, defuse=case['mode'], validation='lax')
                else:
                    with open(path, 'wb') as f:
                        f.write(data)
                    main = ('<xs:schema xmlns:xs="http://www.w3.org/2001/XMLSchema"><xs:include schemaLocation="%s"/>'
                            '<xs:element name="x" type="xs:string"/></xs:schema>' % path)
                    xmlschema.XMLSchema(main, base_url=base_url, defuse=case['mode'], validation='lax')
                out['result'] = 'parsed'
        except Exception as e:  # noqa
            out['result'] = common.exc_class(e)
            out['msg'] = str(e)[:100]
    finally:
        _ON[0] = False
        if hasattr(src, 'close'):
            try:
                src.close()
            except Exception:  # noqa
                pass
        if os.path.exists(path):
            os.unlink(path)
    out['secret_opened'] = any('secret.txt' in e for e in _EVENTS)
    out['callbacks'] = log_callbacks(data)[:40]
    return out


def locality_coq(case):
    """is_defused looks at base_url; for a path / URL source without base_url the resource derives it from the source"""
    if case['role'] == 'included-schema' or case['kind'] in ('path', 'file-url'):
        return 'LocalBase'      # a document opened from a local path / URL has that location as its base
    if case['locality'] == 'remote':
        return 'RemoteBase'
    if case['locality'] == 'local' or case['kind'] in ('path', 'file-url'):
        return 'LocalBase'
    return 'NoBase'


def model_term(case, o):
    cbs = '[%s]' % '; '.join(c for c in o['callbacks'] if c != 'ERROR')
    mode = {'never': 'DNever', 'remote': 'DRemote', 'nonlocal': 'DNonlocal', 'always': 'DAlways'}[case['mode']]
    return ('(is_defused %s %s, match prescan %s with Forbidden => true | Clean => false end)'
            % (mode, locality_coq(case), cbs))


def evaluate(ctx, cases):
    impl = common.pool_map(subject, cases, procs=min(common.NPROC, 8))
    idx = [i for i, o in enumerate(impl) if 'callbacks' in o]
    model = dict(zip(idx, common.coq_eval('C13', IMPORTS, '', [model_term(cases[i], impl[i]) for i in idx], shard=300)))
    baseline = {}
    for c, o in zip(cases, impl):
        if c['mode'] == 'never' and o.get('result') == 'parsed' and 'tree' in o:
            baseline[(c['payload'], c['role'])] = o['tree']
    for i, (c, o) in enumerate(zip(cases, impl)):
        rep = {'kind': 'defuse', 'case': c, 'impl': o}
        if 'harness_exception' in o:
            ctx.violation('subject failed: %s' % o['harness_exception'], rep, no_input=True)
            continue
        if 'skip' in o:
            continue
        defused, forbidden_model = model[i]
        has_decl = c['payload'] in FORBIDDEN_PAYLOADS
        ctx.count((c['mode'], c['kind'], c['locality'], c['payload'], c['role']),
                  nontrivial=has_decl and c['mode'] != 'never')
        ctx.dist('cell', '%s/%s/%s' % (c['mode'], 'defused' if defused else 'not-defused', 'decl' if has_decl else 'clean'))
        problems, aux = [], []
        if forbidden_model != has_decl:
            aux.append('prescan model says %s on the recorded callbacks %s' % (forbidden_model, o['callbacks'][:8]))
        if defused and has_decl:
            if o['result'] != 'resource-forbidden':
                problems.append('defuse=%r applies but the %s document with payload %r (%s source) was not refused: %s'
                                % (c['mode'], c['role'], c['payload'], c['kind'], o['result']))
        if o.get('expanded') and defused:
            problems.append('entity text was expanded although defusing applies (%s, %s)' % (c['payload'], c['kind']))
        if o['secret_opened']:
            problems.append('the external identifier was opened (%s, %s, defuse=%s)' % (c['payload'], c['kind'], c['mode']))
        if not has_decl:
            if o['result'] == 'other-library:XMLResourceOSError' and c['role'] == 'instance' \
                    and c['payload'] in ('big-prolog-clean', 'big-prolog-body') \
                    and c['kind'] in ('raw-noseek', 'buffered-noseek', 'raw-noseek-short', 'buffered-noseek-short') and defused:
                ctx.known_finding('F-C13a')
            elif o['result'] != 'parsed' and c['role'] == 'instance':
                problems.append('clean document (%s) from a %s source is not parsed with defuse=%r: %s %s'
                                % (c['payload'], c['kind'], c['mode'], o['result'], o.get('msg', '')))
            elif c['role'] == 'instance' and baseline.get((c['payload'], c['role'])) not in (None, o.get('tree')):
                problems.append('clean document parses to a different tree with defuse=%r' % c['mode'])
        if not defused and has_decl and o['result'] == 'resource-forbidden':
            aux.append('refused although is_defused(%s, %s) is false in the model' % (c['mode'], locality_coq(c)))
        if problems or aux:
            ctx.violation('; '.join(problems or aux), dict(rep, theorem='C13_wellformed_refused / C13_is_defused_table'),
                          no_input=not problems)
        ctx.sample({'mode': c['mode'], 'kind': c['kind'], 'locality': c['locality'], 'payload': c['payload'],
                    'role': c['role'], 'result': o['result'], 'callbacks': o['callbacks'][:8]}, cap=6)


# ------------------------------------------------------------------ replay buffer (Reader.v)
R_IMPORTS = 'From XV Require Import Base Reader.'
R_DEFS = '''Definition rcase (want n scanned : N) (sched : list nat) :=
  let data := repeat 0%N (N.to_nat n) in
  let r := mk_reader (N.to_nat want) sched data in
  (length (buf r), length (rest r),
   match scan_then_parse r (N.to_nat scanned) with Some d => (true, length d) | None => (false, 0) end).
'''


def subject_reader(case):
    from xmlschema.utils.streams import DefusableReader
    data = bytes((i * 7 + 3) % 251 for i in range(case['n']))
    sched = list(case['sched'])

    class Short(io.BufferedIOBase):
        def __init__(self):
            self._b = io.BytesIO(data)
            self.calls = 0

        def readable(self):
            return True

        def seekable(self):
            return False

        def read(self, n=-1):
            k = sched[self.calls] + 1 if self.calls < len(sched) else None
            self.calls += 1
            if n is None or n < 0:
                return self._b.read() if k is None else self._b.read(k)
            return self._b.read(n if k is None else min(n, k))

        def read1(self, n=-1):
            return self.read(n)
    r = DefusableReader(Short(), initial_buffer_size=case['want'])
    out = {'buffer_is_prefix': bytes(r.getbuffer()) == data[:len(r.getbuffer())], 'buffer_len': len(r.getbuffer())}
    got = b''
    while len(got) < case['scanned']:
        chunk = r.read(case['scanned'] - len(got))
        if not chunk:
            break
        got += chunk
    out['scan_ok'] = got == data[:case['scanned']]
    # the rewind as defuse_xml() does it: seek(0), refused when it raises OSError
    try:
        r.seek(0)
        out['seekable'] = True
    except OSError:
        out['seekable'] = False
    if out['seekable']:
        again = b''
        while True:
            chunk = r.read(4096)
            if not chunk:
                break
            again += chunk
        out['parse_same'] = again == data
        out['parse_len'] = len(again)
    return out


def check_reader(ctx):
    """DefusableReader over a non-seekable stream with arbitrary short reads vs Reader.v"""
    rng = ctx.rng
    cases = []
    for _ in range(150 if ctx.quick() else 2000):
        want = rng.choice([8192, 8192, 10000])
        n = rng.choice([0, rng.randint(1, 200), rng.randint(want - 50, want + 50), rng.randint(want, 3 * want)])
        sched = [rng.choice([0, 1, 63, rng.randint(0, 300), rng.randint(0, 9000)]) for _ in range(rng.randint(0, 40))]
        scanned = rng.choice([0, rng.randint(0, max(0, n)), min(n, want), want + 1, rng.randint(0, 3 * want)])
        cases.append({'want': want, 'n': n, 'sched': sched, 'scanned': scanned})
    impl = common.pool_map(subject_reader, cases, procs=8)
    terms = ['rcase %d %d %d %s' % (c['want'], c['n'], c['scanned'], common.coq_list([str(k) for k in c['sched']])) for c in cases]
    model = common.coq_eval('C13r', R_IMPORTS, R_DEFS, terms, shard=50)
    for c, o, m in zip(cases, impl, model):
        rep = {'kind': 'reader', 'case': c, 'impl': o}
        ctx.count(('reader', c['want'], c['n'], c['scanned'], tuple(c['sched'])), nontrivial=bool(c['sched']) and c['n'] > 64)
        if 'harness_exception' in o:
            ctx.violation('DefusableReader run failed: %s' % o['harness_exception'], rep, no_input=True)
            continue
        blen, rlen, (ok, plen) = m
        ctx.dist('replay buffer', 'rewind %s / first read %s' % ('possible' if ok else 'refused', 'short' if c['sched'] and c['sched'][0] + 1 < min(c['want'], c['n']) else 'full'))
        bad = None
        if not o['buffer_is_prefix'] or not o['scan_ok']:
            bad = 'the reader returns bytes that differ from the stream'
        elif o['buffer_len'] != blen:
            bad = 'the replay buffer holds %d bytes, the model %d (C13_buffer_filled_for_every_read_schedule)' % (o['buffer_len'], blen)
        elif o['seekable'] != ok:
            bad = 'after a scan of %d bytes the reader %s be rewound, in the model it %s' % (c['scanned'], 'can' if o['seekable'] else 'cannot', 'can' if ok else 'cannot')
        elif o['seekable'] and (not o['parse_same'] or o['parse_len'] != plen):
            bad = 'the pass after the rewind reads %d bytes (same as the stream: %s), the model %d' % (o['parse_len'], o['parse_same'], plen)
        if bad:
            ctx.violation('%s [initial buffer %d, stream of %d bytes, read schedule %s...]' % (bad, c['want'], c['n'], c['sched'][:6]),
                          dict(rep, theorem='C13_scan_then_parse_same_bytes'), no_input=False)


def gen(ctx):
    modes = ['never', 'remote', 'nonlocal', 'always']
    kinds = ['text', 'bytes', 'StringIO', 'BytesIO', 'file', 'raw-noseek', 'buffered-noseek', 'raw-noseek-short', 'buffered-noseek-short',
             'path', 'file-url']
    locs = ['none', 'local', 'remote']
    pls = list(payloads('/nonexistent'))
    cases = []
    for m in modes:
        for k in kinds:
            for l in locs:
                for p in pls:
                    for role in ('instance', 'main-schema', 'included-schema'):
                        if role != 'instance' and (k not in ('text', 'path', 'bytes') or p in ('utf16-clean', 'big-prolog-clean', 'big-prolog-body')):
                            continue
                        cases.append({'mode': m, 'kind': k, 'locality': l, 'payload': p, 'role': role})
    for m in modes:
        for k in ('path', 'file-url'):
            for l in locs:
                for p in pls:
                    if p not in ('utf16-clean', 'big-prolog-clean', 'big-prolog', 'big-prolog-body'):
                        cases.append({'mode': m, 'kind': k, 'locality': l, 'payload': p, 'role': 'reopened-instance'})
    if ctx.quick():
        cases = [c for c in cases if c['role'] == 'instance' or c['payload'] in ('internal', 'dtd-system', 'clean', 'parameter')]
    return cases


def cleanup():
    import shutil
    tmp = os.path.join(str(common.BUILD), 'tmp')
    if os.path.isdir(tmp):
        for d in os.listdir(tmp):
            if d.startswith('c13_'):
                shutil.rmtree(os.path.join(tmp, d), ignore_errors=True)


def run(ctx):
    cleanup()
    try:
        cases = gen(ctx)
        ctx.exhaustive = True
        ctx.rule = ('defuse mode (4) x source kind (11) x base_url locality (3) x payload (21) x role (instance; main and '
                    'included schema for text/bytes/path sources%s); non-trivial = a document with an entity declaration or '
                    'external DTD subset under a mode other than never; replay buffer: DefusableReader over non-seekable streams with seeded '
                    'short-read schedules compared with Reader.v (buffer length, rewind decision, bytes of the second pass)'
                    % (', 4 payloads in the quick tier' if ctx.quick() else ''))
        evaluate(ctx, cases)
        check_reader(ctx)
    finally:
        cleanup()
    ctx.assumptions = ['expat callback order is recorded with a logging parser configured like xml.sax.expatreader, not verified',
                       'entity uses are not visible as callbacks; expansion is observed as payload text in parsed nodes',
                       'remote base_url is http://127.0.0.1:9 (never contacted for non-URL sources)']


def replay(ctx, case):
    cleanup()
    try:
        if case.get('kind') == 'reader':
            check_reader(ctx)
            return
        evaluate(ctx, [case['case']] + [dict(case['case'], mode='never')])
    finally:
        cleanup()

"""C05 - decoded data re-encodes to a valid, equivalent document; strict encode is sound.

Seeded abstract schemas (nested complex types, sequence / repeated choice, attributes, simple content with
attributes, mixed content, list and union simple types, qualified / unqualified local elements, prefixed / default
namespace instances) x generated valid instances x converter classes (default, JsonML, BadgerFish, GData, data
elements, unordered) x options.
* round trip: decode -> encode gives XML the schema accepts, with the tags, attribute names and typed values of the
  original (compared through an independent walk of the trees and through the JsonML decoding of both) and that
  decodes to the same data again; the dictionary conventions are judged on instances whose same-named children are
  contiguous (decided by the Coq predicate `contiguous`), JsonML and data elements on all instances;
* model: the JsonML array predicted by `jml_decode` for the abstract tree equals the implementation's output, and the
  key order / list lengths of the default convention equal `group` of the child sequence;
* soundness: decoded data mutated (drop / duplicate / retype / reorder / rename entries) and encoded in strict mode
  either raises a library error or returns XML that the schema accepts."""
import copy
import json
import re

import common
from common import coq_list, coq_N

IMPORTS = 'From XV Require Import Base Converters.'
DEFS = ''
TNS = 'urn:c05'
BASES = {
    'int': ('xs:int', ['0', '7', '-3', '42']),
    'decimal': ('xs:decimal', ['1.5', '2.50', '-0.1', '3']),
    'boolean': ('xs:boolean', ['true', 'false', '1', '0']),
    'date': ('xs:date', ['2020-02-29', '1999-12-31Z']),
    'string': ('xs:string', ['abc', 'hello world', 'x']),
    'token': ('xs:NMTOKEN', ['tok-1', 'B2']),
    'ilist': ('t:ilist', ['1 2 3', '4', '10 20']),
    'dlist': ('t:dlist', ['1.5 2.5 3', '0.5']),
    'u': ('t:u', ['5', '2020-01-01', 'true']),
    'small': ('t:small', ['1', '50', '99']),
    'pu': ('t:pu', ['5', '42', '2020-01-01', 'true']),
    # the union restricted twice, a pattern at each step: both apply on encode
    'pu2': ('t:pu2', ['5', '42', 'true']),
    # pattern facets on non-string bases: the canonical form of the typed value must match on encode
    'pint': ('t:pint', ['123', '456', '900']),
    'pdec': ('t:pdec', ['1.50', '12.25', '0.75']),
}
GLOBAL_TYPES = r'''<xs:simpleType name="ilist"><xs:list itemType="xs:int"/></xs:simpleType>
<xs:simpleType name="dlist"><xs:list itemType="xs:decimal"/></xs:simpleType>
<xs:simpleType name="u"><xs:union memberTypes="xs:int xs:date xs:boolean"/></xs:simpleType>
<xs:simpleType name="iu"><xs:union memberTypes="xs:int xs:date"/></xs:simpleType>
<xs:simpleType name="riu"><xs:restriction base="t:iu"><xs:pattern value="[0-9]{1,2}|[0-9]{4}-[0-9]{2}-[0-9]{2}"/></xs:restriction></xs:simpleType>
<xs:simpleType name="ou"><xs:union memberTypes="t:riu xs:boolean"/></xs:simpleType>
<xs:simpleType name="pu"><xs:restriction base="t:ou"><xs:pattern value="[0-9]+|[0-9-]+|true|false"/></xs:restriction></xs:simpleType>
<xs:simpleType name="pu2"><xs:restriction base="t:pu"><xs:pattern value=".{1,4}"/></xs:restriction></xs:simpleType>
<xs:simpleType name="pint"><xs:restriction base="xs:int"><xs:pattern value="[0-9]{3}"/></xs:restriction></xs:simpleType>
<xs:simpleType name="pdec"><xs:restriction base="xs:decimal"><xs:pattern value="[0-9]+\.[0-9]{2}"/></xs:restriction></xs:simpleType>
<xs:simpleType name="small"><xs:restriction base="xs:integer"><xs:minInclusive value="0"/><xs:maxInclusive value="99"/></xs:restriction></xs:simpleType>'''


# ------------------------------------------------------------------ abstract schemas
def gen_type(rng, depth, counter):
    r = rng.random()
    if depth >= 3 or r < 0.35:
        base = rng.choice(list(BASES))
        return {'k': 'simple', 'base': base, 'fixed': rng.choice(BASES[base][1]) if rng.random() < 0.12 else None}
    if r < 0.5:
        base = rng.choice(['ilist', 'dlist']) if rng.random() < 0.4 else rng.choice(list(BASES))
        return {'k': 'sc', 'base': base, 'attrs': gen_attrs(rng, counter, at_least=rng.choice([0, 1])),
                # a fixed value on an element whose type is a complex type with simple content
                'fixed': rng.choice(BASES[base][1]) if base in BASES and rng.random() < 0.25 else None}
    parts = []
    for _ in range(rng.randint(1, 4) if rng.random() < 0.9 else 0):      # (0: an empty content, attributes only)
        counter[0] += 1
        mn, mx = rng.choice([(1, 1), (1, 1), (0, 1), (0, 3), (1, 3), (2, 2)])
        parts.append({'name': 'e%d' % counter[0], 'type': gen_type(rng, depth + 1, counter), 'min': mn, 'max': mx})
    return {'k': 'cx', 'comp': rng.choice(['sequence', 'sequence', 'sequence', 'choice']), 'parts': parts,
            'attrs': gen_attrs(rng, counter, at_least=0), 'mixed': rng.random() < 0.15}


def gen_attrs(rng, counter, at_least):
    out = []
    for _ in range(rng.randint(at_least, 2)):
        counter[0] += 1
        base = rng.choice(['int', 'string', 'boolean', 'token', 'ilist', 'small', 'decimal'])
        out.append({'name': 'a%d' % counter[0], 'base': base, 'use': rng.choice(['required', 'optional', 'optional']),
                    'fixed': rng.choice(BASES[base][1]) if rng.random() < 0.15 else None})
    return out


def gen_schema(rng):
    counter = [0]
    t = gen_type(rng, 0, counter)
    while t['k'] != 'cx':
        t = gen_type(rng, 0, counter)
    return {'root': {'name': 'root', 'type': t, 'min': 1, 'max': 1}, 'qualified': rng.random() < 0.7}


def render_type(t):
    attrs = ''.join('<xs:attribute name="%s" type="%s"%s%s/>' % (a['name'], BASES[a['base']][0], ' use="required"' if a['use'] == 'required' else '',
                                                                  ' fixed="%s"' % a['fixed'] if a.get('fixed') else '')
                    for a in t.get('attrs', []))
    if t['k'] == 'sc':
        return '<xs:complexType><xs:simpleContent><xs:extension base="%s">%s</xs:extension></xs:simpleContent></xs:complexType>' % (BASES[t['base']][0], attrs)
    body = ''.join(render_decl(p) for p in t['parts'])
    occ = ' minOccurs="0" maxOccurs="unbounded"' if t['comp'] == 'choice' else ''
    return '<xs:complexType%s><xs:%s%s>%s</xs:%s>%s</xs:complexType>' % (' mixed="true"' if t['mixed'] else '', t['comp'], occ, body, t['comp'], attrs)


def render_decl(d, top=False):
    occ = '' if top else ' minOccurs="%d" maxOccurs="%d"' % (d['min'], d['max'])
    if d['type']['k'] == 'simple':
        fx = ' fixed="%s"' % d['type']['fixed'] if d['type'].get('fixed') else ''
        return '<xs:element name="%s" type="%s"%s%s/>' % (d['name'], BASES[d['type']['base']][0], occ, fx)
    fx = ' fixed="%s"' % d['type']['fixed'] if d['type']['k'] == 'sc' and d['type'].get('fixed') else ''
    return '<xs:element name="%s"%s%s>%s</xs:element>' % (d['name'], occ, fx, render_type(d['type']))


def render_schema(s):
    return ('<xs:schema xmlns:xs="http://www.w3.org/2001/XMLSchema" targetNamespace="%s" xmlns:t="%s"%s>%s%s</xs:schema>'
            % (TNS, TNS, ' elementFormDefault="qualified"' if s['qualified'] else '', GLOBAL_TYPES, render_decl(s['root'], top=True)))


# ------------------------------------------------------------------ instances
def gen_node(rng, d):
    t = d['type']
    n = {'name': d['name'], 'attrs': {}, 'text': None, 'items': []}
    for a in t.get('attrs', []):
        if a['use'] == 'required' or a.get('fixed') or rng.random() < 0.5:   # (an absent fixed attribute is filled in by decoding)
            n['attrs'][a['name']] = a.get('fixed') or rng.choice(BASES[a['base']][1])
    if t['k'] in ('simple', 'sc'):
        n['text'] = t.get('fixed') or rng.choice(BASES[t['base']][1])
        return n
    seq = []
    if t['comp'] == 'sequence':
        for p in t['parts']:
            for _ in range(rng.randint(p['min'], p['max'])):
                seq.append(gen_node(rng, p))
    else:
        for _ in range(rng.randint(0, 4) if t['parts'] else 0):
            p = rng.choice(t['parts'])
            for _ in range(rng.randint(max(1, p['min']), p['max'])):
                seq.append(gen_node(rng, p))
    for k, c in enumerate(seq):
        if t['mixed'] and rng.random() < 0.5:
            n['items'].append(rng.choice(['some text', 'more', 'T']))
        n['items'].append(c)
    if t['mixed'] and rng.random() < 0.5:
        n['items'].append('tail text')
    return n


def render_node(n, qualified, prefix, top=True):
    """prefix = 't' (prefixed instance) or '' (default namespace for the qualified names)"""
    q = top or qualified
    if prefix:
        tag = ('%s:%s' % (prefix, n['name'])) if q else n['name']
        decl = ' xmlns:%s="%s"' % (prefix, TNS) if top else ''
    else:
        tag = n['name']
        # unqualified local elements under a default namespace need xmlns="" ; only used with qualified schemas
        decl = ' xmlns="%s"' % TNS if top else ''
    attrs = ''.join(' %s="%s"' % kv for kv in n['attrs'].items())
    if n['text'] is not None:
        return '<%s%s%s>%s</%s>' % (tag, decl, attrs, n['text'], tag)
    body = ''.join(x if isinstance(x, str) else render_node(x, qualified, prefix, top=False) for x in n['items'])
    return '<%s%s%s>%s</%s>' % (tag, decl, attrs, body, tag)


def contiguous_py(n):
    """same-named children contiguous at every element (recomputed in Coq for the model)"""
    names = [x['name'] for x in n['items'] if not isinstance(x, str)]
    seen, prev = set(), None
    for x in names:
        if x != prev and x in seen:
            return False
        seen.add(x)
        prev = x
    return all(contiguous_py(x) for x in n['items'] if not isinstance(x, str))


def sequence_models(n, d):
    """the content models the instance goes through keep same-named children contiguous (sequences of distinct names)"""
    t = d['type']
    if t['k'] != 'cx':
        return True
    kids = [x for x in n['items'] if not isinstance(x, str)]
    if t['comp'] != 'sequence' and len(kids) > 1:
        return False
    pmap = {p['name']: p for p in t['parts']}
    return all(sequence_models(x, pmap[x['name']]) for x in kids)


def has_mixed_text(n):
    return any(isinstance(x, str) for x in n['items']) or any(has_mixed_text(x) for x in n['items'] if not isinstance(x, str))


# ------------------------------------------------------------------ implementation runs
def shape(elem):
    """independent walk: local tags, attribute names, number of text chunks"""
    local = elem.tag.split('}')[-1]
    chunks = [x.strip() for x in [elem.text] + [c.tail for c in elem] if x and x.strip()]
    return [local, elem.tag.startswith('{'), sorted(elem.attrib), ''.join(chunks) if len(elem) else None, [shape(c) for c in elem]]


CONVERTERS = {
    'default': ('XMLSchemaConverter', {}),
    'default_root': ('XMLSchemaConverter', {'preserve_root': True}),
    'default_cdata': ('XMLSchemaConverter', {'cdata_prefix': '#'}),
    'default_opts': ('XMLSchemaConverter', {'attr_prefix': '_', 'text_key': '#text', 'cdata_prefix': '#', 'force_list': True}),
    'default_dict': ('XMLSchemaConverter', {'force_dict': True, 'cdata_prefix': '#'}),
    'jsonml': ('JsonMLConverter', {}),
    'badgerfish': ('BadgerFishConverter', {}),
    'gdata': ('GDataConverter', {}),
    'dataelement': ('DataElementConverter', {}),
}
KEEPS_CDATA = {'default_cdata', 'default_opts', 'default_dict', 'jsonml', 'badgerfish', 'gdata', 'dataelement'}
ORDER_FREE = {'jsonml', 'dataelement'}      # keep the child order of any content; the others need contiguous names


# F-C05a: call sites where structurally malformed data (a container where the convention expects a string or a mapping)
# ends in a builtin exception instead of a validation error
FOREIGN_SITES = {'namespaces.py:__init__', 'namespaces.py:get_namespaces', 'namespaces.py:unmap_qname', 'caching.py:__call__',
                 'converters/badgerfish.py:element_encode', 'converters/badgerfish.py:get_xmlns_from_data',
                 'converters/jsonml.py:element_encode', 'validators/validation.py:set_element_content',
                 'validators/groups.py:raw_encode', 'returned element is not serialisable'}
FOREIGN_TYPES = {'TypeError', 'AttributeError', 'KeyError', 'IndexError'}


def canon(d):
    return json.dumps(d, sort_keys=False, default=str)


def subject(case):
    import warnings
    from xml.etree import ElementTree as ET
    import xmlschema
    warnings.simplefilter('ignore')
    cls = xmlschema.XMLSchema11 if case['version'] == '1.1' else xmlschema.XMLSchema10
    try:
        schema = cls(render_schema(case['schema']))
    except Exception as e:  # noqa
        return {'schema_error': common.exc_class(e) + ': ' + str(e)[:200]}
    xml = case['xml']
    out = {'valid': schema.is_valid(xml), 'conv': {}}
    if not out['valid']:
        out['errors'] = [str(e.reason)[:100] for e in schema.iter_errors(xml)][:3]
        return out
    orig = ET.fromstring(xml)
    nsmap = {'t': TNS} if 'xmlns:t=' in xml else {'': TNS}

    def tostring(e):
        return xmlschema.etree_tostring(e, namespaces=nsmap)
    ref_shape = shape(orig)
    simple_names = set(case.get('simple_names', []))

    def typed(x, keep_text):
        j = schema.decode(x, converter=xmlschema.JsonMLConverter, strip_namespaces=True, preserve_mixed=True)

        def strip(a):
            if not isinstance(a, list) or not a or not isinstance(a[0], str) or a[0] in simple_names:
                return a
            return [a[0]] + [strip(i) for i in a[1:] if not isinstance(i, str)]
        return canon(j if keep_text else strip(j))
    ref_typed = {True: typed(xml, True), False: typed(xml, False)}
    out['jsonml'] = schema.decode(xml, converter=xmlschema.JsonMLConverter, decimal_type=str)
    out['default'] = schema.decode(xml, decimal_type=str)
    for cname in case['converters']:
        clsname, opts = CONVERTERS[cname]
        conv = getattr(xmlschema, clsname)
        r = {}
        try:
            if cname == 'dataelement':
                data = schema.to_objects(xml, preserve_mixed=True)
                elem = data.encode(validation='strict', indent=0, preserve_mixed=True)
                r['data'] = None
            else:
                data = schema.decode(xml, converter=conv, preserve_mixed=True, **opts)
                r['data'] = canon(data)
                elem = schema.encode(data, converter=conv, indent=0, preserve_mixed=True, **opts)
            text = tostring(elem)
            r['xml'] = text
            r['revalid'] = schema.is_valid(text)
            r['shape_equal'] = shape(ET.fromstring(text)) == ref_shape
            if r['revalid']:
                r['typed_equal'] = typed(text, cname in ORDER_FREE) == ref_typed[cname in ORDER_FREE]
                if cname != 'dataelement':
                    r['redecode_equal'] = canon(schema.decode(text, converter=conv, preserve_mixed=True, **opts)) == r['data']
            # soundness stream: mutated data, strict encode
            r['mut'] = []
            if cname != 'dataelement':
                import random
                rng = random.Random(case['seed'] * 31 + len(cname))
                for k in range(case.get('mutations', 4)):
                    m = mutate(rng, copy.deepcopy(data))
                    mr = {'data': canon(m)[:600]}
                    try:
                        e2 = schema.encode(m, converter=conv, indent=0, **opts)
                        try:
                            t2 = tostring(e2) if e2 is not None else None
                        except TypeError as e:
                            # the returned element carries a non-string text / tail (character data of the wrong type)
                            mr['foreign'] = 'TypeError: %s' % str(e)[:100]
                            mr['site'] = 'returned element is not serialisable'
                            r['mut'].append(mr)
                            continue
                        mr['xml'] = t2
                        mr['accepted'] = t2 is not None and schema.is_valid(t2)
                        if not mr['accepted'] and t2 is not None:
                            mr['errors'] = [str(e.reason)[:120] for e in schema.iter_errors(t2)][:2]
                    except xmlschema.XMLSchemaException as e:
                        mr['raised'] = type(e).__name__
                    except Exception as e:  # noqa
                        mr['foreign'] = '%s: %s' % (type(e).__name__, str(e)[:120])
                        mr['site'] = site_of(e)
                    r['mut'].append(mr)
        except xmlschema.XMLSchemaValidationError as e:
            r['exc'] = 'validation: %s %s' % (str(e.reason)[:150], e.path)
        except Exception as e:  # noqa
            r['exc'] = '%s: %s' % (common.exc_class(e), str(e)[:150])
        out['conv'][cname] = r
    return out


def site_of(e):
    """innermost frame of the library in the traceback: file:function"""
    import traceback
    site = None
    for fr in traceback.extract_tb(e.__traceback__):
        if '/xmlschema/' in fr.filename:
            site = '%s:%s' % (fr.filename.split('/xmlschema/')[-1], fr.name)
    return site


def mutate(rng, data):
    """drop / duplicate / retype / reorder / rename one entry of decoded data (dict or JsonML list based)"""
    spots = []

    def walk(x, path):
        if isinstance(x, dict):
            for k in list(x):
                spots.append((x, k))
                walk(x[k], path + [k])
        elif isinstance(x, list):
            for i in range(len(x)):
                spots.append((x, i))
                walk(x[i], path + [i])
    walk(data, [])
    if not spots:
        return data
    cont, key = rng.choice(spots)
    op = rng.choice(['drop', 'dup', 'retype', 'reorder', 'rename', 'wrap', 'addtext'])
    try:
        if op == 'drop':
            del cont[key]
        elif op == 'dup':
            if isinstance(cont, list):
                cont.insert(key, copy.deepcopy(cont[key]))
            else:
                v = cont[key]
                cont[key] = [copy.deepcopy(v), copy.deepcopy(v)]
        elif op == 'retype':
            cont[key] = rng.choice(['zz', 123456789012, -1.5, None, True, [], {}, [1, 'a'], '2020-13-01', ' ', 123, '123', 1234, 100, '2020-1-1', 12345, '2020-01-01', 12345, False])
        elif op == 'reorder':
            if isinstance(cont, list):
                rng.shuffle(cont)
            else:
                items = list(cont.items())
                rng.shuffle(items)
                cont.clear()
                cont.update(items)
        elif op == 'rename':
            if isinstance(cont, dict):
                cont[rng.choice(['bogus', '@bogus', 't:nope', '$', '#1'])] = cont.pop(key)
            else:
                cont[key] = 'bogus'
        elif op == 'addtext':        # character data where the type may not allow it
            tk = rng.choice(['$', '$', '#text', '$t', '#1'])
            v = cont[key]
            if isinstance(v, dict):
                v[tk] = 'txt'
            elif isinstance(v, list):
                v.append('txt')
            elif v is None or isinstance(cont, dict):
                cont[key] = {tk: 'txt'}
        else:
            cont[key] = [cont[key]]
    except Exception:  # noqa
        pass
    return data


# ------------------------------------------------------------------ model terms
class Intern:
    def __init__(self):
        self.t = {}

    def __call__(self, x):
        return self.t.setdefault(x, len(self.t) + 1)


def coq_xml(n, it, typed_text):
    attrs = coq_list(['(%s, %s)' % (coq_N(it('@' + k)), coq_N(it('v:' + str(v)))) for k, v in sorted(n['attrs'].items())])
    if n['text'] is not None:
        return 'Simple %s %s (Some %s)' % (coq_N(it(n['name'])), attrs, coq_N(it('v:' + n['text'])))
    kids = [('Txt %s' % coq_N(it('v:' + x))) if isinstance(x, str) else '(%s)' % coq_xml(x, it, typed_text) for x in n['items']]
    return 'Complex %s %s %s' % (coq_N(it(n['name'])), attrs, coq_list(kids))


def jv_of_impl(j, it, names):
    """the implementation's JsonML output as a model jv (values interned by their lexical form through `lex`)"""
    if isinstance(j, list) and j and isinstance(j[0], str) and j[0].split(':')[-1] in names:
        out = [('JStr', it(j[0].split(':')[-1]))]
        rest = j[1:]
        if rest and isinstance(rest[0], dict):
            attrs = [(it('@' + k), it('v:' + lex(v))) for k, v in sorted(rest[0].items()) if not k.startswith('xmlns')]
            if attrs:
                out.append(('JObj', attrs))
            rest = rest[1:]
        for x in rest:
            out.append(jv_of_impl(x, it, names))
        return ('JArr', out)
    return ('JStr', it('v:' + lex(j)))


def lex(v):
    if isinstance(v, bool):
        return 'true' if v else 'false'
    if isinstance(v, list):
        return ' '.join(lex(x) for x in v)
    return str(v)


def norm_lex(base, text):
    """typed normal form of a generated lexical value, as the decoders print it (str of the Python value)"""
    if base in ('int', 'small', 'pint'):
        return str(int(text))
    if base == 'boolean':
        return 'true' if text in ('true', '1') else 'false'
    if base in ('ilist',):
        return ' '.join(str(int(x)) for x in text.split())
    if base == 'pu':
        if re.fullmatch(r'-?\d+', text):
            return str(int(text))
        return text
    if base == 'u':
        if re.fullmatch(r'-?\d+', text):
            return str(int(text))
        return text
    return text


def model_jv(n, it, decl):
    """what jml_decode predicts, computed on the Python side only for the interning of typed values: the Coq term is
    built from the abstract tree with values replaced by their typed normal forms"""
    t = decl['type']
    m = {'name': n['name'], 'attrs': {}, 'text': None, 'items': []}
    amap = {a['name']: a['base'] for a in t.get('attrs', [])}
    for k, v in n['attrs'].items():
        m['attrs'][k] = norm_lex(amap[k], v)
    if n['text'] is not None:
        m['text'] = norm_lex(t['base'], n['text'])
        return m
    pmap = {p['name']: p for p in t['parts']}
    for x in n['items']:
        m['items'].append(x if isinstance(x, str) else model_jv(x, it, pmap[x['name']]))
    return m


def jv_to_py(v):
    """parsed Coq jv value -> comparable python structure"""
    if isinstance(v, tuple) and v[0] == 'JStr':
        return ('JStr', v[1])
    if isinstance(v, tuple) and v[0] == 'JObj':
        return ('JObj', [tuple(x) for x in v[1]])
    if isinstance(v, tuple) and v[0] == 'JArr':
        return ('JArr', [jv_to_py(x) for x in v[1]])
    raise ValueError(v)


def child_seq(n, it):
    return [(it(x['name']), k) for k, x in enumerate(y for y in n['items'] if not isinstance(y, str))]


def all_nodes(n):
    yield n
    for x in n['items']:
        if not isinstance(x, str):
            yield from all_nodes(x)


def names_of(d, out):
    out.add(d['name'])
    if d['type']['k'] == 'cx':
        for p in d['type']['parts']:
            names_of(p, out)
    return out


def evaluate(ctx, cases):
    impl = common.pool_map(subject, cases)
    terms, aux = [], []
    for c in cases:
        it = Intern()
        typed = model_jv(c['tree'], it, c['schema']['root'])
        seqs = [child_seq(n, it) for n in all_nodes(c['tree'])]
        rt = c['schema']['root']['type']
        singles = [it(p['name']) for p in rt['parts'] if rt['comp'] == 'sequence' and p['max'] == 1]
        terms.append('(jml_decode (%s), map (fun l => (contiguous nat l, map (fun kv => (fst kv, length (snd kv))) (group nat l))) %s, '
                     'map (fun ki => (fst ki, match snd ki with One _ => 0%%nat | Many vs => length vs end)) '
                     '(decode_children nat (fun k => memb k %s) false %s))'
                     % (coq_xml(typed, it, True), coq_list([coq_list(['(%s, %d%%nat)' % (coq_N(k), i) for k, i in s]) for s in seqs]),
                        coq_list([coq_N(k) for k in singles]),
                        coq_list(['(%s, %d%%nat)' % (coq_N(k), i) for k, i in seqs[0]])))
        aux.append(it)
    model = common.coq_eval('C05', IMPORTS, DEFS, terms, shard=25)
    for c, o, m, it in zip(cases, impl, model, aux):
        rep = {'kind': 'roundtrip', 'case': c}
        if 'harness_exception' in o or 'schema_error' in o:
            ctx.violation('generated schema / subject failed: %s' % (o.get('harness_exception') or o['schema_error']), rep, no_input=True)
            continue
        if not o['valid']:
            ctx.violation('generated instance is not valid (generator or validator defect): %s for %s' % (o['errors'], c['xml'][:300]), rep, no_input=True)
            continue
        mjv, groups, rootshape = m
        contiguous = all(g[0] for g in groups) and sequence_models(c['tree'], c['schema']['root'])
        mixed_text = has_mixed_text(c['tree'])
        ctx.dist('instance', 'sequence models, contiguous names' if contiguous else 'repeated choice / non-contiguous names')
        ctx.dist('mixed text', mixed_text)
        # (a) JsonML shape predicted by the model
        names = names_of(c['schema']['root'], set())
        got = jv_of_impl(o['jsonml'], it, names)
        if jv_to_py(mjv) != got:
            ctx.violation('JsonML decoding differs from jml_decode of the abstract tree for %s: implementation %s' % (c['xml'][:200], str(o['jsonml'])[:300]),
                          dict(rep, theorem='C05_jsonml_roundtrip', model=str(mjv)[:800], impl=str(got)[:800]), no_input=False)
        # (b) grouping: key order and list lengths of the default convention at the root
        root_group = groups[0][1]
        dd = o['default']
        if isinstance(dd, dict) and not mixed_text:
            keys = [(k.split(':')[-1], len(v) if isinstance(v, list) and not is_simple_list(c, k.split(':')[-1]) else 1)
                    for k, v in dd.items() if not k.startswith('@') and k != '$']
            want = [(name_of(it, k), n) for k, n in root_group]
            if [k for k, _ in keys] != [k for k, _ in want]:
                ctx.violation('key order of the default convention %s differs from group %s for %s' % (keys, want, c['xml'][:200]),
                              dict(rep, theorem='C05_group_roundtrip_iff'))
            # single value vs list per child, as decode_children predicts (list-typed values are lists anyway: skipped)
            got_shape = [(k.split(':')[-1], len(v) if isinstance(v, list) else 0) for k, v in dd.items()
                         if not k.startswith('@') and k != '$' and not list_typed(c, k.split(':')[-1])]
            want_shape = [(name_of(it, k), n) for k, n in rootshape if not list_typed(c, name_of(it, k))]
            if got_shape != want_shape:
                ctx.violation('default convention stores the children as %s, decode_children predicts %s for %s'
                              % (got_shape, want_shape, c['xml'][:200]), dict(rep, theorem='C05_children_roundtrip'), no_input=True)
        for cname, r in o['conv'].items():
            lossless_here = (cname in ORDER_FREE or contiguous) and (cname in KEEPS_CDATA or not mixed_text)
            ctx.count(('rt', c['seed'], c['version'], cname), nontrivial=lossless_here)
            ctx.dist('converter', cname)
            key = '%s %s' % (cname, 'judged' if lossless_here else 'lossy by statement')
            ctx.dist('round trips', key)
            problems = []
            if lossless_here:
                if 'exc' in r:
                    problems.append('decode / encode raised %s' % r['exc'])
                else:
                    if not r['revalid']:
                        problems.append('the encoded XML is not valid: %s' % r['xml'][:300])
                    elif not r['shape_equal']:
                        problems.append('the encoded XML differs in tags / attribute names: %s' % r['xml'][:300])
                    elif not r['typed_equal']:
                        problems.append('the encoded XML differs in typed values: %s' % r['xml'][:300])
                    elif r.get('redecode_equal') is False and not mixed_text:
                        problems.append('the encoded XML decodes to different data')
            for mr in r.get('mut', []):
                ctx.count(None, nontrivial=False)
                ctx.dist('strict encode of mutated data', 'raised' if 'raised' in mr else 'foreign exception' if 'foreign' in mr
                         else 'accepted' if mr.get('accepted') else 'UNSOUND')
                if 'foreign' in mr and mr.get('site') in FOREIGN_SITES and mr['foreign'].split(':')[0] in FOREIGN_TYPES:
                    ctx.known_finding('F-C05a')
                elif 'foreign' in mr:
                    problems.append('strict encode of %s raised %s at %s' % (mr['data'][:200], mr['foreign'], mr.get('site')))
                elif 'raised' not in mr and not mr.get('accepted'):
                    problems.append('strict encode of %s returned XML the schema rejects (%s): %s' % (mr['data'][:200], mr.get('errors'), str(mr.get('xml'))[:200]))
            if problems:
                ctx.violation('%s converter, XSD %s, %s: %s' % (cname, c['version'], c['xml'][:200], '; '.join(problems[:2])),
                              dict(rep, converter=cname, result={k: v for k, v in r.items() if k != 'mut'}, mutations=r.get('mut')))
        ctx.sample({'xml': c['xml'][:200], 'contiguous': contiguous, 'converters': c['converters']}, cap=4)


def name_of(it, k):
    for name, i in it.t.items():
        if i == k:
            return name
    return None


def kind_of(d, name):
    if d['name'] == name:
        return d['type']['k']
    if d['type']['k'] == 'cx':
        for p in d['type']['parts']:
            r = kind_of(p, name)
            if r:
                return r
    return None


def list_typed(c, name):
    def find(d):
        if d['name'] == name:
            return d
        if d['type']['k'] == 'cx':
            for p in d['type']['parts']:
                r = find(p)
                if r:
                    return r
        return None
    d = find(c['schema']['root'])
    return bool(d) and d['type']['k'] in ('simple', 'sc') and d['type']['base'] in ('ilist', 'dlist')


def is_simple_list(c, name):
    def find(d):
        if d['name'] == name:
            return d
        if d['type']['k'] == 'cx':
            for p in d['type']['parts']:
                r = find(p)
                if r:
                    return r
        return None
    d = find(c['schema']['root'])
    return bool(d) and d['type']['k'] in ('simple', 'sc') and d['type']['base'] in ('ilist', 'dlist') and d['max'] == 1


def gen(ctx):
    import random
    cases = []
    for i in range(400 if ctx.quick() else 4000):
        seed = ctx.rng.randrange(10 ** 9)
        r = random.Random(seed)
        schema = gen_schema(r)
        tree = gen_node(r, schema['root'])
        prefix = 't' if (not schema['qualified'] or r.random() < 0.6) else ''
        simple_names = sorted(n for n in names_of(schema['root'], set()) if kind_of(schema['root'], n) in ('simple', 'sc'))
        cases.append({'seed': seed, 'version': '1.1' if i % 2 else '1.0', 'schema': schema, 'tree': tree, 'simple_names': simple_names,
                      'xml': render_node(tree, schema['qualified'], prefix), 'converters': list(CONVERTERS), 'mutations': 3})
    return cases


# ------------------------------------------------------------------ substitution-group members whose type differs in kind from the head's
SUBST_XSD = ('<xs:schema xmlns:xs="http://www.w3.org/2001/XMLSchema" targetNamespace="%s" xmlns:t="%s" elementFormDefault="qualified">'
             '<xs:simpleType name="ilist"><xs:list itemType="xs:int"/></xs:simpleType>'
             '<xs:element name="hd" type="xs:anySimpleType"/><xs:element name="ml" type="t:ilist" substitutionGroup="t:hd"/>'
             '<xs:element name="mi" type="xs:int" substitutionGroup="t:hd"/>'
             '<xs:element name="hl" type="t:ilist"/><xs:element name="ms" substitutionGroup="t:hl"><xs:simpleType>'
             '<xs:restriction base="t:ilist"><xs:maxLength value="2"/></xs:restriction></xs:simpleType></xs:element>'
             '<xs:element name="root"><xs:complexType><xs:sequence><xs:element name="x" type="xs:string"/>'
             '<xs:element ref="t:hd" minOccurs="0" maxOccurs="%s"/><xs:element ref="t:hl" minOccurs="0" maxOccurs="%s"/>'
             '<xs:element name="y" type="xs:string" minOccurs="0"/></xs:sequence></xs:complexType></xs:element></xs:schema>')
SUBST_CONV = ['default', 'default_root', 'default_cdata', 'default_opts', 'default_dict', 'jsonml', 'badgerfish', 'gdata', 'dataelement']


def subject_subst(case):
    import warnings
    from xml.etree import ElementTree as ET
    import xmlschema
    warnings.simplefilter('ignore')
    cls = xmlschema.XMLSchema11 if case['version'] == '1.1' else xmlschema.XMLSchema10
    schema = cls(SUBST_XSD % (TNS, TNS, case['max'], case['max']))
    xml = case['xml']
    out = {'valid': schema.is_valid(xml), 'conv': {}}
    if not out['valid']:
        return out
    want = [(c.tag, ' '.join((c.text or '').split())) for c in ET.fromstring(xml)]
    for cname in SUBST_CONV:
        clsname, kw = CONVERTERS[cname]
        conv = getattr(xmlschema, clsname)
        r = {}
        try:
            data = schema.decode(xml, converter=conv, **kw)
            elem = schema.encode(data, path='{%s}root' % TNS, converter=conv, **kw)
            got = [(c.tag, ' '.join((c.text or '').split())) for c in elem]
            r['children_equal'] = got == want
            r['got'] = [[t.split('}')[-1], v] for t, v in got]
            r['revalid'] = schema.is_valid(elem)
            text = xmlschema.etree_tostring(elem, namespaces={'t': TNS})      # (the prefixes of the original document)
            r['redecode_equal'] = canon(schema.decode(text, converter=conv, **kw)) == canon(data) if cname != 'dataelement' else True
        except Exception as e:  # noqa
            r['exc'] = common.exc_class(e) + ': ' + ' '.join(str(e).split())[:160]
        out['conv'][cname] = r
    return out


def check_subst(ctx):
    rng = ctx.rng
    cases = []
    pool = [('hd', 'abc'), ('ml', '1 2 3'), ('ml', '7'), ('mi', '5'), ('hl', '4 5'), ('ms', '8 9'), ('ml', '10  20')]
    for version in ('1.0', '1.1'):
        for mx in ('1', '3'):
            for _ in range(6 if ctx.quick() else 60):
                k = 1 if mx == '1' else rng.randint(1, 3)
                heads = [rng.choice([p for p in pool if p[0] in ('hd', 'ml', 'mi')]) for _ in range(rng.randint(0, k))]
                lists = [rng.choice([p for p in pool if p[0] in ('hl', 'ms')]) for _ in range(rng.randint(0, k))]
                if mx == '3':
                    # same-named children contiguous (the statement's condition for the dictionary conventions)
                    heads.sort(key=lambda p: p[0])
                    lists.sort(key=lambda p: p[0])
                body = '<t:x>s</t:x>' + ''.join('<t:%s>%s</t:%s>' % (t, v, t) for t, v in heads + lists) + ('<t:y>e</t:y>' if rng.random() < 0.5 else '')
                cases.append({'version': version, 'max': mx, 'xml': '<t:root xmlns:t="%s">%s</t:root>' % (TNS, body)})
    impl = common.pool_map(subject_subst, cases)
    for c, o in zip(cases, impl):
        rep = {'kind': 'subst', 'case': c, 'xsd': SUBST_XSD % (TNS, TNS, c['max'], c['max'])}
        if 'harness_exception' in o or not o.get('valid'):
            ctx.violation('substitution family: %s' % (o.get('harness_exception') or 'the generated instance is not valid: ' + c['xml']), rep, no_input=True)
            continue
        for cname, r in o['conv'].items():
            ctx.count(('subst', c['version'], c['max'], c['xml'], cname), nontrivial=True)
            ctx.dist('round trips', '%s substitution members' % cname)
            bad = None
            if 'exc' in r:
                bad = 'decode / encode raised %s' % r['exc']
            elif not r['revalid']:
                bad = 'the encoded XML is not valid: children %s' % r['got']
            elif not r['children_equal']:
                bad = 'the encoded XML has the children %s' % r['got']
            elif not r['redecode_equal']:
                bad = 'the encoded XML decodes to different data'
            if bad:
                ctx.violation('%s converter, XSD %s, substitution-group members (list-typed member of a head that is not a list, maxOccurs=%s) %s: %s'
                              % (cname, c['version'], c['max'], c['xml'], bad), dict(rep, converter=cname, result=r))


def run(ctx):
    ctx.rule = ('seeded schemas (nested complex types to depth 3, sequence / repeated choice, attributes, simple content with attributes, '
                'mixed content, int / decimal / boolean / date / string / NMTOKEN / list / union / restricted bases, qualified and '
                'unqualified local elements) x one generated valid instance (prefixed or default namespace) x 9 converter '
                'configurations (default with 5 option sets, JsonML, BadgerFish, GData, data elements) x 3 mutations of the '
                'decoded data for strict encode; evaluations = round trips + strict encodes; non-trivial = round trips the property '
                'statement covers (contiguous same-named children for the dictionary conventions)')
    evaluate(ctx, gen(ctx))
    check_subst(ctx)
    ctx.assumptions = ['PARTIAL: encoder soundness (validity of the encoder output for arbitrary data) is explored with mutated data, not proved',
                       'the converter algebra is proved for the modelled conventions; option handling and name mapping are exercised, not modelled']


def replay(ctx, case):
    if case.get('kind') == 'subst':
        check_subst(ctx)
    else:
        evaluate(ctx, [case['case']])

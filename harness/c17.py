"""C17 - names survive prefix mapping.

Generated documents redeclare a pool of prefixes (p, q, default) over a pool of URIs at random depths
(shadowing, several prefixes per URI, default set / unset).
 (1) mapper level: the converter's NamespaceMapper is driven over the document in pre-order
     (set_xmlns_context, map_qname, unmap_qname) exactly like the model Mapper.v on the same operation
     sequence; primary: unmap(map(tag)) = tag for every node; correspondence: the mapped names.
 (2) end to end: decode() with JsonML / default / BadgerFish converters, every key resolved with the
     xmlns entries reported on the node and its ancestors must denote the node's expanded name;
     encode(decode(x)) restores the expanded names."""
import json
import re

import common
from common import coq_N, coq_list

IMPORTS = 'From XV Require Import Base Mapper.'
URIS = ['urn:u1', 'urn:u2', 'urn:u3']
PREFIXES = ['p', 'q', '']
PCODE = {'': 0, 'p': 7, 'q': 8, 'xsi': 9, 'xs': 10, 'xml': 11}
UCODE = {'': 0, 'urn:u1': 101, 'urn:u2': 102, 'urn:u3': 103}
LOCALS = ['e', 'f', 'g']
LCODE = {'e': 5, 'f': 6, 'g': 4}

XSD = ('<xs:schema xmlns:xs="http://www.w3.org/2001/XMLSchema" targetNamespace="urn:u1" xmlns:t="urn:u1" '
       'elementFormDefault="qualified">'
       '<xs:complexType name="T"><xs:sequence><xs:any processContents="lax" minOccurs="0" '
       'maxOccurs="unbounded"/></xs:sequence><xs:anyAttribute processContents="lax"/></xs:complexType>'
       '<xs:element name="e" type="t:T"/><xs:element name="f" type="t:T"/><xs:element name="g" type="t:T"/>'
       '</xs:schema>')


def gen_doc(rng, max_depth=4, prefixes=None):
    """Abstract tree: node = {'uri','local','decls':[(prefix,uri)],'prefix','attrs':[(prefix,uri,local)],'kids':[...]}"""
    def node(scope, depth, root=False):
        decls = []
        if root or rng.random() < 0.55:
            for p in rng.sample(prefixes or PREFIXES, rng.randint(1, 3)):
                if p == '':
                    u = rng.choice(URIS + [''])
                    if u == '' and scope.get('') in (None, ''):
                        continue
                else:
                    u = rng.choice(URIS)
                decls.append((p, u))
        new = dict(scope)
        new.update(decls)
        uri = 'urn:u1' if root else rng.choice(URIS + [''])
        usable = [p for p, u in new.items() if u == uri and (p or uri)]
        if uri == '':
            if new.get('') not in (None, ''):
                decls = [d for d in decls if d[0] != ''] + ([('', '')] if scope.get('') not in (None, '') else [])
                new[''] = ''
            prefix = ''
        elif not usable:
            p = rng.choice(['p', 'q'])
            decls = [d for d in decls if d[0] != p] + [(p, uri)]
            new[p] = uri
            prefix = p
        else:
            prefix = rng.choice(usable)
        attrs = []
        for p, u in new.items():
            if p and rng.random() < 0.25:
                attrs.append((p, u, 'a' + p))
        kids = []
        if depth < max_depth:
            for _ in range(rng.choice([0, 1, 1, 2, 3])):
                kids.append(node(new, depth + 1))
        return {'uri': uri, 'local': 'e' if root else rng.choice(LOCALS), 'decls': decls, 'prefix': prefix,
                'attrs': attrs, 'kids': kids}
    return node({}, 0, root=True)


def render(n):
    name = (n['prefix'] + ':' if n['prefix'] else '') + n['local']
    s = '<' + name
    for p, u in n['decls']:
        s += ' xmlns%s="%s"' % (':' + p if p else '', u)
    for p, u, l in n['attrs']:
        s += ' %s:%s="1"' % (p, l)
    if not n['kids']:
        return s + '/>'
    return s + '>' + ''.join(render(k) for k in n['kids']) + '</' + name + '>'


def preorder(n, level=0):
    yield n, level
    for k in n['kids']:
        yield from preorder(k, level + 1)


def ext(uri, local):
    return '{%s}%s' % (uri, local) if uri else local


# ------------------------------------------------------------------ subject 1: mapper level
def subject_mapper(case):
    import xmlschema
    xml = render(case['doc'])
    res = xmlschema.XMLResource(xml)
    conv = xmlschema.XMLSchemaConverter(source=res)
    out = []
    stack = [(res.root, 0)]
    order = []

    def walk(e, lvl):
        order.append((e, lvl))
        for c in e:
            walk(c, lvl + 1)
    walk(res.root, 0)
    for e, lvl in order:
        conv.set_xmlns_context(e, lvl)
        mapped = conv.map_qname(e.tag)
        back = conv.unmap_qname(mapped)
        amapped = [(k, conv.map_qname(k), conv.unmap_qname(conv.map_qname(k), name_table=())) for k in sorted(e.attrib)]
        out.append({'tag': e.tag, 'mapped': mapped, 'back': back, 'attrs': amapped})
    return out


def mapper_term(case):
    ops = []
    for i, (n, lvl) in enumerate(preorder(case['doc'])):
        decls = coq_list(['(%s, %s)' % (coq_N(PCODE[p]), coq_N(UCODE[u])) for p, u in n['decls']])
        ops.append('((%d, %d, %s), (%s, %s))' % (i + 1, lvl, decls, coq_N(UCODE[n['uri']]), coq_N(LCODE[n['local']])))
    return ('(snd (fold_left (fun (acc : mapper * list (mname * (N * N))) op => '
            'let st := set_ctx (fst acc) (fst (fst (fst op))) (snd (fst (fst op))) (snd (fst op)) in '
            'let m := map_q st (fst (snd op)) (snd (snd op)) in (st, snd acc ++ [(m, unmap_q st [] m)])) '
            '%s (init_mapper %s, [])))'
            % (coq_list(ops), coq_list(['(%s, %s)' % (coq_N(PCODE[p]), coq_N(UCODE[u])) for p, u in case['doc']['decls']])))


PNAME = {v: k for k, v in PCODE.items()}
UNAME = {v: k for k, v in UCODE.items()}
LNAME = {v: k for k, v in LCODE.items()}


def decode_mname(m):
    kind = m[0]
    if kind == 'Ext':
        return ext(UNAME[m[1]], LNAME[m[2]])
    if kind == 'Pre':
        return '%s:%s' % (PNAME[m[1]], LNAME[m[2]])
    return LNAME[m[1]]


def check_mapper(ctx, cases):
    impl = common.pool_map(subject_mapper, cases)
    model = common.coq_eval('C17', IMPORTS, '', [mapper_term(c) for c in cases], shard=100)
    for c, o, m in zip(cases, impl, model):
        xml = render(c['doc'])
        nodes = list(preorder(c['doc']))
        shadow = any(any(p in dict(a['decls']) for a in _ancestors(c['doc'], n)) for n, _ in nodes for p, _u in n['decls'])
        ctx.count(('mapper', xml), nontrivial=shadow and len(nodes) >= 3)
        ctx.dist('doc_nodes', 5 * (len(nodes) // 5))
        ctx.dist('shadowing', shadow)
        if isinstance(o, dict) and 'harness_exception' in o:
            ctx.violation('mapper run failed: %s' % o['harness_exception'], {'kind': 'mapper', 'case': c, 'xml': xml},
                          no_input=True)
            continue
        bad = None
        for (n, lvl), io, mo in zip(nodes, o, m):
            want = ext(n['uri'], n['local'])
            if io['tag'] != want:
                raise RuntimeError('harness: rendered tag %r differs from abstract %r' % (io['tag'], want))
            if io['back'] != want:
                bad = ('primary', 'element %s is mapped to %r which resolves back to %r' % (want, io['mapped'], io['back']))
                break
            for k, mk, bk in io['attrs']:
                if bk != k:
                    bad = ('primary', 'attribute %s is mapped to %r which resolves back to %r' % (k, mk, bk))
                    break
            if bad:
                break
            mm, mback = mo
            if decode_mname(mm) != io['mapped']:
                bad = ('aux', 'model maps %s to %r, implementation to %r' % (want, decode_mname(mm), io['mapped']))
                break
        if bad:
            ctx.violation('%s in %s' % (bad[1], xml), {'kind': 'mapper', 'case': c, 'xml': xml, 'impl': o,
                                                       'theorem': 'C17_map_unmap / C17_set_ctx_inv'},
                          no_input=(bad[0] != 'primary'))
        ctx.sample({'xml': xml, 'mapped': [x['mapped'] for x in o][:8]}, cap=3)


# ------------------------------------------------------------------ subject 1b: collapsed / root-only mapper
C_IMPORTS = 'From XV Require Import Base Collapsed.'
C_DEFS = '''Fixpoint tr (c : bool) (st : fwd * rvs) (ops : list ((nat * list (pfx * N)) * (N * N)))
  : list (bool * (fwd * rvs) * key) :=
  match ops with
  | [] => []
  | (op, (u, l)) :: rest =>
      match elem_step c st op with
      | Some st1 => (true, st1, map_key st1 u l) :: tr c st1 rest
      | None => [(false, st, KLoc 0)]
      end
  end.
'''
C_PREFIXES = ['p', 'q', '', 'p0', 'q9', 'default', 'p1']
STEMS = {'': 0, 'default': 1, 'p': 7, 'q': 8}


def pfx_code(p):
    """prefix -> (stem, k) as in Collapsed.v: k = 0 without a numeric suffix, i + 1 for the suffix i"""
    m = re.match(r'^(.*?)(\d+)?$', p)
    return STEMS[m.group(1)], 0 if m.group(2) is None else int(m.group(2)) + 1


def subject_collapsed(case):
    import xmlschema
    xml = render(case['doc'])
    res = xmlschema.XMLResource(xml)
    conv = xmlschema.XMLSchemaConverter(source=res, xmlns_processing=case['mode'])
    order = []

    def walk(e, lvl):
        order.append((e, lvl))
        for c in e:
            walk(c, lvl + 1)
    walk(res.root, 0)
    out = []
    for e, lvl in order:
        conv.set_xmlns_context(e, lvl)
        out.append({'ns': list(conv.namespaces.items()), 'rev': sorted((u, p.rstrip(':')) for u, p in conv._reverse.items()),
                    'mapped': conv.map_qname(e.tag), 'tag': e.tag})
    return out


def collapsed_term(case):
    def decls(ds):
        return coq_list(['((%s, %s), %s)' % (coq_N(pfx_code(p)[0]), coq_N(pfx_code(p)[1]), coq_N(UCODE[u])) for p, u in ds])
    ops = ['((%d, %s), (%s, %s))' % (lvl, decls(n['decls']), coq_N(UCODE[n['uri']]), coq_N(LCODE[n['local']]))
           for n, lvl in preorder(case['doc'])]
    return 'tr %s (init_state %s) %s' % ('true' if case['mode'] == 'collapsed' else 'false', decls(case['doc']['decls']), coq_list(ops))


def check_collapsed(ctx, cases):
    impl = common.pool_map(subject_collapsed, cases)
    model = common.coq_eval('C17c', C_IMPORTS, C_DEFS, [collapsed_term(c) for c in cases], shard=100)
    for c, o, m in zip(cases, impl, model):
        xml = render(c['doc'])
        nodes = list(preorder(c['doc']))
        rep = {'kind': 'collapsed', 'case': c, 'xml': xml, 'impl': o}
        if isinstance(o, dict) and 'harness_exception' in o:
            ctx.violation('collapsed mapper run failed: %s' % o['harness_exception'], rep, no_input=True)
            continue
        renamed = any(p not in [q for n, _ in nodes for q, _u in n['decls']] for p, _u in o[-1]['ns'])
        ctx.count(('collapsed', c['mode'], xml), nontrivial=renamed and len(nodes) >= 3)
        ctx.dist('collapsed_mode', c['mode'])
        ctx.dist('collapsed_renamed_prefix', renamed)
        bad = None
        final = dict(o[-1]['ns'])
        for k, ((n, lvl), io) in enumerate(zip(nodes, o)):
            want = ext(n['uri'], n['local'])
            if io['tag'] != want:
                raise RuntimeError('harness: rendered tag %r differs from abstract %r' % (io['tag'], want))
            # primary: the key written now resolves, with the declarations reported at the end, to the expanded name
            # (names without namespace under a reported default namespace are the known finding F-C17c)
            got = resolve(io['mapped'], final)
            if got != want and n['uri'] == '' and final.get(''):
                ctx.known_finding('F-C17c')
            elif got != want:
                bad = ('primary', 'element %s is keyed %r which resolves to %r with the collapsed declarations %r'
                       % (want, io['mapped'], got, final))
                break
            if k >= len(m) or not m[k][0]:
                bad = ('aux', 'the model runs out of fuel at node %d (C17_collapsed_renaming_terminates)' % k)
                break
            _ok, (mn, mr), mkey = m[k]     # Coq prints nested pairs flat: fwd entries are (stem, k, uri)
            inn = [(pfx_code(p), UCODE[u]) for p, u in io['ns']]
            irev = sorted((UCODE[u], pfx_code(p)) for u, p in io['rev'])
            if [((a, b), u) for a, b, u in mn] != inn:
                bad = ('aux', 'after node %d the namespace map is %r, in the model (coded) %r' % (k, io['ns'], mn))
                break
            if sorted((u, tuple(p)) for u, p in mr) != irev:
                bad = ('aux', 'after node %d the reverse map is %r, in the model (coded) %r' % (k, io['rev'], mr))
                break
            if mkey[0] == 'KPre':
                pm = (tuple(mkey[1]), mkey[2])
                im = io['mapped'].split(':') if ':' in io['mapped'] and not io['mapped'].startswith('{') else None
                if im is None or (pfx_code(im[0]), LCODE[im[1]]) != pm:
                    bad = ('aux', 'node %d: the model keys %s with prefix %r, the implementation writes %r' % (k, want, pm[0], io['mapped']))
                    break
            elif mkey[0] == 'KLoc' and io['mapped'] != n['local'] or mkey[0] == 'KExt' and not io['mapped'].startswith('{'):
                bad = ('aux', 'node %d: the model keys %s as %s, the implementation writes %r' % (k, want, mkey[0], io['mapped']))
                break
        if bad:
            ctx.violation('%s in %s [%s]' % (bad[1], xml, c['mode']),
                          dict(rep, theorem='C17_collapsed_keys_resolve'), no_input=(bad[0] != 'primary'))
        ctx.sample({'xml': xml, 'mode': c['mode'], 'collapsed_declarations': o[-1]['ns']}, cap=3)


def _ancestors(root, target):
    path = []

    def rec(n):
        if n is target:
            return True
        for k in n['kids']:
            if rec(k):
                path.append(n)
                return True
        return False
    rec(root)
    return path


# ------------------------------------------------------------------ subject 2: end to end
def resolve(key, scope, attr=False):
    if key.startswith('{'):
        return key
    if ':' in key:
        p, l = key.split(':', 1)
        if p not in scope:
            return 'UNBOUND:' + key
        return ext(scope[p], l)
    if attr:
        return key
    return ext(scope.get('', ''), key)


def jsonml_names(data, scope, out, level=0):
    """out: list of (level, resolved element name, sorted resolved attribute names) in document order."""
    tag = data[0]
    attrs = data[1] if len(data) > 1 and isinstance(data[1], dict) else {}
    kids = [x for x in data[1:] if isinstance(x, list)]
    scope = dict(scope)
    for k, v in attrs.items():
        if k == 'xmlns':
            scope[''] = v
        elif k.startswith('xmlns:'):
            scope[k[6:]] = v
    an = sorted(resolve(k, scope, True) for k in attrs if not k.startswith('xmlns'))
    out.append((level, resolve(tag, scope), an))
    for k in kids:
        jsonml_names(k, scope, out, level + 1)


def default_names(key, item, scope, out, level, attr_prefix='@'):
    """default converter: item is the value stored for one element under `key`."""
    scope = dict(scope)
    attrs = []
    if isinstance(item, dict):
        for k, v in item.items():
            if k == attr_prefix + 'xmlns':
                if isinstance(v, dict):   # BadgerFish: {'p': uri, '$': default}
                    for p, u in v.items():
                        scope['' if p == '$' else p] = u
                else:
                    scope[''] = v
            elif k.startswith(attr_prefix + 'xmlns:'):
                scope[k[len(attr_prefix) + 6:]] = v
        for k in item:
            if k.startswith(attr_prefix) and not k.startswith(attr_prefix + 'xmlns'):
                attrs.append(resolve(k[len(attr_prefix):], scope, True))
    out.append((level, resolve(key, scope), sorted(attrs)))
    if isinstance(item, dict):
        for k, v in item.items():
            if k.startswith(attr_prefix) or k.startswith('$'):
                continue
            for sub in (v if isinstance(v, list) else [v]):
                default_names(k, sub, scope, out, level + 1, attr_prefix)


def doc_names(n, out, level=0, scope=None, absorb_default=False):
    """absorb_default=True gives the names as mis-encoded by the known finding F-C17a: an element in
    no namespace inside the scope of a non-empty default namespace takes that default namespace."""
    scope = dict(scope or {})
    outer_default = scope.get('', '')
    scope.update(n['decls'])
    uri = n['uri']
    if absorb_default and not uri and outer_default:
        uri = outer_default
    out.append((level, ext(uri, n['local']), sorted(ext(u, l) for _p, u, l in n['attrs'])))
    for k in n['kids']:
        doc_names(k, out, level + 1, scope, absorb_default)


def sibling_clashes(n, level=0, out=None):
    """(level, local) of sibling groups that share a local name but not the namespace while some of them
    carry their own xmlns declarations (known finding F-C17b)."""
    out = set() if out is None else out
    by_local = {}
    for k in n['kids']:
        by_local.setdefault(k['local'], []).append(k)
    for local, ks in by_local.items():
        if len({k['uri'] for k in ks}) > 1 and any(k['decls'] for k in ks):
            out.add((level + 1, local))
    for k in n['kids']:
        sibling_clashes(k, level + 1, out)
    return out


def etree_names(e, out, level=0):
    out.append((level, e.tag, sorted(e.attrib)))
    for c in e:
        etree_names(c, out, level + 1)


_SCHEMA = {}


def subject_e2e(case):
    import xmlschema
    if 's' not in _SCHEMA:
        _SCHEMA['s'] = xmlschema.XMLSchema(XSD)
    s = _SCHEMA['s']
    xml = render(case['doc'])
    conv = {'jsonml': xmlschema.JsonMLConverter, 'default': None, 'badgerfish': xmlschema.BadgerFishConverter}[case['conv']]
    kw = {'converter': conv, 'preserve_root': True, 'xmlns_processing': case['mode']}
    if case.get('namespaces') is not None:
        kw['namespaces'] = dict(case['namespaces'])
    out = {}
    try:
        data = s.decode(xml, **kw)
    except Exception as e:  # noqa
        return {'decode': common.exc_class(e) + ': ' + str(e)[:150]}
    names = []
    try:
        if case['conv'] == 'jsonml':
            jsonml_names(data, {}, names)
        else:
            (key, item), = data.items()
            default_names(key, item, {}, names, 0)
    except Exception as e:  # noqa
        return {'decode': 'ok', 'data': json.dumps(data, default=str)[:600], 'walk_error': '%s: %s' % (type(e).__name__, e)}
    out['decode'] = 'ok'
    out['names'] = names
    out['data'] = json.dumps(data, default=str)[:800]
    try:
        elem = s.elements['e'].encode(data, **kw)
        if isinstance(elem, tuple):
            elem = elem[0]
        en = []
        etree_names(elem, en)
        out['encoded'] = en
    except Exception as e:  # noqa
        out['encode_error'] = common.exc_class(e) + ': ' + ' '.join(str(e).split())[:1500]
    return out


def norm_names(names, ordered):
    names = [(lv, n, tuple(a)) for lv, n, a in names]
    return names if ordered else sorted(names)


def check_e2e(ctx, cases):
    impl = common.pool_map(subject_e2e, cases)
    for c, o in zip(cases, impl):
        xml = render(c['doc'])
        want = []
        doc_names(c['doc'], want)
        ordered = c['conv'] == 'jsonml'
        nontriv = len(want) >= 3 and any(n['decls'] for n, lv in preorder(c['doc']) if lv > 0)
        ctx.count(('e2e', c['conv'], c['mode'], xml, json.dumps(c.get('namespaces'))), nontrivial=nontriv)
        ctx.dist('e2e_config', '%s/%s%s' % (c['conv'], c['mode'], '/user namespace map' if c.get('namespaces') is not None else ''))
        rep = {'kind': 'e2e', 'case': c, 'xml': xml, 'impl': o}
        if 'harness_exception' in o:
            ctx.violation('e2e run failed: %s' % o['harness_exception'], rep, no_input=True)
            continue
        if o.get('decode') != 'ok':
            ctx.violation('decode of a valid document failed (%s/%s): %s; %s' % (c['conv'], c['mode'], o['decode'], xml), rep)
            continue
        if 'walk_error' in o:
            ctx.violation('decoded data has an unexpected shape: %s' % o['walk_error'], rep, no_input=True)
            continue
        if norm_names(o['names'], ordered) != norm_names(want, ordered):
            got = norm_names(o['names'], ordered)
            if c['mode'] != 'stacked':
                # F-C17c: only the root's default namespace is reported, so a descendant in no namespace
                # (which needs xmlns="") is keyed by its bare name and resolves into the root's default
                rd = dict(c['doc']['decls']).get('', '')
                alt = [(lv, ext(rd, nm) if rd and '}' not in nm else nm, a) for lv, nm, a in norm_names(want, True)]
                if alt != norm_names(want, True) and got == (alt if ordered else sorted(alt)):
                    ctx.known_finding('F-C17c')
                    continue
            diff = [x for x in got if x not in norm_names(want, ordered)][:3]
            ctx.violation('decoded keys do not resolve to the expanded names of the document (%s/%s): %s e.g. %s'
                          % (c['conv'], c['mode'], xml, diff), rep)
            continue
        if 'encode_error' in o:
            alt = []
            doc_names(c['doc'], alt, absorb_default=True)
            if alt != want and 'Unmatched tag' in o['encode_error'] and c['conv'] == 'jsonml':
                ctx.known_finding('F-C17a')   # same defect: the bare name is matched in the default namespace
                continue
            ctx.violation('encode(decode(x)) fails (%s/%s): %s for %s' % (c['conv'], c['mode'], o['encode_error'], xml), rep)
        elif norm_names(o['encoded'], ordered) != norm_names(want, ordered):
            alt = []
            doc_names(c['doc'], alt, absorb_default=True)
            if alt != want and norm_names(o['encoded'], ordered) == norm_names(alt, ordered):
                ctx.known_finding('F-C17a')
                continue
            if not ordered:
                clashes = sibling_clashes(c['doc'])
                got_n, want_n = norm_names(o['encoded'], False), norm_names(alt, False)
                diff = [x for x in got_n if x not in want_n] + [x for x in want_n if x not in got_n]
                if clashes and all((lv, nm.rsplit('}', 1)[-1]) in clashes for lv, nm, _a in diff):
                    ctx.known_finding('F-C17b')
                    continue
            ctx.violation('encode(decode(x)) does not restore the expanded names (%s/%s): %s'
                          % (c['conv'], c['mode'], xml), rep)
        ctx.sample({'xml': xml, 'conv': c['conv'], 'mode': c['mode'], 'data': o['data'][:300]}, cap=6)


def run(ctx):
    rng = ctx.rng
    n1, n2 = (400, 250) if ctx.quick() else (6000, 3000)
    mcases = [{'doc': gen_doc(rng)} for _ in range(n1)]
    ecases = []
    for i in range(n2):
        d = gen_doc(rng, max_depth=3)
        for conv in ('jsonml', 'default'):
            ecases.append({'doc': d, 'conv': conv, 'mode': 'stacked'})
        # the other two modes that keep namespace information: declarations collapsed on the root (colliding
        # prefixes renamed) or only the root's declarations (other names stay in {uri}local form)
        ecases.append({'doc': d, 'conv': ('jsonml', 'default')[i % 2], 'mode': ('collapsed', 'root-only', 'collapsed')[i % 3]})
        # a user-supplied namespace map that collides with / partially covers the document's declarations
        um = {p: rng.choice(URIS) for p in rng.sample(['p', 'q', 'r'], rng.randint(1, 3))}
        ecases.append({'doc': d, 'conv': ('default', 'jsonml')[i % 2], 'mode': 'stacked', 'namespaces': sorted(um.items())})
    import os
    reg = common.VERIF / 'regressions' / 'C17'
    if reg.exists():
        for f in sorted(os.listdir(reg)):
            r = json.loads((reg / f).read_text())
            mcases.insert(0, {'doc': r['doc']})
            ecases.insert(0, {'doc': r['doc'], 'conv': 'jsonml', 'mode': 'stacked'})
    ctx.rule = ('seeded documents over prefixes {p,q,default} x URIs {u1,u2,u3,absent}, depth<=4, random redeclaration / '
                'shadowing / unsetting; mapper level: pre-order operation sequences compared with Mapper.v; end to end: '
                'decode/encode with JsonML and default converters (stacked, collapsed and root-only xmlns processing; stacked also with '
                'user-supplied namespace maps over {p,q,r} that collide with / partially cover the declarations); '
                'non-trivial = at least 3 nodes and a nested declaration (mapper: a shadowed prefix)')
    check_mapper(ctx, mcases)
    ccases = [{'doc': gen_doc(rng, max_depth=3, prefixes=C_PREFIXES), 'mode': 'collapsed' if i % 4 else 'root-only'}
              for i in range(300 if ctx.quick() else 4000)]
    check_collapsed(ctx, ccases)
    check_e2e(ctx, ecases)
    ctx.assumptions = ['BadgerFish is not used here: its encoder fails on lists of children for reasons unrelated to prefixes (see C05)',
                       'collapsed / root-only modes: the renaming model Collapsed.v assumes numeric prefix suffixes without leading zeros',
                       'attribute keys are resolved without the default namespace, as XML prescribes',
                       'user-supplied namespace maps bind non-empty prefixes only: a user default namespace for a document '
                       'with elements in no namespace makes bare keys ambiguous by construction']


def replay(ctx, case):
    c = case['case']
    if case.get('kind') == 'e2e':
        check_e2e(ctx, [c])
    elif case.get('kind') == 'collapsed':
        check_collapsed(ctx, [c])
    else:
        check_mapper(ctx, [c])

"""C19 - errors point at the offending node and a single fault is always reported there.

Generated valid documents (sections / paragraphs / items with repeated same-tag siblings, with and without a
target namespace) x every single-node fault of a catalogue (bad value, bad / missing / extra attribute, missing /
extra / misplaced child) at every node x default and lxml parsers.
 * every error's path, evaluated with elementpath on the document, selects exactly the error's element (primary);
 * the model's `getpath` (Tree.v, C19_path_unique) predicts the path string (correspondence);
 * fault localisation (exploration): the document is invalid, some error lies at the damaged node or its parent,
   none outside the damaged node's ancestor chain and subtree."""
import copy
import json

import common
from common import coq_list, coq_N

IMPORTS = 'From XV Require Import Base Tree.'
TAGS = {'root': 1, 'section': 2, 'title': 3, 'para': 4, 'item': 5, 'note': 6, 'value': 7, 'tag': 8, 'bogus': 9, 'wrap': 10,
        'entry': 11, 'mark': 12, 'code': 13, 'size': 14}
NS = 'urn:d'
WNS = 'urn:w'      # namespace of the undeclared wrapper element matched by the lax wildcard


def schema_xsd(ns, version='1.0'):
    tns = ' targetNamespace="%s" xmlns:t="%s" elementFormDefault="qualified"' % (NS, NS) if ns else ''
    p = 't:' if ns else ''
    return (('<xs:schema xmlns:xs="http://www.w3.org/2001/XMLSchema"%s>'
            '<xs:simpleType name="numOrDate"><xs:union memberTypes="xs:int xs:date"/></xs:simpleType>'
            '<xs:simpleType name="codeType"><xs:restriction base="%snumOrDate"><xs:pattern value="[0-9]{4}(-[0-9]{2}-[0-9]{2})?"/>'
            '</xs:restriction></xs:simpleType>'
            '<xs:complexType name="valueType"><xs:simpleContent><xs:extension base="xs:int"><xs:attribute name="lang" type="xs:string"LANGINH/>'
            '</xs:extension></xs:simpleContent></xs:complexType>'
            # (a simple-content element that may carry the inheritable attribute: XSD 1.1 processes it with a copy of the context)
            '<xs:complexType name="itemType"><xs:sequence><xs:element name="value" type="VTP:valueType"/>'
            '<xs:element name="code" type="%scodeType" minOccurs="0"/><xs:element name="size" type="%snumOrDate" minOccurs="0"/>'
            '<xs:element name="tag" type="xs:token" minOccurs="0" maxOccurs="unbounded"/></xs:sequence>'
            '<xs:attribute name="n" type="xs:int" use="required"/>'
            '<xs:attribute name="kind"><xs:simpleType><xs:restriction base="xs:string"><xs:enumeration value="a"/>'
            '<xs:enumeration value="b"/></xs:restriction></xs:simpleType></xs:attribute></xs:complexType>'
            '<xs:complexType name="sectionType"><xs:sequence><xs:element name="title" type="xs:string"/>'
            '<xs:element name="para" type="xs:string" minOccurs="0" maxOccurs="unbounded"/>'
            '<xs:element name="item" type="%sitemType" minOccurs="0" maxOccurs="unbounded"/>'
            '<xs:element name="section" type="%ssectionType" minOccurs="0" maxOccurs="2">UNIQ</xs:element>'
            '<xs:sequence minOccurs="0" maxOccurs="unbounded"><xs:element name="entry" type="%sitemType"/>'
            '<xs:element name="mark" type="xs:string"/></xs:sequence>'
            '<xs:element name="note" type="xs:anySimpleType" minOccurs="0">NOTEALT</xs:element>'
            '<xs:any namespace="##other" processContents="lax" minOccurs="0"/></xs:sequence>'
            '<xs:attribute name="id" type="xs:NCName" use="required"/><xs:attribute name="level" type="xs:int"/>'
            '<xs:attribute name="lang" type="xs:string"LANGINH/></xs:complexType>'
            '<xs:element name="section" type="%ssectionType">UNIQ</xs:element>'
            '<xs:element name="root"><xs:complexType><xs:sequence><xs:element name="section" type="%ssectionType" '
            'maxOccurs="unbounded">UNIQ</xs:element></xs:sequence></xs:complexType></xs:element></xs:schema>' % (tns, p, p, p, p, p, p, p, p)
            ).replace('NOTEALT', '<xs:alternative test="@lang=\'x\'" type="xs:int"/>' if version == '1.1' else ''
            ).replace('LANGINH', ' inheritable="true"' if version == '1.1' else '').replace('VTP:', p
            ).replace('UNIQ', '<xs:unique name="UI1"><xs:selector xpath="%sitem|%sentry"/><xs:field xpath="@n"/></xs:unique>' % (p, p), 1
            ).replace('UNIQ', '<xs:unique name="UI2"><xs:selector xpath="%sitem|%sentry"/><xs:field xpath="@n"/></xs:unique>' % (p, p), 1
            ).replace('UNIQ', '<xs:unique name="UI3"><xs:selector xpath="%sitem|%sentry"/><xs:field xpath="@n"/></xs:unique>' % (p, p), 1))


def gen_doc(rng, depth=0):
    """tree node: {'tag','attrs':{},'text':None|str,'kids':[]}"""
    counter = [0]

    def item(tag='item'):
        counter[0] += 1
        return {'tag': tag, 'attrs': dict({'n': str(counter[0])}, **({'kind': rng.choice('ab')} if rng.random() < 0.5 else {})),
                'text': None, 'kids': [{'tag': 'value', 'attrs': {'lang': 'en'} if rng.random() < 0.3 else {}, 'text': str(rng.randint(0, 99)), 'kids': []}] +
                # two union-typed siblings: code is restricted by a pattern that the values of size do not match
                ([{'tag': 'code', 'attrs': {}, 'text': rng.choice(['2024', '2024-02-29', '1999']), 'kids': []}] if rng.random() < 0.5 else []) +
                ([{'tag': 'size', 'attrs': {}, 'text': rng.choice(['7', '12', '123456']), 'kids': []}] if rng.random() < 0.6 else []) +
                [{'tag': 'tag', 'attrs': {}, 'text': 'k%d' % i, 'kids': []} for i in range(rng.choice([0, 0, 1, 2, 3]))]}

    def section(d):
        kids = [{'tag': 'title', 'attrs': {}, 'text': 'T', 'kids': []}]
        kids += [{'tag': 'para', 'attrs': {}, 'text': 'p%d' % i, 'kids': []} for i in range(rng.choice([0, 1, 2, 3]))]
        kids += [item() for _ in range(rng.choice([0, 1, 2, 3]))]
        if d < 2:
            kids += [section(d + 1) for _ in range(rng.choice([0, 0, 1, 2]))]
        for _ in range(rng.choice([0, 0, 1, 2, 3])):
            # same-named siblings that are not contiguous: entry, mark, entry, mark, ...
            kids.append(item('entry'))
            kids.append({'tag': 'mark', 'attrs': {}, 'text': 'm', 'kids': []})
        if rng.random() < 0.4:
            kids.append({'tag': 'note', 'attrs': {}, 'text': 'n', 'kids': []})
        if d < 2 and rng.random() < 0.25:
            # an undeclared element admitted by the lax wildcard, wrapping a globally declared element
            kids.append({'tag': 'wrap', 'attrs': {}, 'text': None, 'kids': [section(d + 1)]})
        attrs = {'id': 's%d' % rng.randint(0, 999)}
        if rng.random() < 0.5:
            attrs['level'] = str(d)
        if rng.random() < 0.3:
            attrs['lang'] = 'en'
        return {'tag': 'section', 'attrs': attrs, 'text': None, 'kids': kids}
    return {'tag': 'root', 'attrs': {}, 'text': None, 'kids': [section(0) for _ in range(rng.choice([1, 2, 3]))]}


def render(n, ns, top=True):
    p = 'w:' if n['tag'] == 'wrap' else 't:' if ns else ''
    a = ''.join(' %s="%s"' % kv for kv in n['attrs'].items())
    if top:
        a = (' xmlns:t="%s"' % NS if ns else '') + ' xmlns:w="%s"' % WNS + a
    inner = (n['text'] or '') + ''.join(render(k, ns, False) for k in n['kids'])
    return '<%s%s%s>%s</%s%s>' % (p, n['tag'], a, inner, p, n['tag'])


def nodes(n, a=()):
    yield a, n
    for i, k in enumerate(n['kids']):
        yield from nodes(k, a + (i,))


def get(n, a):
    for i in a:
        n = n['kids'][i]
    return n


REQUIRED_CHILD = {'section': 'title', 'item': 'value', 'entry': 'value'}
INT_TEXT = {'value'}
INT_ATTR = {'n', 'level'}
REQ_ATTR = {'section': 'id', 'item': 'n', 'entry': 'n'}


def faults(doc, rng=None):
    """all single-node faults: (kind, damaged address, faulted document)"""
    out = []
    for a, n in nodes(doc):
        def mutated(fn):
            d = copy.deepcopy(doc)
            fn(get(d, a))
            return d
        if n['tag'] in INT_TEXT:
            out.append(('badvalue', a, mutated(lambda x: x.__setitem__('text', 'x!'))))
        if n['tag'] in ('code', 'size'):
            # a text that no member type of the union can decode / that the pattern of the restricted union refuses
            out.append(('badvalue', a, mutated(lambda x: x.__setitem__('text', '20x4'))))
            if n['tag'] == 'code':
                out.append(('badvalue', a, mutated(lambda x: x.__setitem__('text', '12345'))))
        for an in n['attrs']:
            if an in INT_ATTR:
                out.append(('badattr', a, mutated(lambda x, an=an: x['attrs'].__setitem__(an, 'x!'))))
        if n['tag'] in REQ_ATTR:
            out.append(('missingattr', a, mutated(lambda x: x['attrs'].pop(REQ_ATTR[x['tag']]))))
        if n['tag'] == 'section' and any(k['tag'] == 'note' for _a, k in nodes(n)) \
                and not any(k['tag'] == 'section' and 'lang' in k['attrs'] for _a, k in nodes(n) if k is not n):
            # XSD 1.1 only: the inheritable attribute lang selects, through a type alternative, the type of the notes below
            # this section (xs:int for lang='x'): they become invalid, the notes of the following sections do not
            out.append(('altattr', a, mutated(lambda x: x['attrs'].__setitem__('lang', 'x'))))
        if n['tag'] in ('section', 'item', 'entry'):
            out.append(('extraattr', a, mutated(lambda x: x['attrs'].__setitem__('zz', '1'))))
            out.append(('missingchild', a, mutated(lambda x: x['kids'].pop(0))))
            for pos in sorted({0, len(n['kids']) // 2, len(n['kids'])}):
                out.append(('extrachild', a, mutated(lambda x, pos=pos: x['kids'].insert(
                    pos, {'tag': 'bogus', 'attrs': {}, 'text': None, 'kids': []}))))
            for i in range(len(n['kids']) - 1):
                if n['kids'][i]['tag'] != n['kids'][i + 1]['tag']:
                    out.append(('misplaced', a, mutated(lambda x, i=i: x['kids'].__setitem__(
                        slice(i, i + 2), [x['kids'][i + 1], x['kids'][i]]))))
                    break
    # a duplicated value of the unique constraint UI: the n of an item / entry copied from a preceding one of the same section
    for a, n in nodes(doc):
        if n['tag'] == 'section':
            # (sections nest: every instance is a scope of its own - repo fix 8cf8a00, formerly finding F-C08b)
            keyed = [i for i, k in enumerate(n['kids']) if k['tag'] in ('item', 'entry')]
            for j in range(1, len(keyed)):
                def dup(x, j=j, keyed=keyed):
                    x['kids'][keyed[j]]['attrs']['n'] = x['kids'][keyed[j - 1]]['attrs']['n']
                d = copy.deepcopy(doc)
                dup(get(d, a))
                out.append(('dupkey', a + (keyed[j],), d))
    return out


_S = {}


def subject(case):
    import elementpath
    import xmlschema
    key = (case['ns'], case['version'])
    if key not in _S:
        cls = xmlschema.XMLSchema11 if case['version'] == '1.1' else xmlschema.XMLSchema10
        _S[key] = cls(schema_xsd(case['ns'], case['version']))
    s = _S[key]
    xml = render(case['doc'], case['ns'])
    if case['parser'] == 'lxml':
        import lxml.etree as LE
        src = LE.fromstring(xml.encode('utf-8'))
    elif case.get('sub') is not None:
        import xml.etree.ElementTree as ET
        src = ET.fromstring(xml)
    else:
        src = xml
    if case.get('sub') is not None:
        src = src[case['sub']]      # validate an inner element of a larger parsed document on its own
    try:
        errs = list(s.iter_errors(src))
    except Exception as e:  # noqa
        return {'exc': common.exc_class(e) + ': ' + str(e)[:100]}
    out = []
    for e in errs:
        r = {'path': e.path, 'reason': str(e.reason or '')[:80]}
        root, elem = e.root, e.elem
        if elem is None or root is None or e.path is None:
            r['no_elem'] = True
            out.append(r)
            continue
        # address of the element in the tree (identity walk)
        addr = None
        stack = [((), root)]
        while stack:
            a, n = stack.pop()
            if n is elem:
                addr = list(a)
                break
            for i, c in enumerate(n):
                if not callable(c.tag):
                    stack.append((a + (i,), c))
        r['addr'] = addr
        try:
            xp, nsmap = e.path, dict(e.namespaces or {})
            if '{' in xp:      # expanded names (a tree without prefix information): spell them with a prefix for XPath
                xp = xp.replace('{%s}' % NS, 'zz:').replace('{%s}' % WNS, 'zw:')
                nsmap['zz'] = NS
                nsmap['zw'] = WNS
            sel = elementpath.select(root, xp, namespaces=nsmap)
            r['selected'] = len(sel)
            r['selects_elem'] = len(sel) == 1 and sel[0] is elem
        except Exception as ex:  # noqa
            r['selected'] = 'EXC ' + type(ex).__name__ + ': ' + str(ex)[:60]
            r['selects_elem'] = False
        out.append(r)
    return {'errors': out, 'valid': not errs}


def coq_tree(n):
    return '(Node %s %s)' % (coq_N(TAGS[n['tag']]), coq_list([coq_tree(k) for k in n['kids']]))


def path_string(steps, ns):
    rev = {v: k for k, v in TAGS.items()}
    p = 't:' if ns else ''
    s = '/' + p + 'root'
    for g, pos in steps:
        s += '/' + ('w:' if rev[g] == 'wrap' else p) + rev[g]
        if pos is not None:
            s += '[%d]' % (pos[1] if isinstance(pos, tuple) else pos)
    return s


def evaluate(ctx, cases):
    impl = common.pool_map(subject, cases)
    terms, owner = [], []
    for ci, (c, o) in enumerate(zip(cases, impl)):
        if 'errors' not in o:
            continue
        for k, e in enumerate(o['errors']):
            if e.get('addr') is not None:
                terms.append('(getpath %s %s)' % (coq_tree(c['doc']), coq_list([str(i) for i in e['addr']])))
                owner.append((ci, k))
    model = dict(zip(owner, common.coq_eval('C19', IMPORTS, '', terms, shard=250)))
    for ci, (c, o) in enumerate(zip(cases, impl)):
        xml = render(c['doc'], c['ns'])
        rep = {'kind': 'fault', 'case': c, 'xml': xml, 'impl': o}
        if 'harness_exception' in o or 'exc' in o:
            ctx.violation('validation raised %s on %s' % (o.get('exc') or o.get('harness_exception'), xml[:200]), rep,
                          no_input='harness_exception' in o)
            continue
        ctx.count(('f', c['fault'], c['ns'], c['version'], c['parser'], xml), nontrivial=c['fault'] != 'none')
        ctx.dist('fault', c['fault'])
        problems, explor = [], []
        D = list(c['damaged']) if c['damaged'] is not None else None
        for k, e in enumerate(o['errors']):
            if e.get('no_elem'):
                problems.append('an error carries no element / path: %s' % e['reason'])
                continue
            if not e['selects_elem']:
                problems.append('error path %s selects %s node(s), not exactly the error element (%s)'
                                % (e['path'], e['selected'], e['reason']))
            m = model.get((ci, k))
            if m is not None and c.get('sub') is None:
                steps = m[1] if isinstance(m, tuple) and m[0] == 'Some' else m
                want = path_string(steps, c['ns'])
                if want != e['path']:
                    problems.append('error path %s, the model builds %s for the same node' % (e['path'], want))
            if D is not None and e.get('addr') is not None and c.get('sub') is None:
                a = e['addr']
                inside = a[:len(D)] == D or D[:len(a)] == a
                if not inside:
                    explor.append('an error is located at %s, outside the ancestor chain and subtree of the damaged node %s: %s'
                                  % (e['path'], D, e['reason']))
        if c.get('sub') is not None:
            pass    # a sub-element validated on its own: only the path property is judged
        elif c['fault'] == 'none':
            if not o['valid']:
                problems.append('the undamaged document is reported invalid: %s' % [e['reason'] for e in o['errors']][:2])
        else:
            if o['valid']:
                explor.append('the document damaged by %s at %s is reported valid' % (c['fault'], D))
            elif c['fault'] == 'altattr':
                pass    # the value is valid for the attribute itself: the errors are at the notes below (locality judged above)
            elif not any(e.get('addr') is not None and (e['addr'] == D or e['addr'] == D[:-1]) for e in o['errors']):
                explor.append('no error is located at the damaged node %s or its parent (fault %s): %s'
                              % (D, c['fault'], [(e['path'], e['reason']) for e in o['errors']][:2]))
        if problems or explor:
            ctx.violation('%s [fault %s, parser %s, XSD %s] %s' % ('; '.join((problems + explor)[:3]), c['fault'], c['parser'],
                                                                   c['version'], xml[:160]),
                          dict(rep, theorem='C19_path_unique' if problems else 'C19_single_fault_local / C19_fault_reported_at_node'))
        ctx.sample({'fault': c['fault'], 'damaged': D, 'errors': [(e['path'], e['reason']) for e in o['errors']][:3],
                    'xml': xml[:200]}, cap=5)


def gen(ctx):
    rng = ctx.rng
    cases = []
    ndocs = 6 if ctx.quick() else 80
    def sec(i, kids=()):
        return {'tag': 'section', 'attrs': {'id': 'f%d' % i}, 'text': None,
                'kids': [{'tag': 'title', 'attrs': {}, 'text': 'T', 'kids': []}] + list(kids) + [{'tag': 'note', 'attrs': {}, 'text': 'n', 'kids': []}]}
    # every section carries a note (and one a nested section with a note): what a section inherits must not reach its siblings
    fixed = {'tag': 'root', 'attrs': {}, 'text': None, 'kids': [sec(1), sec(2, [sec(3)]), sec(4)]}
    for i in range(ndocs + 2):
        doc = gen_doc(rng) if i < ndocs else fixed
        ns = bool(i % 2)
        fl = faults(doc)
        if ctx.quick() and len(fl) > 80:
            fl = rng.sample(fl, 80)
        for parser in ('default', 'lxml'):
            version = '1.1' if (i // 2) % 2 or i >= ndocs else '1.0'
            cases.append({'doc': doc, 'ns': ns, 'version': version, 'parser': parser, 'fault': 'none', 'damaged': None})
            for kind, a, d in fl:
                if kind == 'altattr' and version != '1.1':
                    continue
                if parser == 'lxml' and ctx.quick() and rng.random() < 0.6:
                    continue
                cases.append({'doc': d, 'ns': ns, 'version': version, 'parser': parser, 'fault': kind, 'damaged': list(a)})
                if len(a) >= 2 and rng.random() < 0.3:
                    # the first-level section that contains the damage, validated on its own
                    cases.append({'doc': d, 'ns': ns, 'version': version, 'parser': parser, 'fault': kind,
                                  'damaged': list(a), 'sub': a[0]})
    return cases


def run(ctx):
    ctx.rule = ('seeded valid documents (1-3 sections, nested sections, repeated paragraphs / items / tags; with and without '
                'target namespace) x every single-node fault (bad value, bad / missing / extra attribute, missing / extra / '
                'misplaced child) at every node%s x default and lxml parsers; non-trivial = a damaged document'
                % (' (sampled to 80 per document in the quick tier)' if ctx.quick() else ''))
    evaluate(ctx, gen(ctx))
    ctx.assumptions = ['fault localisation is exploration over the fault catalogue (C19 is partial there); the path theorem is '
                       'unbounded', 'lazy resources are not claimed (paths of pruned trees)',
                       'paths are evaluated with elementpath as an independent XPath engine']


def replay(ctx, case):
    evaluate(ctx, [case['case']])

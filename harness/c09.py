"""C09 - a schema means the same however its declarations are ordered, split or stored.

Seeded abstract schemas (simple / complex types, attributes, attribute groups, model groups, elements with forward
references; acyclic by construction) and the repository's corpus schemas that build offline, under arrangements:
permutation of the global declarations, 2-3 way splits into included files, location spellings (relative, dotted,
detour, absolute, file URL), import order, build twice, copy(), pickle round trip.  For each arrangement the set of
global components and the verdict / errors / decoded data of probe instances (valid and invalid) must equal the
original's.  Correspondence with Staged.v: the declaration graph is evaluated by `build_all` (C09_store_is_eval):
the built names are the declared names and permuting the graph does not change the store values (C09_permutation)."""
import copy as _copy
import glob
import json
import os
import pickle
import shutil

import common
from common import coq_list, coq_N

IMPORTS = 'From XV Require Import Base Staged.'
DEFS = 'Definition mkN (n : N) (ps : list N) : N := (n + 31 * fold_right N.add 0 ps)%N.\n'
TNS = 'urn:c09'


# ------------------------------------------------------------------ abstract schemas
def gen_schema(rng, v11=False):
    """list of declarations {'kind','name','xml','deps'}; index order is a valid (dependency-respecting) order"""
    decls = []
    st, at, ag, gr, ct, el = [], [], [], [], [], []

    def add(kind, name, xml, deps):
        decls.append({'kind': kind, 'name': name, 'xml': xml, 'deps': deps})
    for i in range(rng.randint(2, 4)):
        name = 'S%d' % i
        if st and rng.random() < 0.5:
            b = rng.choice(st)
            add('type', name, '<xs:simpleType name="%s"><xs:restriction base="t:%s"><xs:maxInclusive value="%d"/></xs:restriction></xs:simpleType>'
                % (name, b, 50 - 5 * i), [b])
        else:
            add('type', name, '<xs:simpleType name="%s"><xs:restriction base="xs:integer"><xs:maxInclusive value="%d"/></xs:restriction></xs:simpleType>'
                % (name, 100 - 5 * i), [])
        st.append(name)
    for i in range(rng.randint(1, 3)):
        name, ty = 'A%d' % i, rng.choice(st)
        add('attribute', name, '<xs:attribute name="%s" type="t:%s"/>' % (name, ty), [ty])
        at.append(name)
    agattrs = {}
    for i in range(rng.randint(1, 2)):
        name = 'AG%d' % i
        sub = [rng.choice(ag)] if ag and rng.random() < 0.4 else []
        inherited = set().union(*[agattrs[x] for x in sub]) if sub else set()
        free = [a for a in at if a not in inherited]
        refs = rng.sample(free, rng.randint(1, len(free))) if free else []
        add('attributeGroup', name, '<xs:attributeGroup name="%s">%s%s</xs:attributeGroup>'
            % (name, ''.join('<xs:attribute ref="t:%s"/>' % r for r in refs),
               ''.join('<xs:attributeGroup ref="t:%s"/>' % r for r in sub)), refs + sub)
        agattrs[name] = inherited | set(refs)
        ag.append(name)
    nlev = rng.randint(2, 4)
    for lev in range(nlev):
        # simple elements first, then a group, a complex type and an element of it
        for j in range(rng.randint(1, 2)):
            name, ty = 'e%d_%d' % (lev, j), rng.choice(st)
            add('element', name, '<xs:element name="%s" type="t:%s"/>' % (name, ty), [ty])
            el.append((name, ty, None))
        gname = 'G%d' % lev
        members = rng.sample([e[0] for e in el], min(len(el), rng.randint(1, 3)))
        add('group', gname, '<xs:group name="%s"><xs:sequence>%s</xs:sequence></xs:group>'
            % (gname, ''.join('<xs:element ref="t:%s" minOccurs="%d"/>' % (m, rng.choice([0, 1])) for m in members)), members)
        gr.append((gname, members))
        tname = 'T%d' % lev
        agref = rng.choice(ag) if rng.random() < 0.6 else None
        if ct and rng.random() < 0.4:
            base = rng.choice(ct)
            extra = 'x%d' % lev
            xty = rng.choice(st)
            add('element', extra, '<xs:element name="%s" type="t:%s"/>' % (extra, xty), [xty])
            el.append((extra, xty, None))
            add('type', tname, '<xs:complexType name="%s"><xs:complexContent><xs:extension base="t:%s"><xs:sequence>'
                '<xs:element ref="t:%s" minOccurs="0"/></xs:sequence></xs:extension></xs:complexContent></xs:complexType>'
                % (tname, base[0], extra), [base[0], extra])
            ct.append((tname, base[1] + [('elem', extra, 0)], base[2]))
        else:
            add('type', tname, '<xs:complexType name="%s"><xs:sequence><xs:group ref="t:%s"/></xs:sequence>%s</xs:complexType>'
                % (tname, gname, '<xs:attributeGroup ref="t:%s"/>' % agref if agref else ''), [gname] + ([agref] if agref else []))
            ct.append((tname, [('group', gname, 1)], agref))
        ename = 'c%d' % lev
        add('element', ename, '<xs:element name="%s" type="t:%s"/>' % (ename, tname), [tname])
        el.append((ename, tname, lev))
    ident = rng.random() < 0.7
    if ident:
        # key on the registry element, keyref on a descendant: the keyref is resolved through the global identities map
        ity = rng.choice(st)
        add('type', 'RegT', '<xs:complexType name="RegT"><xs:sequence>'
            '<xs:element name="item" maxOccurs="unbounded"><xs:complexType><xs:attribute name="id" type="t:%s"/></xs:complexType></xs:element>'
            '<xs:element name="refs"><xs:complexType><xs:sequence><xs:element name="ref" type="t:%s" minOccurs="0" maxOccurs="unbounded"/>'
            '</xs:sequence></xs:complexType><xs:keyref name="itemRef" refer="t:itemKey"><xs:selector xpath="t:ref"/><xs:field xpath="."/></xs:keyref>'
            '</xs:element></xs:sequence></xs:complexType>' % (ity, ity), [ity])
        add('element', 'reg', '<xs:element name="reg" type="t:RegT"><xs:key name="itemKey"><xs:selector xpath="t:item"/>'
            '<xs:field xpath="@id"/></xs:key></xs:element>', ['RegT'])
    wild = None
    if v11:
        # XSD 1.1: a wildcard that excludes the globally declared elements, wherever their declarations are stored
        add('type', 'WT', '<xs:complexType name="WT"><xs:sequence><xs:any notQName="##defined" processContents="lax" '
            'minOccurs="0" maxOccurs="unbounded"/></xs:sequence></xs:complexType>', [])
        add('element', 'w', '<xs:element name="w" type="t:WT"/>', ['WT'])
        wild = [e[0] for e in el if e[1].startswith('S')][:2]
    return {'decls': decls, 'root': el[-1][0], 'ident': ident, 'wild': wild}


def ident_docs():
    pat = '<t:reg xmlns:t="%s"><t:item id="1"/><t:item id="%s"/><t:refs><t:ref>%s</t:ref></t:refs></t:reg>'
    return [pat % (TNS, 2, 1), pat % (TNS, 2, 7), pat % (TNS, 1, 1)]


def render_file(decls, includes=()):
    inc = ''.join('<xs:include schemaLocation="%s"/>' % loc for loc in includes)
    return ('<xs:schema xmlns:xs="http://www.w3.org/2001/XMLSchema" targetNamespace="%s" xmlns:t="%s" '
            'elementFormDefault="qualified">%s%s</xs:schema>' % (TNS, TNS, inc, ''.join(d['xml'] for d in decls)))


def gen_instance(schema, rng, invalid=False):
    """a document for the root element following the abstract schema (generated, so validity is known)"""
    decls = {d['name']: d for d in schema['decls']}

    def elem(name):
        d = decls[name]
        ty = d['deps'][0]
        if ty.startswith('S'):
            return '<t:%s>%d</t:%s>' % (name, rng.randint(0, 20), name)
        return '<t:%s>%s</t:%s>' % (name, content(ty), name)

    def content(tname):
        d = decls[tname]
        out = ''
        if 'extension' in d['xml']:
            out += content(d['deps'][0])
            out += elem(d['deps'][1]) if rng.random() < 0.5 else ''
            return out
        g = decls[d['deps'][0]]
        import re
        for m, mn in re.findall(r'ref="t:([a-z0-9_]+)" minOccurs="(\d)"', g['xml']):
            if mn == '1' or rng.random() < 0.6:
                out += elem(m)
        return out
    doc = '<t:%s xmlns:t="%s">%s</t:%s>' % (schema['root'], TNS, content(decls[schema['root']]['deps'][0]), schema['root'])
    if invalid:
        import re
        nums = list(re.finditer(r'>(\d+)<', doc))
        if nums and rng.random() < 0.7:
            m = rng.choice(nums)
            doc = doc[:m.start(1)] + rng.choice(['x', '100000', '1.5']) + doc[m.end(1):]
        else:
            doc = doc.replace('</t:%s>' % schema['root'], '<t:bogus/></t:%s>' % schema['root'])
    return doc


# ------------------------------------------------------------------ arrangements
def arrangements(schema, rng, d):
    """write each arrangement into directory d/<k>/ and return [(label, main path)]"""
    out = []
    decls = schema['decls']

    def mk(label, files, main='main.xsd'):
        sub = os.path.join(d, label)
        os.makedirs(sub, exist_ok=True)
        for rel, text in files.items():
            p = os.path.join(sub, rel)
            os.makedirs(os.path.dirname(p), exist_ok=True)
            with open(p, 'w') as f:
                f.write(text)
        out.append((label, os.path.join(sub, main)))
    mk('original', {'main.xsd': render_file(decls)})
    for k in range(2):
        perm = decls[:]
        rng.shuffle(perm)
        mk('perm%d' % k, {'main.xsd': render_file(perm)})
    mk('reversed', {'main.xsd': render_file(decls[::-1])})
    # splits into include files of the same namespace, with different location spellings
    perm = decls[:]
    rng.shuffle(perm)
    cut = len(perm) // 2
    a, b = perm[:cut], perm[cut:]
    sub = os.path.join(d, 'split_abs')
    spell = {'split_rel': 'inc/part.xsd', 'split_dot': './inc/./part.xsd', 'split_detour': 'inc/x/../part.xsd',
             'split_abs': None, 'split_url': None}
    for label, loc in spell.items():
        subdir = os.path.join(d, label)
        if loc is None:
            loc = os.path.join(subdir, 'inc', 'part.xsd')
            if label == 'split_url':
                loc = 'file://' + loc
        mk(label, {'main.xsd': render_file(a, [loc]), 'inc/part.xsd': render_file(b), 'inc/x/.keep': ''})
    third = len(perm) // 3
    a, b, c = perm[:third], perm[third:2 * third], perm[2 * third:]
    mk('split3', {'main.xsd': render_file(a, ['p1.xsd', 'p2.xsd']), 'p1.xsd': render_file(b), 'p2.xsd': render_file(c, ['p1.xsd'])})
    mk('split3_chain', {'main.xsd': render_file(c, ['p1.xsd']), 'p1.xsd': render_file(a, ['p2.xsd']), 'p2.xsd': render_file(b)})
    # a nested include resolved against the including document's directory; an unrelated file with the same name sits next to
    # the main document; the main document is loaded by path, by path + base_url option, and as text + base_url option
    nested = {'main.xsd': render_file(c, ['parts/p1.xsd']), 'parts/p1.xsd': render_file(a, ['p2.xsd']), 'parts/p2.xsd': render_file(b),
              'p2.xsd': render_file([])}
    mk('nested_dirs', nested)
    mk('nested_dirs_baseurl', nested)
    mk('nested_dirs_text', nested)
    return out


def observe(schema, docs):
    import xmlschema
    g = {
        'types': sorted(schema.types), 'elements': sorted(schema.elements),
        'attributes': sorted(schema.attributes), 'groups': sorted(schema.groups),
        'attribute_groups': sorted(schema.attribute_groups), 'identities': sorted(schema.maps.identities),
    }
    owned = {id(i) for e in schema.maps.iter_components(xmlschema.validators.XsdElement) for i in e.identities}
    g['identities_owned'] = all(id(i) in owned for i in schema.maps.identities.values())
    res = []
    for x in docs:
        errs = sorted(' '.join(str(e.reason or '').split())[:60] for e in schema.iter_errors(x))
        try:
            data = json.dumps(schema.decode(x, validation='lax')[0], sort_keys=True, default=str)
        except Exception as e:  # noqa
            data = 'EXC ' + common.exc_class(e)
        res.append([schema.is_valid(x), errs, data])
    return {'globals': g, 'probes': res}


def subject(case):
    import random
    import xmlschema
    rng = random.Random(case['seed'])
    d = os.path.join(str(common.BUILD), 'tmp', 'c09_%d_%d' % (os.getpid(), case['seed']))
    shutil.rmtree(d, ignore_errors=True)
    os.makedirs(d)
    cls = xmlschema.XMLSchema11 if case['version'] == '1.1' else xmlschema.XMLSchema10
    out = {}
    try:
        for label, main in arrangements(case['schema'], rng, d):
            try:
                if label == 'nested_dirs_baseurl':
                    s = cls(main, base_url=os.path.dirname(main))
                elif label == 'nested_dirs_text':
                    s = cls(open(main).read(), base_url=os.path.dirname(main))
                else:
                    s = cls(main)
                fresh_copy = _copy.copy(s) if label == 'original' else None     # copied before any use
                out[label] = observe(s, case['docs'])
                if label == 'original':
                    def rebuilt():
                        s2 = cls(main)
                        s2.maps.clear()
                        s2.build()
                        return s2

                    def after_add():
                        s3 = cls(main)
                        s3.add_schema('<xs:schema xmlns:xs="http://www.w3.org/2001/XMLSchema" targetNamespace="urn:c09:other">'
                                      '<xs:element name="other" type="xs:string"/></xs:schema>', namespace='urn:c09:other', build=True)
                        return s3
                    for lab2, fn in (('rebuilt', rebuilt), ('rebuilt_after_add', after_add), ('copy', lambda: _copy.copy(s)), ('copy_fresh', lambda: fresh_copy),
                                     ('pickle', lambda: pickle.loads(pickle.dumps(s)))):
                        try:
                            out[lab2] = observe(fn(), case['docs'])
                        except Exception as e:  # noqa
                            out[lab2] = {'exc': common.exc_class(e) + ': ' + ' '.join(str(e).split())[:160]}
            except Exception as e:  # noqa
                out[label] = {'exc': common.exc_class(e) + ': ' + ' '.join(str(e).split())[:160]}
    finally:
        shutil.rmtree(d, ignore_errors=True)
    return out


def coq_graph(schema, order=None):
    names = {d['name']: i + 1 for i, d in enumerate(schema['decls'])}
    decls = schema['decls'] if order is None else order
    return coq_list(['{| d_name := %s; d_deps := %s |}' % (coq_N(names[d['name']]), coq_list([coq_N(names[x]) for x in d['deps']]))
                     for d in decls]), names


def evaluate(ctx, cases):
    impl = common.pool_map(subject, cases, procs=min(common.NPROC, 8))
    terms = []
    for c in cases:
        g, names = coq_graph(c['schema'])
        grev, _ = coq_graph(c['schema'], c['schema']['decls'][::-1])
        allnames = coq_list([coq_N(i) for i in names.values()])
        terms.append('(let ds := %s in let ds2 := %s in let names := %s in '
                     '(match build_all N mkN 50 ds names [] with Some s => Some (length s) | None => None end, '
                     'forallb (fun n => match eval N mkN 50 ds n, eval N mkN 50 ds2 n with Some a, Some b => N.eqb a b | _, _ => false end) names))'
                     % (g, grev, allnames))
    model = common.coq_eval('C09', IMPORTS, DEFS, terms, shard=40)
    for c, o, m in zip(cases, impl, model):
        rep = {'kind': 'schema', 'case': c}
        if 'harness_exception' in o:
            ctx.violation('subject failed: %s' % o['harness_exception'], rep, no_input=True)
            continue
        ref = o.get('original', {})
        if 'exc' in ref:
            ctx.violation('the generated schema does not build: %s' % ref['exc'], dict(rep, impl=ref), no_input=True)
            continue
        nbuilt, perm_equal = m
        nbuilt = nbuilt[1] if isinstance(nbuilt, tuple) else nbuilt
        nglob = sum(len(v) for k, v in ref['globals'].items() if k not in ('identities', 'identities_owned'))
        aux = []
        if nbuilt != len(c['schema']['decls']) or nbuilt != nglob or not perm_equal:
            aux.append('model builds %s components (order independent: %s), the schema has %d global components for %d declarations'
                       % (nbuilt, perm_equal, nglob, len(c['schema']['decls'])))
        problems = []
        for label, r in o.items():
            if label == 'original':
                continue
            ctx.count(('arr', c['seed'], c['version'], label), nontrivial=True)
            ctx.dist('arrangement', label)
            if 'exc' in r and label == 'copy_fresh' and 'XMLSchemaNotBuiltError' in r['exc']:
                ctx.known_finding('F-C09a')
            elif 'exc' in r:
                problems.append('%s: %s' % (label, r['exc']))
            elif r['globals'] != ref['globals']:
                diff = {k: (sorted(set(v) ^ set(ref['globals'][k])) if isinstance(v, list) else v) for k, v in r['globals'].items() if v != ref['globals'][k]}
                problems.append('%s: global components differ %s' % (label, str(diff)[:150]))
            elif r['probes'] != ref['probes']:
                i = next(i for i, (a, b) in enumerate(zip(r['probes'], ref['probes'])) if a != b)
                problems.append('%s: probe %d gives %s, original arrangement %s' % (label, i, str(r['probes'][i])[:120], str(ref['probes'][i])[:120]))
        if problems or aux:
            ctx.violation('%s [XSD %s, %d declarations]' % ('; '.join((problems or aux)[:3]), c['version'], len(c['schema']['decls'])),
                          dict(rep, theorem='C09_permutation / C09_split / C09_store_is_eval'), no_input=not problems)
        ctx.sample({'declarations': [d['name'] for d in c['schema']['decls']], 'root': c['schema']['root'],
                    'probe_verdicts': [p[0] for p in ref['probes']]}, cap=4)


# ------------------------------------------------------------------ corpus schemas: build twice / copy / pickle / permute includes
def subject_corpus(case):
    import warnings
    import xmlschema
    warnings.simplefilter('ignore')
    path = case['path']
    cls = xmlschema.XMLSchema11 if case['version'] == '1.1' else xmlschema.XMLSchema10
    out = {}
    try:
        s = cls(path)
    except Exception as e:  # noqa
        return {'skip': common.exc_class(e)}

    def glob_names(x):
        return sorted('%s %s' % (type(c).__name__, c.name) for c in x.maps.iter_globals() if c.name)
    try:
        out['original'] = glob_names(s)
        s2 = cls(path)
        s2.maps.clear()
        s2.build()
        out['rebuilt'] = glob_names(s2)
        out['copy'] = glob_names(_copy.copy(s))
        try:
            out['pickle'] = glob_names(pickle.loads(pickle.dumps(s)))
        except Exception as e:  # noqa
            out['pickle'] = 'EXC ' + common.exc_class(e) + ': ' + str(e)[:80]
        # the same file reached through another spelling of its location
        d, b = os.path.split(path)
        out['spelled'] = glob_names(cls(os.path.join(d, '.', os.path.basename(d), '..', b)))
        out['url'] = glob_names(cls('file://' + path))
    except Exception as e:  # noqa
        out['exc'] = common.exc_class(e) + ': ' + str(e)[:120]
    return out


def check_corpus(ctx):
    base = os.path.join(str(common.REPO), 'tests', 'test_cases')
    paths = sorted(glob.glob(os.path.join(base, '**', '*.xsd'), recursive=True))
    if ctx.quick():
        paths = ctx.rng.sample(paths, min(len(paths), 60))
    cases = [{'path': p, 'version': '1.0'} for p in paths]
    impl = common.pool_map(subject_corpus, cases)
    for c, o in zip(cases, impl):
        if 'skip' in o or 'harness_exception' in o:
            ctx.dist('corpus', 'does not build / skipped')
            continue
        ctx.count(('corpus', c['path']), nontrivial=len(o.get('original', [])) > 3)
        ctx.dist('corpus', 'checked')
        if 'exc' in o:
            ctx.violation('corpus schema %s: %s' % (os.path.relpath(c['path'], base), o['exc']), {'kind': 'corpus', 'case': c, 'impl': o})
            continue
        for k in ('rebuilt', 'copy', 'pickle', 'spelled', 'url'):
            if o[k] != o['original']:
                ctx.violation('corpus schema %s: global components after %s differ from the first build: %s'
                              % (os.path.relpath(c['path'], base), k, str(o[k])[:150] if isinstance(o[k], str) else
                                 sorted(set(o[k]) ^ set(o['original']))[:4]), {'kind': 'corpus', 'case': c})
                break


# ------------------------------------------------------------------ xs:redefine / xs:override: location spellings and splits of the base
RD_HEAD = ('<xs:schema xmlns:xs="http://www.w3.org/2001/XMLSchema" targetNamespace="urn:c09r" xmlns:t="urn:c09r" '
           'elementFormDefault="qualified">')
RD_BASE = {
    'T': '<xs:complexType name="T"><xs:sequence><xs:element name="a" type="t:ST"/><xs:group ref="t:G" minOccurs="0"/></xs:sequence>'
         '<xs:attributeGroup ref="t:AG"/></xs:complexType>',
    'ST': '<xs:simpleType name="ST"><xs:restriction base="xs:string"><xs:maxLength value="5"/></xs:restriction></xs:simpleType>',
    'G': '<xs:group name="G"><xs:sequence><xs:element name="g" type="xs:int"/></xs:sequence></xs:group>',
    'AG': '<xs:attributeGroup name="AG"><xs:attribute name="p" type="xs:int"/></xs:attributeGroup>',
    'root': '<xs:element name="root" type="t:T"/>',
}
RD_REDEF = {
    'T': '<xs:complexType name="T"><xs:complexContent><xs:extension base="t:T"><xs:sequence><xs:element name="b" type="xs:int"/>'
         '</xs:sequence></xs:extension></xs:complexContent></xs:complexType>',
    'ST': '<xs:simpleType name="ST"><xs:restriction base="t:ST"><xs:maxLength value="2"/></xs:restriction></xs:simpleType>',
    'G': '<xs:group name="G"><xs:sequence><xs:group ref="t:G"/><xs:element name="h" type="xs:int"/></xs:sequence></xs:group>',
    'AG': '<xs:attributeGroup name="AG"><xs:attributeGroup ref="t:AG"/><xs:attribute name="q" type="xs:int"/></xs:attributeGroup>',
}
RD_REDEF['ZZ'] = ('<xs:complexType name="ZZ"><xs:complexContent><xs:extension base="t:ZZ"><xs:sequence><xs:element name="z" type="xs:int"/>'
                  '</xs:sequence></xs:extension></xs:complexContent></xs:complexType>')     # not declared by the redefined schema
RD_CODE = {'T': 1, 'ST': 2, 'G': 3, 'AG': 4, 'root': 5, 'ZZ': 6}
RD_OVER = {
    'T': '<xs:complexType name="T"><xs:sequence><xs:element name="a" type="t:ST"/><xs:element name="b" type="xs:int"/></xs:sequence>'
         '<xs:attributeGroup ref="t:AG"/></xs:complexType>',
    'ST': '<xs:simpleType name="ST"><xs:restriction base="xs:string"><xs:maxLength value="2"/></xs:restriction></xs:simpleType>',
    'G': '<xs:group name="G"><xs:sequence><xs:element name="g" type="xs:int"/><xs:element name="h" type="xs:int"/></xs:sequence></xs:group>',
    'AG': '<xs:attributeGroup name="AG"><xs:attribute name="p" type="xs:int"/><xs:attribute name="q" type="xs:int"/></xs:attributeGroup>',
}
RD_DOCS = ['<t:root xmlns:t="urn:c09r"%s>%s</t:root>' % (at, body)
           for at in ('', ' p="1"', ' q="2"', ' p="1" q="x"')
           for body in ('<t:a>xy</t:a>', '<t:a>xyz</t:a>', '<t:a>x</t:a><t:b>1</t:b>', '<t:a>x</t:a><t:g>1</t:g>', '<t:a>x</t:a><t:g>1</t:g><t:h>2</t:h>',
                        '<t:a>xyzuvw</t:a><t:g>1</t:g><t:h>2</t:h><t:b>3</t:b>', '<t:a>x</t:a><t:g>1</t:g><t:h>2</t:h><t:b>3</t:b>')]
RD_SPELL = ['base.xsd', './base.xsd', 'x/../base.xsd', ' base.xsd', 'base.xsd ', '\n      base.xsd\n    ', 'ABS', 'URL']


def rd_files(case, d):
    """the files of one arrangement: main redefines / overrides some components of the base schema"""
    tag = case['kind']
    comps = (RD_REDEF if tag == 'redefine' else RD_OVER)
    loc = case['spelling']
    if loc == 'ABS':
        loc = os.path.join(d, 'base.xsd')
    elif loc == 'URL':
        loc = 'file://' + os.path.join(d, 'base.xsd')
    main = '%s<xs:%s schemaLocation="%s">%s</xs:%s><xs:element name="other" type="t:ST"/></xs:schema>' % (
        RD_HEAD, tag, loc, ''.join(comps[n] for n in case['redefs']), tag)
    order = case['order']
    files = {'main.xsd': main, 'x/.keep': ''}
    split = case['split']
    if split == 'single':
        files['base.xsd'] = RD_HEAD + ''.join(RD_BASE[n] for n in order) + '</xs:schema>'
    elif split == 'include':       # the declarations of the redefined schema sit in a document that base.xsd includes
        cut = case['cut']
        files['base.xsd'] = RD_HEAD + '<xs:include schemaLocation="parts.xsd"/>' + ''.join(RD_BASE[n] for n in order[:cut]) + '</xs:schema>'
        files['parts.xsd'] = RD_HEAD + ''.join(RD_BASE[n] for n in order[cut:]) + '</xs:schema>'
    else:                           # nested include
        cut = case['cut']
        files['base.xsd'] = RD_HEAD + '<xs:include schemaLocation="p1.xsd"/>' + ''.join(RD_BASE[n] for n in order[:cut]) + '</xs:schema>'
        files['p1.xsd'] = RD_HEAD + '<xs:include schemaLocation="p2.xsd"/>' + '</xs:schema>'
        files['p2.xsd'] = RD_HEAD + ''.join(RD_BASE[n] for n in order[cut:]) + '</xs:schema>'
    return files


def rd_model_term(case):
    """Redefine.assemble on the abstract arrangement: are the redefinitions accepted?"""
    def decls(names):
        return coq_list(['{| d_name := %s; d_deps := [] |}' % coq_N(RD_CODE[n]) for n in names])
    order, cut = case['order'], case['cut']
    if case['split'] == 'single':
        doc = 'Doc %s []' % decls(order)
    elif case['split'] == 'include':
        doc = 'Doc %s [Doc %s []]' % (decls(order[:cut]), decls(order[cut:]))
    else:
        doc = 'Doc %s [Doc [] [Doc %s []]]' % (decls(order[:cut]), decls(order[cut:]))
    return '(match assemble (%s) %s with Some _ => true | None => false end)' % (doc, decls(case['redefs']))


def subject_redefine(case):
    import warnings
    import xmlschema
    warnings.simplefilter('ignore')
    d = os.path.join(str(common.BUILD), 'tmp', 'c09_rd_%d_%d' % (os.getpid(), case['n']))
    shutil.rmtree(d, ignore_errors=True)
    cls = xmlschema.XMLSchema11 if case['version'] == '1.1' else xmlschema.XMLSchema10
    try:
        for rel, text in rd_files(case, d).items():
            p = os.path.join(d, rel)
            os.makedirs(os.path.dirname(p), exist_ok=True)
            with open(p, 'w') as f:
                f.write(text)
        try:
            s = cls(os.path.join(d, 'main.xsd'))
        except Exception as e:  # noqa
            return {'exc': common.exc_class(e) + ': ' + ' '.join(str(e).split())[:160]}
        out = observe(s, RD_DOCS)
        t = s.maps.types['{urn:c09r}T']
        out['globals']['content of T'] = [e.local_name for e in t.content.iter_elements()]
        out['globals']['attributes of T'] = sorted(str(k) for k in t.attributes)
        return out
    finally:
        shutil.rmtree(d, ignore_errors=True)


def check_redefine(ctx):
    rng = ctx.rng
    names = list(RD_BASE)
    cases = []
    variants = [('redefine', '1.0'), ('redefine', '1.1'), ('override', '1.1')]
    subsets = [['T'], ['ST'], ['G'], ['AG'], ['T', 'ST'], ['G', 'AG', 'ST'], ['T', 'ST', 'G', 'AG']]
    for kind, version in variants:
        # (xs:redefine only) a component that the redefined schema does not declare: "not a redefinition"
        extra = [['ZZ'], ['T', 'ZZ']] if kind == 'redefine' else []
        for redefs in (subsets + extra if not ctx.quick() else rng.sample(subsets, 3) + extra[:1]):
            ref = {'kind': kind, 'version': version, 'redefs': redefs, 'spelling': 'base.xsd', 'order': names, 'split': 'single', 'cut': 0}
            group = [ref]
            for sp in RD_SPELL[1:]:
                group.append(dict(ref, spelling=sp))
            for _ in range(3 if ctx.quick() else 8):
                order = names[:]
                rng.shuffle(order)
                group.append(dict(ref, order=order, split=rng.choice(['single', 'include', 'nested']), cut=rng.randrange(0, len(names)),
                                  spelling=rng.choice(RD_SPELL)))
            # every redefined component in the included part
            moved = [n for n in redefs if n in names]
            order = [n for n in names if n not in moved] + moved
            group.append(dict(ref, order=order, split='include', cut=len(names) - len(moved)))
            group.append(dict(ref, order=order, split='nested', cut=len(names) - len(moved)))
            cases.append(group)
    flat = [dict(c, n=i) for i, c in enumerate(c for g in cases for c in g)]
    impl = common.pool_map(subject_redefine, flat, procs=min(common.NPROC, 8))
    model = common.coq_eval('C09r', 'From XV Require Import Base Staged Redefine.', '', [rd_model_term(c) for c in flat], shard=200)
    k = 0
    for group in cases:
        res = impl[k:k + len(group)]
        mod = model[k:k + len(group)]
        k += len(group)
        ref_case, ref = group[0], res[0]
        what = 'xs:%s of %s (XSD %s)' % (ref_case['kind'], '+'.join(ref_case['redefs']), ref_case['version'])
        if not all(mod) or 'ZZ' in ref_case['redefs']:
            # the model refuses the redefinitions (a name that the redefined schema does not stage): every arrangement
            # must refuse them as well
            for c, r, m in zip(group, res, mod):
                ctx.count(('redef', json.dumps(c, sort_keys=True)), nontrivial=True)
                ctx.dist('arrangement', 'redefine of an undeclared component: ' + ('refused' if 'exc' in r else 'accepted'))
                if m or 'exc' not in r or 'harness_exception' in r:
                    ctx.violation('%s: location %r, base %s: the model %s the redefinitions, the schema build %s'
                                  % (what, c['spelling'], c['split'], 'accepts' if m else 'refuses',
                                     'fails: ' + r['exc'] if 'exc' in r else 'succeeds'),
                                  {'kind': 'redefine', 'case': c, 'files': rd_files(c, '<dir>'), 'theorem': 'C09_redefine_arrangement'},
                                  no_input=bool(m))
            continue
        if 'exc' in ref or 'harness_exception' in ref:
            ctx.violation('%s: the reference arrangement does not build: %s' % (what, ref.get('exc') or ref.get('harness_exception')),
                          {'kind': 'redefine', 'case': ref_case, 'impl': ref}, no_input=True)
            continue
        for c, r in zip(group[1:], res[1:]):
            arr = 'location %r, base %s%s' % (c['spelling'], c['split'], '' if c['split'] == 'single' else ' (%s in the included part)' % '+'.join(c['order'][c['cut']:]))
            ctx.count(('redef', json.dumps(c, sort_keys=True)), nontrivial=True)
            ctx.dist('arrangement', 'redefine/override: ' + ('spelling' if c['split'] == 'single' and c['order'] == names else c['split']))
            rep = {'kind': 'redefine', 'case': c, 'reference': ref_case, 'files': rd_files(c, '<dir>')}
            if 'exc' in r or 'harness_exception' in r:
                ctx.violation('%s: %s fails: %s' % (what, arr, r.get('exc') or r.get('harness_exception')), dict(rep, impl=r))
            elif r['globals'] != ref['globals']:
                diff = {kk: v for kk, v in r['globals'].items() if v != ref['globals'][kk]}
                ctx.violation('%s: %s gives other global components: %s (reference %s)'
                              % (what, arr, str(diff)[:150], str({kk: ref['globals'][kk] for kk in diff})[:150]), rep)
            elif r['probes'] != ref['probes']:
                i = next(i for i, (a, b) in enumerate(zip(r['probes'], ref['probes'])) if a != b)
                ctx.violation('%s: %s: %s gives %s, reference arrangement %s' % (what, arr, RD_DOCS[i], str(r['probes'][i])[:100], str(ref['probes'][i])[:100]), rep)


# ------------------------------------------------------------------ a document used both as chameleon include and as import of no namespace
CH_FILES = {
    'cham.xsd': '<xs:schema xmlns:xs="http://www.w3.org/2001/XMLSchema"><xs:simpleType name="Code"><xs:restriction base="xs:string">'
                '<xs:pattern value="[A-Z]{3}"/></xs:restriction></xs:simpleType><xs:element name="code" type="Code"/></xs:schema>',
    'a.xsd': '<xs:schema xmlns:xs="http://www.w3.org/2001/XMLSchema" targetNamespace="urn:a" xmlns:a="urn:a" elementFormDefault="qualified">'
             '<xs:include schemaLocation="%(cham)s"/><xs:element name="item" type="a:Code"/></xs:schema>',
    'main.xsd': '<xs:schema xmlns:xs="http://www.w3.org/2001/XMLSchema" targetNamespace="urn:m" xmlns:m="urn:m" xmlns:a="urn:a" '
                'elementFormDefault="qualified">%(imports)s<xs:element name="root"><xs:complexType><xs:sequence><xs:element ref="a:item"/>'
                '<xs:element ref="code"/><xs:element name="local" type="Code"/></xs:sequence></xs:complexType></xs:element></xs:schema>',
}
CH_DOCS = ['<m:root xmlns:m="urn:m" xmlns:a="urn:a"><a:item>ABC</a:item><code>DEF</code><m:local>GHI</m:local></m:root>',
           '<m:root xmlns:m="urn:m" xmlns:a="urn:a"><a:item>abc</a:item><code>DEF1</code><m:local>GHI</m:local></m:root>',
           '<m:root xmlns:m="urn:m" xmlns:a="urn:a"><a:item>ABC</a:item><a:code>DEF</a:code><m:local>GHI</m:local></m:root>']


def subject_chameleon(case):
    import warnings
    import xmlschema
    warnings.simplefilter('ignore')
    d = os.path.join(str(common.BUILD), 'tmp', 'c09_ch_%d_%d' % (os.getpid(), case['n']))
    shutil.rmtree(d, ignore_errors=True)
    os.makedirs(d)
    cls = xmlschema.XMLSchema11 if case['version'] == '1.1' else xmlschema.XMLSchema10
    imps = {'a': '<xs:import namespace="urn:a" schemaLocation="%s"/>' % case['a_loc'],
            'n': '<xs:import schemaLocation="%s"/>' % case['cham_loc']}
    try:
        for name, text in CH_FILES.items():
            with open(os.path.join(d, name), 'w') as f:
                f.write(text % {'cham': case['inc_loc'], 'imports': ''.join(imps[k] for k in case['order'])})
        try:
            s = cls(os.path.join(d, 'main.xsd'))
        except Exception as e:  # noqa
            return {'exc': common.exc_class(e) + ': ' + ' '.join(str(e).split())[:160]}
        out = observe(s, CH_DOCS)
        skip = ('{http://www.w3.org/2001/XMLSchema', '{http://www.w3.org/XML/1998/namespace}', '{http://www.w3.org/2001/XMLSchema-instance}')
        out['globals']['all namespaces'] = sorted('%s %s' % (type(c).__name__, c.name) for c in s.maps.iter_globals()
                                                  if c.name and not c.name.startswith(skip))
        out['globals']['documents'] = {ns: sorted(os.path.basename(x.url or '') for x in lst) for ns, lst in s.maps.namespaces.items()
                                       if ns in ('', 'urn:a', 'urn:m')}
        return out
    finally:
        shutil.rmtree(d, ignore_errors=True)


def check_chameleon(ctx):
    cases = []
    for version in ('1.0', '1.1'):
        ref = {'version': version, 'order': 'na', 'a_loc': 'a.xsd', 'cham_loc': 'cham.xsd', 'inc_loc': 'cham.xsd'}
        group = [ref, dict(ref, order='an'), dict(ref, order='an', cham_loc='./cham.xsd'), dict(ref, order='an', inc_loc='./cham.xsd'),
                 dict(ref, order='na', a_loc='x/../a.xsd', inc_loc='x/../cham.xsd'), dict(ref, order='an', a_loc='./a.xsd', cham_loc='x/../cham.xsd')]
        cases.append(group)
    flat = [dict(c, n=i) for i, c in enumerate(c for g in cases for c in g)]
    impl = common.pool_map(subject_chameleon, flat, procs=4)
    k = 0
    for group in cases:
        res = impl[k:k + len(group)]
        k += len(group)
        ref = res[0]
        for c, r in zip(group[1:], res[1:]):
            ctx.count(('chameleon', json.dumps(c, sort_keys=True)), nontrivial=True)
            ctx.dist('arrangement', 'chameleon include + import of no namespace')
            rep = {'kind': 'chameleon', 'case': c, 'reference': group[0], 'files': CH_FILES}
            arr = 'imports in the order %s, locations %s / %s / %s (XSD %s)' % (
                '+'.join({'a': 'urn:a', 'n': 'no namespace'}[x] for x in c['order']), c['a_loc'], c['cham_loc'], c['inc_loc'], c['version'])
            if ('exc' in r) != ('exc' in ref) or 'harness_exception' in r:
                ctx.violation('a document included as chameleon and imported for no namespace: %s %s, the reference arrangement %s'
                              % (arr, 'fails: ' + str(r.get('exc') or r.get('harness_exception')), 'fails' if 'exc' in ref else 'builds'), rep)
            elif 'exc' in r:
                continue
            elif r['globals'] != ref['globals']:
                diff = {kk: v for kk, v in r['globals'].items() if v != ref['globals'][kk]}
                ctx.violation('a document included as chameleon and imported for no namespace: %s gives other global components %s (reference %s)'
                              % (arr, str(diff)[:160], str({kk: ref['globals'][kk] for kk in diff})[:160]), rep)
            elif r['probes'] != ref['probes']:
                i = next(i for i, (a, b) in enumerate(zip(r['probes'], ref['probes'])) if a != b)
                ctx.violation('a document included as chameleon and imported for no namespace: %s: %s gives %s, reference %s'
                              % (arr, CH_DOCS[i], str(r['probes'][i])[:100], str(ref['probes'][i])[:100]), rep)


# ------------------------------------------------------------------ XSD 1.1 defaultAttributes across documents
DA_HEAD = ('<xs:schema xmlns:xs="http://www.w3.org/2001/XMLSchema" targetNamespace="urn:c09d" xmlns:t="urn:c09d" '
           'elementFormDefault="qualified"%s>%s')
DA_DECLS = {
    'DA': '<xs:attributeGroup name="DA"><xs:attribute name="da" type="xs:int"/></xs:attributeGroup>',
    'T': '<xs:complexType name="T"><xs:sequence><xs:element name="x" type="xs:string" minOccurs="0"/></xs:sequence></xs:complexType>',
    'U': '<xs:complexType name="U" defaultAttributesApply="false"><xs:complexContent><xs:extension base="t:T"><xs:attribute name="u" type="xs:int"/></xs:extension>'
         '</xs:complexContent></xs:complexType>',
    'root': '<xs:element name="root" type="t:T"/>', 'root2': '<xs:element name="root2" type="t:U"/>',
}
DA_DOCS = ['<t:root xmlns:t="urn:c09d" da="5"/>', '<t:root xmlns:t="urn:c09d" da="x"/>', '<t:root xmlns:t="urn:c09d"/>',
           '<t:root2 xmlns:t="urn:c09d" da="5" u="1"/>', '<t:root2 xmlns:t="urn:c09d" da="x" u="1"/>', '<t:root xmlns:t="urn:c09d" zz="1"/>']


def subject_default_attrs(case):
    import warnings
    import xmlschema
    warnings.simplefilter('ignore')
    d = os.path.join(str(common.BUILD), 'tmp', 'c09_da_%d_%d' % (os.getpid(), case['n']))
    shutil.rmtree(d, ignore_errors=True)
    os.makedirs(d)
    attr = ' defaultAttributes="t:DA"'
    try:
        main, inc = case['main'], case['inc']
        with open(os.path.join(d, 'main.xsd'), 'w') as f:
            f.write(DA_HEAD % (attr, ('<xs:include schemaLocation="%s"/>' % case['loc'] if inc else '') +
                               ''.join(DA_DECLS[n] for n in main) + '</xs:schema>'))
        if inc:
            with open(os.path.join(d, 'inc.xsd'), 'w') as f:
                f.write(DA_HEAD % (attr, ''.join(DA_DECLS[n] for n in inc) + '</xs:schema>'))
        try:
            s = xmlschema.XMLSchema11(os.path.join(d, 'main.xsd'))
            out = observe(s, DA_DOCS)
            out['globals']['attributes of T'] = sorted(str(k) for k in s.types['T'].attributes)
            out['globals']['attributes of U'] = sorted(str(k) for k in s.types['U'].attributes)
            if case.get('rebuild'):
                s.maps.clear()
                s.build()
                out2 = observe(s, DA_DOCS)
                out2['globals']['attributes of T'] = sorted(str(k) for k in s.types['T'].attributes)
                out2['globals']['attributes of U'] = sorted(str(k) for k in s.types['U'].attributes)
                out = out2
            return out
        except Exception as e:  # noqa
            return {'exc': common.exc_class(e) + ': ' + ' '.join(str(e).split())[:160]}
    finally:
        shutil.rmtree(d, ignore_errors=True)


def check_default_attrs(ctx):
    rng = ctx.rng
    names = list(DA_DECLS)
    ref = {'main': names, 'inc': [], 'loc': 'inc.xsd'}
    group = [ref, dict(ref, main=names[::-1]), dict(ref, rebuild=True)]
    for _ in range(6 if ctx.quick() else 40):
        order = names[:]
        rng.shuffle(order)
        cut = rng.randrange(1, len(order))
        group.append({'main': order[:cut], 'inc': order[cut:], 'loc': rng.choice(['inc.xsd', './inc.xsd']), 'rebuild': rng.random() < 0.3})
    # the attribute group and the complex types in different documents, either way round
    group.append({'main': ['T', 'U', 'root', 'root2'], 'inc': ['DA'], 'loc': 'inc.xsd'})
    group.append({'main': ['DA', 'root', 'root2'], 'inc': ['T', 'U'], 'loc': 'inc.xsd'})
    flat = [dict(c, n=i) for i, c in enumerate(group)]
    res = common.pool_map(subject_default_attrs, flat, procs=4)
    r0 = res[0]
    if 'exc' in r0 or 'harness_exception' in r0:
        ctx.violation('XSD 1.1 defaultAttributes: the reference arrangement does not build: %s' % (r0.get('exc') or r0.get('harness_exception')),
                      {'kind': 'default-attrs', 'case': ref}, no_input=True)
        return
    for c, r in zip(group[1:], res[1:]):
        ctx.count(('default-attrs', json.dumps(c, sort_keys=True)), nontrivial=True)
        ctx.dist('arrangement', 'XSD 1.1 defaultAttributes: ' + ('split' if c['inc'] else 'single document') + (' + rebuild' if c.get('rebuild') else ''))
        arr = 'main document %s, included %s%s' % ('+'.join(c['main']), '+'.join(c['inc']) or 'nothing', ', built twice' if c.get('rebuild') else '')
        rep = {'kind': 'default-attrs', 'case': c}
        if 'exc' in r or 'harness_exception' in r:
            ctx.violation('XSD 1.1 defaultAttributes: %s fails: %s' % (arr, r.get('exc') or r.get('harness_exception')), rep)
        elif r['globals'] != r0['globals']:
            diff = {k: v for k, v in r['globals'].items() if v != r0['globals'][k]}
            ctx.violation('XSD 1.1 defaultAttributes: %s gives other global components %s (single document: %s)'
                          % (arr, str(diff)[:150], str({k: r0['globals'][k] for k in diff})[:150]), rep)
        elif r['probes'] != r0['probes']:
            i = next(i for i, (a, b) in enumerate(zip(r['probes'], r0['probes'])) if a != b)
            ctx.violation('XSD 1.1 defaultAttributes: %s: %s gives %s, single document %s'
                          % (arr, DA_DOCS[i], str(r['probes'][i])[:100], str(r0['probes'][i])[:100]), rep)


def gen(ctx):
    import random
    rng = ctx.rng
    cases = []
    for i in range(30 if ctx.quick() else 500):
        seed = rng.randrange(10 ** 9)
        r = random.Random(seed)
        schema = gen_schema(r, v11=bool(i % 2))
        docs = [gen_instance(schema, r) for _ in range(2)] + [gen_instance(schema, r, invalid=True) for _ in range(2)]
        if schema['ident']:
            docs += ident_docs()
        if schema['wild']:
            docs += ['<t:w xmlns:t="%s"><t:%s>1</t:%s><t:undeclared/></t:w>' % (TNS, n, n) for n in schema['wild']]
            docs.append('<t:w xmlns:t="%s"><t:undeclared/></t:w>' % TNS)
        cases.append({'seed': seed, 'schema': schema, 'docs': docs, 'version': '1.1' if i % 2 else '1.0'})
    return cases


def cleanup():
    tmp = os.path.join(str(common.BUILD), 'tmp')
    if os.path.isdir(tmp):
        for d in os.listdir(tmp):
            if d.startswith('c09_'):
                shutil.rmtree(os.path.join(tmp, d), ignore_errors=True)


def run(ctx):
    cleanup()
    try:
        ctx.rule = ('seeded schemas (simple/complex types, attributes, attribute groups, groups, elements with forward references) '
                    'x 14 arrangements (2 permutations, reversed, 5 location spellings of a 2-way split, two 3-way splits, build '
                    'twice, rebuild after add_schema of another namespace, copy, pickle) x 4-7 probe instances (valid, invalid, key / keyref family); corpus schemas: rebuild / copy / pickle / two '
                    'location spellings; evaluations = arrangements compared with the original; non-trivial = every arrangement')
        evaluate(ctx, gen(ctx))
        check_corpus(ctx)
        check_redefine(ctx)
        check_chameleon(ctx)
        check_default_attrs(ctx)
    finally:
        cleanup()
    ctx.assumptions = ['component construction is a deterministic function of a declaration and of the components it references '
                       '(section variable mk of Staged.v); the metamorphic runs probe it',
                       'redefine / override: a fixed base schema (type, simple type, group, attribute group, element) whose components are redefined / overridden in subsets; the arrangements vary the spelling of the schemaLocation (relative, dotted, detour, padded with whitespace, absolute, file URL), the order of the base declarations and their split into (nested) includes of the base document']


def replay(ctx, case):
    cleanup()
    try:
        if case.get('kind') == 'corpus':
            check_corpus(ctx)
        elif case.get('kind') == 'redefine':
            check_redefine(ctx)
        elif case.get('kind') == 'chameleon':
            check_chameleon(ctx)
        elif case.get('kind') == 'default-attrs':
            check_default_attrs(ctx)
        else:
            evaluate(ctx, [case['case']])
    finally:
        cleanup()

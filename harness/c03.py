"""C03 - attribute sets are validated per declared uses, value constraints and wildcards.

Seeded declaration sets (use x form x fixed/default x local / global ref / via attribute group) x
attribute wildcard (constraint pool x processContents) x subsets of a 7-name pool spanning no-namespace,
target, declared-foreign (with and without a global declaration) and unknown namespaces x value catalogue
(valid, invalid, lexical variant equal to the fixed value) x use_defaults x fill_missing x XSD 1.0/1.1.
Primary: verdict = the set-based reading of the property (computed by the harness); correspondence: error
kinds and the set of filled attribute names vs Attrs.v."""
import json

import common
from common import coq_N, coq_list

IMPORTS = 'From XV Require Import Base Wildcard Attrs AttrValues.'
TNS, FNS, GNS, UNS = 'urn:t', 'urn:f', 'urn:g', 'urn:u'
NSCODE = {'': 0, TNS: 5, FNS: 6, GNS: 7, UNS: 8}
# pool of attribute names: (namespace, local)
POOL = [('', 'a'), ('', 'b'), (TNS, 'q'), (TNS, 'g1'), (FNS, 'x'), (FNS, 'y'), (UNS, 'z'), (TNS, 'gd')]
LOCODE = {'a': 1, 'b': 2, 'q': 3, 'g1': 4, 'x': 5, 'y': 6, 'z': 7, 'gd': 8}
PREFIX = {'': '', TNS: 't:', FNS: 'f:', GNS: 'g:', UNS: 'u:'}
# global attribute declarations: name -> type
GLOBALS = {(TNS, 'q'): 'xs:integer', (TNS, 'g1'): 'xs:boolean', (FNS, 'x'): 'xs:integer', (TNS, 'gd'): 'xs:integer'}
# a global declaration with a default value: a referencing use may override it with its own fixed / default
GLOBAL_DEFAULT = {(TNS, 'gd'): '2'}
TYCODE = {'xs:integer': 1, 'xs:boolean': 2, 'xs:string': 3}
LEX = ['1', '01', '2', 'x', 'true', ' 1 ']
LEXCODE = {l: i + 1 for i, l in enumerate(LEX)}


def canon(ty, lex):
    s = lex.strip() if ty != 'xs:string' else lex
    if ty == 'xs:integer':
        return int(s) if s.lstrip('+-').isdigit() else None
    if ty == 'xs:boolean':
        return {'true': 1, '1': 1, 'false': 0, '0': 0}.get(s)
    return 100 + LEXCODE[lex]


VTAB = [(TYCODE[t], LEXCODE[l], canon(t, l)) for t in TYCODE for l in LEX if canon(t, l) is not None]
WILDS = [None] + [(c, pc) for c in ('##any', '##other', '##local', '##targetNamespace', FNS, '##local ' + FNS, TNS + ' ' + FNS)
                  for pc in ('strict', 'lax', 'skip')]
WILDS11 = [('not:' + c, pc) for c in ('##local', '##targetNamespace', FNS + ' ' + UNS) for pc in ('strict', 'lax', 'skip')]


def wild_allows(constraint, ns):
    if constraint.startswith('not:'):
        toks = ['' if t == '##local' else TNS if t == '##targetNamespace' else t for t in constraint[4:].split()]
        return ns not in toks
    if constraint == '##any':
        return True
    toks = constraint.split()
    if '##other' in toks and len(toks) == 1:
        return ns not in ('', TNS)
    toks = ['' if t == '##local' else TNS if t == '##targetNamespace' else t for t in toks]
    return ns in toks


def attr_xsd(d, afd=None):
    s = '<xs:attribute '
    if d['ref']:
        s += 'ref="%s%s"' % (PREFIX[d['name'][0]], d['name'][1])
    else:
        s += 'name="%s" type="%s"' % (d['name'][1], d['ty'])
        # the effective form must yield the namespace of the abstract name, whatever the schema default
        want = 'qualified' if d['name'][0] == TNS else 'unqualified'
        default = afd or 'unqualified'
        if want != default or d.get('explicit_form'):
            s += ' form="%s"' % want
    if d['use'] != 'optional':
        s += ' use="%s"' % d['use']
    if d.get('fixed') is not None:
        s += ' fixed="%s"' % d['fixed']
    if d.get('default') is not None:
        s += ' default="%s"' % d['default']
    return s + '/>'


def wild_xsd(w):
    if w is None:
        return ''
    c, pc = w
    if c.startswith('not:'):
        return '<xs:anyAttribute notNamespace="%s" processContents="%s"/>' % (c[4:], pc)
    return '<xs:anyAttribute namespace="%s" processContents="%s"/>' % (c, pc)


def schema_sources(tmpl):
    ingroup = [d for d in tmpl['decls'] if d.get('grouped')]
    direct = [d for d in tmpl['decls'] if not d.get('grouped')]
    ag = ''
    ref = ''
    if ingroup or tmpl.get('gwild'):
        ag = '<xs:attributeGroup name="ag">%s%s</xs:attributeGroup>' % (''.join(attr_xsd(d, tmpl.get('afd')) for d in ingroup),
                                                                       wild_xsd(tmpl.get('gwild')))
        ref = '<xs:attributeGroup ref="t:ag"/>'
    afd = ' attributeFormDefault="%s"' % tmpl['afd'] if tmpl.get('afd') else ''
    main = ('<xs:schema xmlns:xs="http://www.w3.org/2001/XMLSchema" targetNamespace="%s" xmlns:t="%s" xmlns:f="%s"%s>'
            '<xs:import namespace="%s"/><xs:attribute name="q" type="xs:integer"/>'
            '<xs:attribute name="g1" type="xs:boolean"/><xs:attribute name="gd" type="xs:integer" default="2"/>%s'
            '<xs:element name="r"><xs:complexType>%s%s%s</xs:complexType></xs:element></xs:schema>'
            % (TNS, TNS, FNS, afd, FNS, ag, ''.join(attr_xsd(d, tmpl.get('afd')) for d in direct), ref,
               wild_xsd(tmpl['wild'])))
    f = ('<xs:schema xmlns:xs="http://www.w3.org/2001/XMLSchema" targetNamespace="%s">'
         '<xs:attribute name="x" type="xs:integer"/></xs:schema>' % FNS)
    return [main, f]


def render_xml(attrs):
    s = '<t:r xmlns:t="%s" xmlns:f="%s" xmlns:u="%s"' % (TNS, FNS, UNS)
    for (ns, local), lex in attrs:
        s += ' %s%s="%s"' % (PREFIX[ns], local, lex)
    return s + '/>'


_SCHEMAS = {}


def subject(case):
    import xmlschema
    key = json.dumps(case['tmpl'], sort_keys=True) + case['version']
    if key not in _SCHEMAS:
        cls = xmlschema.XMLSchema11 if case['version'] == '1.1' else xmlschema.XMLSchema10
        try:
            _SCHEMAS[key] = cls(schema_sources(case['tmpl']))
        except Exception as e:  # noqa
            _SCHEMAS[key] = 'ERR:%s: %s' % (common.exc_class(e), str(e)[:200])
    s = _SCHEMAS[key]
    if isinstance(s, str):
        return {'build': s}
    out = []
    for inst in case['instances']:
        xml = render_xml([(tuple(n), v) for n, v in inst['attrs']])
        try:
            errs = [str(e.reason or '') for e in s.iter_errors(xml)]
            valid = s.is_valid(xml)
            data, derrs = s.decode(xml, validation='lax', use_defaults=inst['use_defaults'],
                                   fill_missing=inst['fill_missing'])
            keys = sorted(k[1:] for k in (data or {}) if k.startswith('@') and not k.startswith('@xmlns'))
            vals = {k[1:]: (None if v is None else int(v) if isinstance(v, (bool, int)) else str(v))
                    for k, v in (data or {}).items() if k.startswith('@') and not k.startswith('@xmlns')}
        except Exception as e:  # noqa
            out.append({'exc': common.exc_class(e) + ': ' + str(e)[:200]})
            continue
        kinds = set()
        for r in errs:
            if 'missing required attribute' in r:
                kinds.add('missing')
            elif 'is prohibited' in r:
                kinds.add('prohibited')
            elif 'has a fixed value' in r:
                kinds.add('fixed')
            elif 'not allowed' in r:
                kinds.add('notallowed')
            elif 'not found' in r:
                kinds.add('notfound')
            elif 'unavailable namespace' in r:
                kinds.add('unavailable')
            else:
                kinds.add('type')
        out.append({'valid': valid, 'kinds': sorted(kinds), 'keys': keys, 'vals': vals, 'nerr': len(errs)})
    return {'build': 'ok', 'results': out}


def coq_name(n):
    return '(%s, %s)' % (coq_N(NSCODE[n[0]]), coq_N(LOCODE[n[1]]))


def decl_type(d):
    return GLOBALS[tuple(d['name'])] if d['ref'] else d['ty']


def eff(d):
    """effective value constraint of a use: its own, else the one of the referenced global declaration"""
    fixed, default = d.get('fixed'), d.get('default')
    if d['ref'] and fixed is None and default is None and d['use'] != 'prohibited':
        default = GLOBAL_DEFAULT.get(tuple(d['name']))
    return fixed, default


def coq_decl(d):
    use = {'required': 'Required', 'optional': 'Optional', 'prohibited': 'Prohibited'}[d['use']]
    def lex(x):
        return 'None' if x is None else '(Some %s)' % coq_N(LEXCODE[x])
    return '{| a_name := %s; a_use := %s; a_fixed := %s; a_default := %s; a_ty := %s |}' % (
        coq_name(d['name']), use, lex(eff(d)[0]), lex(eff(d)[1]), coq_N(TYCODE[decl_type(d)]))


def coq_wild(w):
    if w is None:
        return 'None'
    c, pc = w
    def code(t):
        return NSCODE['' if t == '##local' else TNS if t == '##targetNamespace' else t]
    if c.startswith('not:'):
        sh = 'SNot %s' % coq_list([coq_N(code(t)) for t in c[4:].split()])
    elif c == '##any':
        sh = 'SAny'
    elif c == '##other':
        sh = 'SOther'
    else:
        sh = 'SList %s' % coq_list([coq_N(code(t)) for t in c.split()])
    return '(Some ({| sh := %s; wtns := %s |}, %s))' % (sh, coq_N(NSCODE[TNS]), pc.capitalize())


def coq_eff_wild(tmpl):
    w, g = tmpl['wild'], tmpl.get('gwild')
    if g is None:
        return coq_wild(w)
    if w is None:
        return coq_wild(g)
    return ('(match %s, %s with Some (a, pc), Some (b, _) => Some (intersection a b, pc) | x, _ => x end)'
            % (coq_wild(w), coq_wild(g)))


ENV = ('{| vtab := %s; globals := %s; known_ns := [%s; %s] |}' % (
    coq_list(['(%s, %s, %s)' % (coq_N(a), coq_N(b), coq_N(c)) for a, b, c in VTAB]),
    coq_list(['{| a_name := %s; a_use := Optional; a_fixed := None; a_default := None; a_ty := %s |}'
              % (coq_name(n), coq_N(TYCODE[t])) for n, t in GLOBALS.items()]),
    coq_N(NSCODE[TNS]), coq_N(NSCODE[FNS])))

DEFS = ('Definition ENV := %s.\n'
        'Definition kind (e : aerr) : N := match e with EMissing _ => 1 | EProhibited _ => 2 | EType _ => 3 '
        '| EFixed _ => 4 | ENotAllowed _ => 5 | ENotFound _ => 6 | EUnavailable _ => 7 end%%N.\n' % ENV)
KIND = {1: 'missing', 2: 'prohibited', 3: 'type', 4: 'fixed', 5: 'notallowed', 6: 'notfound', 7: 'unavailable'}


def model_terms(case):
    g = '{| decls := %s; wild := %s |}' % (coq_list([coq_decl(d) for d in case['tmpl']['decls']]), coq_eff_wild(case['tmpl']))
    terms = []
    for inst in case['instances']:
        attrs = coq_list(['(%s, %s)' % (coq_name(n), coq_N(LEXCODE[v])) for n, v in inst['attrs']])
        terms.append('(map kind (validate_attrs ENV %s %s), filled %s %s %s %s, filled_values %s %s %s %s)' % (
            g, attrs, g, common.coq_bool(inst['use_defaults']), common.coq_bool(inst['fill_missing']), attrs,
            g, common.coq_bool(inst['use_defaults']), common.coq_bool(inst['fill_missing']), attrs))
    return terms


def spec_valid(tmpl, attrs):
    """Independent reading of the property sentence."""
    decls = {tuple(d['name']): d for d in tmpl['decls']}
    present = {tuple(n): v for n, v in attrs}
    for n, d in decls.items():
        if d['use'] == 'required' and n not in present:
            return False

    def decl_ok(ty, fixed, v):
        if canon(ty, v) is None:
            return False
        if fixed is not None and v != fixed and canon(ty, v) != canon(ty, fixed):
            return False
        return True

    def wild_ok(n, v):
        # the complete wildcard is the intersection of the local one and the one of the referenced attribute group,
        # with the processContents of the local wildcard (of the group's when there is no local one)
        ws = [w for w in (tmpl['wild'], tmpl.get('gwild')) if w is not None]
        if not ws:
            return False
        pc = ws[0][1]
        if not all(wild_allows(c, n[0]) for c, _pc in ws):
            return False
        if pc == 'skip':
            return True
        known = n[0] in (TNS, FNS)
        g = GLOBALS.get(n)
        if pc == 'lax':
            return (not known) or g is None or decl_ok(g, None, v)
        return known and g is not None and decl_ok(g, None, v)

    for n, v in present.items():
        d = decls.get(n)
        if d is not None and not (d['use'] == 'prohibited' and d.get('fixed') is None):
            if not decl_ok(decl_type(d), eff(d)[0], v):
                return False
        elif not wild_ok(n, v):
            return False
    return True


def spec_filled(tmpl, inst):
    present = {tuple(n) for n, _v in inst['attrs']}
    out = []
    for d in tmpl['decls']:
        n = tuple(d['name'])
        if n in present:
            continue
        if eff(d)[0] is not None or (eff(d)[1] is not None and inst['use_defaults']) or inst['fill_missing']:
            out.append(n)
    return out


def key_name(n):
    return (PREFIX[n[0]] + n[1])


def evaluate(ctx, cases):
    impl = common.pool_map(subject, cases)
    terms, owner = [], []
    for ci, (c, o) in enumerate(zip(cases, impl)):
        if o.get('build') != 'ok':
            ctx.violation('schema build failed for a legal attribute declaration set: %s' % (o.get('build') or o),
                          {'kind': 'attrs', 'case': c, 'xsd': schema_sources(c['tmpl'])}, no_input=True)
            continue
        for k, t in enumerate(model_terms(c)):
            terms.append(t)
            owner.append((ci, k))
    model = common.coq_eval('C03', IMPORTS, DEFS, terms, shard=250)
    for (ci, k), m in zip(owner, model):
        c, o = cases[ci], impl[ci]['results'][k]
        inst = c['instances'][k]
        attrs = [(tuple(n), v) for n, v in inst['attrs']]
        xml = render_xml(attrs)
        rep = {'kind': 'attrs', 'case': dict(c, instances=[inst]), 'xml': xml, 'xsd': schema_sources(c['tmpl']), 'impl': o}
        if 'exc' in o:
            ctx.violation('validation raised %s on %s' % (o['exc'], xml), rep)
            continue
        mk, mfilled, mvals = m
        mvals = {(a, b): (v[1] if isinstance(v, tuple) and v[0] == 'Some' else None if v in (None, 'None') else v) for a, b, v in mvals}
        mkinds = sorted({KIND[x] for x in mk})
        want = spec_valid(c['tmpl'], attrs)
        ctx.count(('i', xml, json.dumps(c['tmpl'], sort_keys=True), c['version'], inst['use_defaults'], inst['fill_missing']),
                  nontrivial=len(attrs) >= 1 and len(c['tmpl']['decls']) >= 1)
        ctx.dist('verdict', 'valid' if want else 'invalid')
        ctx.dist('wildcard', 'none' if c['tmpl']['wild'] is None else c['tmpl']['wild'][1])
        for d in c['tmpl']['decls']:
            ctx.dist('use_x_presence', '%s/%s' % (d['use'], 'present' if tuple(d['name']) in dict(attrs) else 'absent'))
        problems = []
        if o['valid'] != want:
            problems.append(('primary', 'attribute set is %s but the declared uses / wildcard say %s'
                             % ('accepted' if o['valid'] else 'rejected', 'valid' if want else 'invalid')))
        # decoded data: absent attributes that appear
        want_keys = sorted(set(key_name(n) for n in spec_filled(c['tmpl'], inst)))
        got_extra = sorted(k2 for k2 in o['keys'] if k2 not in [key_name(n) for n, _ in attrs])
        if want and got_extra != want_keys:
            problems.append(('primary', 'absent attributes reported in decoded data: %s, expected %s '
                             '(use_defaults=%s fill_missing=%s)' % (got_extra, want_keys, inst['use_defaults'], inst['fill_missing'])))
        if want and got_extra == want_keys:
            # the values of the absent attributes: the fixed value, else the default (when defaults are applied), else the filler
            present = {n for n, _v in attrs}
            for d in c['tmpl']['decls']:
                n = tuple(d['name'])
                if n in present or key_name(n) not in want_keys:
                    continue
                fixed, default = eff(d)
                lexv = fixed if fixed is not None else default if (default is not None and inst['use_defaults']) else None
                # the model's value for the absent attribute (AttrValues.filled_values: the fixed value wins over a default)
                mlex = mvals.get((NSCODE[n[0]], LOCODE[n[1]]), 'absent')
                if mlex != (None if lexv is None else LEXCODE[lexv]):
                    problems.append(('aux', 'harness spec and model disagree on the value of the absent attribute %s: %r vs %r'
                                     % (key_name(n), lexv, mlex)))
                ty = decl_type(d)
                exp = None if lexv is None else (canon(ty, lexv) if ty != 'xs:string' else lexv)
                got = o.get('vals', {}).get(key_name(n))
                if ty == 'xs:string' and got is not None:
                    got = str(got)
                if got != exp:
                    problems.append(('primary', 'the absent attribute %s is reported with the value %r, its value constraint gives %r '
                                     '(use_defaults=%s fill_missing=%s)' % (key_name(n), got, exp, inst['use_defaults'], inst['fill_missing'])))
        if o['kinds'] != mkinds:
            problems.append(('aux', 'error kinds impl=%s model=%s' % (o['kinds'], mkinds)))
        mf = sorted({PREFIX[{v: k3 for k3, v in NSCODE.items()}[a]] + {v: k3 for k3, v in LOCODE.items()}[b] for a, b in mfilled})
        if mf != want_keys:
            problems.append(('aux', 'harness spec and model disagree on filled names: %s vs %s' % (want_keys, mf)))
        if problems:
            prim = [p for p in problems if p[0] == 'primary']
            ctx.violation('%s (XSD %s): %s' % (xml, c['version'], '; '.join(p[1] for p in (prim or problems))),
                          dict(rep, model=repr(m), theorem='C03_validate_correct / C03_filling_rules'), no_input=not prim)
        ctx.sample({'decls': [attr_xsd(d, c['tmpl'].get('afd')) for d in c['tmpl']['decls']], 'wild': c['tmpl']['wild'], 'xml': xml,
                    'valid': o['valid'], 'kinds': o['kinds']}, cap=5)


def rand_tmpl(rng, version):
    decls = []
    names = rng.sample([('', 'a'), ('', 'b'), (TNS, 'q'), (FNS, 'x'), (TNS, 'g1'), (TNS, 'gd'), (TNS, 'gd')], rng.randint(0, 3))
    names = list(dict.fromkeys(names))
    afd = rng.choice([None, None, 'qualified', 'unqualified'])
    for n in names:
        ref = n in GLOBALS and rng.random() < 0.8
        d = {'name': list(n), 'ref': ref, 'use': rng.choice(['required', 'optional', 'optional', 'prohibited']),
             'ty': rng.choice(['xs:integer', 'xs:boolean', 'xs:string']), 'grouped': rng.random() < 0.3,
             'explicit_form': rng.random() < 0.3}
        if n[0] == FNS or n == (TNS, 'gd'):
            d['ref'] = True
        if d['use'] != 'prohibited':
            r = rng.random()
            ty = decl_type(d)
            good = [l for l in LEX if canon(ty, l) is not None]
            if r < 0.25:
                d['fixed'] = rng.choice(good)
            elif r < 0.45 and d['use'] == 'optional':
                d['default'] = rng.choice(good)
        if d['use'] == 'prohibited':
            d['grouped'] = False     # a prohibited use inside a named attribute group is dropped by XSD
        decls.append(d)
    pool = WILDS + (WILDS11 if version == '1.1' else [])
    tmpl = {'decls': decls, 'wild': rng.choice(pool), 'afd': afd, 'gwild': rng.choice(pool) if rng.random() < 0.3 else None}
    if tmpl['gwild'] is not None and rng.random() < 0.5:
        # focused pairs: a namespace list against ##other / ##any / another list
        forms = ['##other', '##any', '##local ' + FNS, TNS + ' ' + FNS, '##local', '##targetNamespace', FNS]
        tmpl['wild'] = (rng.choice(forms), rng.choice(['strict', 'lax', 'skip']))
        tmpl['gwild'] = (rng.choice(forms), rng.choice(['strict', 'lax', 'skip']))
    return tmpl


def rand_instance(rng, tmpl):
    declared = [tuple(d['name']) for d in tmpl['decls']]
    attrs = []
    for n in POOL:
        p = 0.6 if n in declared else 0.25
        if rng.random() < p:
            d = next((d for d in tmpl['decls'] if tuple(d['name']) == n), None)
            ty = decl_type(d) if d else GLOBALS.get(n, 'xs:integer')
            good = [l for l in LEX if canon(ty, l) is not None]
            r = rng.random()
            if d and d.get('fixed') is not None and r < 0.5:
                same = [l for l in good if canon(ty, l) == canon(ty, d['fixed'])]
                v = rng.choice(same)
            elif r < 0.8:
                v = rng.choice(good)
            else:
                v = rng.choice(LEX)
            attrs.append([list(n), v])
    return {'attrs': attrs, 'use_defaults': rng.random() < 0.6, 'fill_missing': rng.random() < 0.25}


def run(ctx):
    rng = ctx.rng
    cases = []
    ntm, ninst = (220, 12) if ctx.quick() else (2500, 40)
    for i in range(ntm):
        v = '1.1' if i % 2 else '1.0'
        t = rand_tmpl(rng, v)
        cases.append({'tmpl': t, 'version': v, 'instances': [rand_instance(rng, t) for _ in range(ninst)]})
    ctx.rule = ('seeded declaration sets (0-3 attributes: use x fixed/default x local / global ref / attribute group) x '
                'wildcard (7 constraints + 3 notNamespace forms in 1.1, x processContents, or none) x random subsets of the '
                '7-name pool x value catalogue x use_defaults x fill_missing; non-trivial = at least one declaration and '
                'one attribute present; distinct by (schema, instance, options)')
    evaluate(ctx, cases)
    ctx.assumptions = ['attributes of the XSI namespace are not generated',
                       'prohibited declarations with a fixed value and prohibited uses inside named groups are not generated']


def replay(ctx, case):
    evaluate(ctx, [case['case']])

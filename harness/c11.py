"""C11 - every input ends in a verdict or a library error; documented limits hold.

(a) limits: nesting depth and element count swept over limit-1, limit, limit+1 for eager and lazy resources and
    several limit settings, with comments / processing instructions interleaved; compared with Limits.v
    `parse_limited` (C11_limits_exact);
(b) exception containment (exploration, not proof): corpus and generated documents under seeded structural and
    lexical mutation, truncated and bit-flipped byte streams, deep documents: is_valid / iter_errors / lax decode /
    XMLResource must end with a verdict or an exception of the library's hierarchy, lax decode never raises a
    validation error."""
import io
import json
import os
import random
import re

import common

IMPORTS = 'From XV Require Import Base Limits.'

RICH_XSD = '''<xs:schema xmlns:xs="http://www.w3.org/2001/XMLSchema" targetNamespace="urn:c11" xmlns:t="urn:c11"
 elementFormDefault="qualified">
 <xs:simpleType name="small"><xs:restriction base="xs:integer"><xs:minInclusive value="0"/><xs:maxInclusive value="99"/></xs:restriction></xs:simpleType>
 <xs:simpleType name="ilist"><xs:list itemType="xs:int"/></xs:simpleType>
 <xs:simpleType name="u"><xs:union memberTypes="xs:date xs:boolean t:small"/></xs:simpleType>
 <xs:simpleType name="dlist"><xs:list itemType="xs:date"/></xs:simpleType>
 <xs:simpleType name="dlist3"><xs:restriction base="t:dlist"><xs:maxLength value="3"/></xs:restriction></xs:simpleType>
 <xs:simpleType name="days"><xs:restriction base="t:dlist3"><xs:enumeration value="2020-01-01 2020-01-02"/><xs:enumeration value="2020-02-29"/></xs:restriction></xs:simpleType>
 <xs:complexType name="item">
  <xs:sequence>
   <xs:element name="n" type="xs:integer"/>
   <xs:element name="d" type="xs:decimal" minOccurs="0"/>
   <xs:element name="when" type="xs:dateTime" minOccurs="0"/>
   <xs:element name="day" type="xs:date" minOccurs="0"/>
   <xs:element name="year" type="xs:gYear" minOccurs="0"/>
   <xs:element name="dur" type="xs:duration" minOccurs="0"/>
   <xs:element name="q" type="xs:QName" minOccurs="0"/>
   <xs:element name="l" type="t:ilist" minOccurs="0"/>
   <xs:element name="u" type="t:u" minOccurs="0"/>
   <xs:element name="f" type="xs:double" minOccurs="0"/>
   <xs:element name="b64" type="xs:base64Binary" minOccurs="0"/>
   <xs:element name="days" type="t:days" minOccurs="0"/>
   <xs:element name="note" minOccurs="0" fixed="hello"><xs:complexType mixed="true"><xs:sequence>
     <xs:element name="x" type="xs:string" minOccurs="0"/></xs:sequence></xs:complexType></xs:element>
   <xs:element name="sub" type="t:item" minOccurs="0" maxOccurs="3"/>
   <xs:any namespace="##other" processContents="lax" minOccurs="0" maxOccurs="2"/>
  </xs:sequence>
  <xs:attribute name="id" type="xs:ID"/><xs:attribute name="ref" type="xs:IDREF"/>
  <xs:attribute name="k" type="t:small"/><xs:attribute name="days" type="t:days"/><xs:anyAttribute namespace="##other" processContents="lax"/>
 </xs:complexType>
 <xs:element name="root">
  <xs:complexType><xs:sequence><xs:element name="item" type="t:item" maxOccurs="unbounded">
   <xs:unique name="U"><xs:selector xpath="t:sub"/><xs:field xpath="t:n"/></xs:unique></xs:element></xs:sequence></xs:complexType>
  <xs:key name="K"><xs:selector xpath="t:item"/><xs:field xpath="t:n"/></xs:key>
  <xs:keyref name="R" refer="t:K"><xs:selector xpath="t:item/t:sub"/><xs:field xpath="t:n"/></xs:keyref>
  <xs:unique name="UY"><xs:selector xpath="t:item"/><xs:field xpath="t:year"/></xs:unique>
  <xs:unique name="UW"><xs:selector xpath="t:item"/><xs:field xpath="t:when"/><xs:field xpath="t:dur"/></xs:unique>
 </xs:element>
</xs:schema>'''

BASE_DOCS = [
    '<t:root xmlns:t="urn:c11"><t:item id="a1" k="5"><t:n>1</t:n><t:d>1.5</t:d><t:when>2020-02-29T12:00:00Z</t:when>'
    '<t:day>2020-02-29</t:day><t:year>2020</t:year><t:dur>P1Y2M</t:dur><t:q>t:x</t:q><t:l>1 2 3</t:l><t:u>true</t:u>'
    '<t:f>1.5E3</t:f><t:b64>QUJD</t:b64><t:sub ref="a1"><t:n>1</t:n></t:sub></t:item><t:item><t:n>2</t:n></t:item></t:root>',
    '<t:root xmlns:t="urn:c11" xmlns:o="urn:o"><t:item><t:n>7</t:n><t:sub><t:n>7</t:n><t:sub><t:n>7</t:n></t:sub></t:sub>'
    '<o:x a="1"><o:y/></o:x></t:item></t:root>',
    # the second item violates the unique constraint U declared on the intermediate element
    '<t:root xmlns:t="urn:c11"><t:item><t:n>1</t:n><t:sub><t:n>1</t:n></t:sub><t:sub><t:n>2</t:n></t:sub></t:item>'
    '<t:item><t:n>2</t:n><t:sub><t:n>1</t:n></t:sub><t:sub><t:n>1</t:n></t:sub></t:item></t:root>',
    # a fixed value on an element of mixed complex type: equal / different text
    '<t:root xmlns:t="urn:c11"><t:item><t:n>1</t:n><t:note>hello</t:note></t:item><t:item><t:n>2</t:n><t:note>bye</t:note></t:item></t:root>',
    '<t:root xmlns:t="urn:c11"><t:item><t:n>1</t:n><t:note>hello</t:note></t:item></t:root>',
    # an enumerated list of dates restricted on two levels (the facets see the values, not their decoded representation)
    '<t:root xmlns:t="urn:c11"><t:item days="2020-02-29"><t:n>1</t:n><t:days>2020-01-01  2020-01-02</t:days></t:item>'
    '<t:item><t:n>2</t:n><t:days>2020-02-29</t:days></t:item></t:root>',
    # an empty sub element (content not complete) below the chunks of a lazy depth 3
    '<t:root xmlns:t="urn:c11"><t:item id="a1" k="5"><t:n>1</t:n><t:sub ref="a1"></t:sub></t:item><t:item><t:n>2</t:n></t:item></t:root>',
]
LEX_POOL = ['99999999999999999999999999999999', '-0', '1e400', '٣', '１２', '1_0', ' ', '', 'NaN', 'INF', '0000-00-00',
            '99999999999999999999-01-01T00:00:00', 'P99999999999999999999Y', '2020-13-45', ':', 'a:b:c', 'x:', 'p::q',
            '\u00a0', 'true false', '-P', 'PT', '====', '&#0;', '\ud7ff', '1' * 5000, 'Q' * 3, '-' * 50, '2020-02-30',
            '24:00:01', '+14:01', '1.5.6', '0x1F', '١٢٣', '１', 'xsi:nil']
XSI = 'http://www.w3.org/2001/XMLSchema-instance'


def mutate_doc(rng, doc):
    """one seeded structural or lexical mutation of a document (text level, well-formedness mostly kept)"""
    r = rng.random()
    if r < 0.45:
        # replace the text of a random simple element / attribute value
        spots = [m for m in re.finditer(r'>([^<>]+)<', doc)] + [m for m in re.finditer(r'="([^"]*)"', doc)]
        if spots:
            m = rng.choice(spots)
            v = rng.choice(LEX_POOL).replace('&#0;', 'x').replace('\ud7ff', 'y')
            v = v.replace('&', '&amp;').replace('<', '&lt;').replace('"', '&quot;')
            return doc[:m.start(1)] + v + doc[m.end(1):]
    if r < 0.6:
        # stray xsi attributes
        attr = rng.choice(['xsi:type="xs:nope"', 'xsi:type="t:item"', 'xsi:nil="true"', 'xsi:nil="maybe"',
                           'xsi:schemaLocation="urn:x"', 'xsi:noNamespaceSchemaLocation="file:///nonexistent.xsd"',
                           'xsi:type="t:small"', 'xsi:type=":"', 'xsi:type="q:r:s"', 'xsi:foo="1"'])
        tags = [m for m in re.finditer(r'<t:[a-z0-9]+', doc)]
        m = rng.choice(tags)
        d = doc[:m.end()] + ' ' + attr + doc[m.end():]
        if 'xmlns:xsi' not in d:
            d = d.replace('<t:root ', '<t:root xmlns:xsi="%s" xmlns:xs="http://www.w3.org/2001/XMLSchema" ' % XSI, 1)
        return d
    if r < 0.8:
        # duplicate / delete / swap an element
        elems = [m for m in re.finditer(r'<t:(n|d|day|year|l|u|f)>[^<]*</t:\1>', doc)]
        if elems:
            m = rng.choice(elems)
            op = rng.choice(['dup', 'del', 'rename', 'ns'])
            if op == 'dup':
                return doc[:m.end()] + m.group(0) + doc[m.end():]
            if op == 'del':
                return doc[:m.start()] + doc[m.end():]
            if op == 'rename':
                return doc[:m.start()] + m.group(0).replace('t:' + m.group(1), 't:zzz') + doc[m.end():]
            return doc[:m.start()] + m.group(0).replace('t:' + m.group(1), 'unk:' + m.group(1)).replace(
                '<unk:', '<unk:', 1).replace('>', ' xmlns:unk="urn:unknown">', 1) + doc[m.end():]
    # unknown namespace / wrong root
    return doc.replace('urn:c11', rng.choice(['urn:other', '', 'urn:c11 ']), 1)


_S = {}


def schemas():
    import xmlschema
    if not _S:
        _S['10'] = xmlschema.XMLSchema10(RICH_XSD)
        _S['11'] = xmlschema.XMLSchema11(RICH_XSD)
        # XSD 1.1 only: attribute k is inheritable, elements carrying it validate their content with a copied context
        _S['11i'] = xmlschema.XMLSchema11(RICH_XSD.replace('<xs:attribute name="k" type="t:small"/>',
                                                           '<xs:attribute name="k" type="t:small" inheritable="true"/>'))
    return _S


def outcome(fn):
    import xmlschema
    try:
        fn()
        return 'ok'
    except RecursionError:
        return 'FOREIGN:RecursionError'
    except Exception as e:  # noqa
        c = common.exc_class(e)
        if c.startswith('FOREIGN') or c == 'parse':
            return c + ': ' + str(e)[:80]
        return c


WILD_XSD = ('<xs:schema xmlns:xs="http://www.w3.org/2001/XMLSchema" targetNamespace="urn:c11" xmlns:t="urn:c11" '
            'elementFormDefault="qualified"><xs:element name="other" type="xs:int"/><xs:element name="root"><xs:complexType><xs:sequence>'
            '<xs:element name="a" type="xs:string"/><xs:any %s/><xs:element name="z" type="xs:string" minOccurs="0"/>'
            '</xs:sequence><xs:anyAttribute %s/></xs:complexType></xs:element></xs:schema>')
WILD_FORMS = {'10': ['namespace=""', 'namespace="##other"', 'namespace="urn:a urn:b"', 'namespace="##local"', 'namespace="##targetNamespace"',
                     'namespace="##any"'],
              '11': ['notNamespace="##targetNamespace urn:x"', 'notNamespace="##local"', 'notQName="t:other"', 'namespace="##any" notQName="##defined"',
                     'notNamespace="urn:a"', 'namespace=""', 'namespace="##other"']}
WILD_DOCS = ['<t:root xmlns:t="urn:c11"><t:a>x</t:a></t:root>', '<t:root xmlns:t="urn:c11"><t:a>x</t:a><t:a>y</t:a></t:root>',
             '<t:root xmlns:t="urn:c11"><t:a>x</t:a><b xmlns="urn:other"/></t:root>', '<t:root xmlns:t="urn:c11"><t:a>x</t:a><b/></t:root>',
             '<t:root xmlns:t="urn:c11"><t:a>x</t:a><t:other>1</t:other><t:z>q</t:z></t:root>', '<t:root xmlns:t="urn:c11"><t:z>q</t:z></t:root>',
             '<t:root xmlns:t="urn:c11" xmlns:o="urn:a" o:k="1" k="2" t:k="3"><t:a>x</t:a><o:b/><o:b/></t:root>', '<t:root xmlns:t="urn:c11"/>']


def gen_wild(ctx):
    """element and attribute wildcards of every namespace-constraint form (also the forms whose set of admitted namespaces is
    empty) as the expected / violated particle"""
    cases = []
    for version, forms in WILD_FORMS.items():
        for f in forms:
            for pc in ('strict', 'lax', 'skip'):
                for occ in ('', ' minOccurs="0"', ' minOccurs="0" maxOccurs="2"'):
                    xsd = WILD_XSD % (f + ' processContents="%s"%s' % (pc, occ), f + ' processContents="%s"' % pc)
                    for d in WILD_DOCS:
                        cases.append({'doc': d, 'version': version, 'xsd': xsd})
    if ctx.quick():
        cases = ctx.rng.sample(cases, 300)
    return cases


def subject_fuzz(case):
    import xmlschema
    if case.get('xsd'):
        key = case['version'] + case['xsd']
        if key not in _S:
            try:
                _S[key] = (xmlschema.XMLSchema11 if case['version'] == '11' else xmlschema.XMLSchema10)(case['xsd'])
            except xmlschema.XMLSchemaException as e:
                _S[key] = None
        if _S[key] is None:
            return {}
        s = _S[key]
    else:
        s = schemas()[case['version']]
    src = case['doc'] if 'doc' in case else bytes.fromhex(case['hex'])
    out = {}
    out['is_valid'] = outcome(lambda: s.is_valid(src))
    out['iter_errors'] = outcome(lambda: list(s.iter_errors(src)))
    out['decode_lax'] = outcome(lambda: s.decode(src, validation='lax'))
    out['to_dict_lax'] = outcome(lambda: xmlschema.to_dict(src, schema=s, validation='lax'))
    out['decode_skip'] = outcome(lambda: s.decode(src, validation='skip'))
    out['lazy'] = outcome(lambda: list(s.iter_errors(xmlschema.XMLResource(src, lazy=True))))
    out['decode_strict'] = outcome(lambda: s.decode(src))
    # defused sources (the defusing pass parses the prologue with its own SAX parser)
    out['defused'] = outcome(lambda: list(s.iter_errors(xmlschema.XMLResource(src, defuse='always'))))
    if isinstance(src, bytes):
        import io
        out['defused_file'] = outcome(lambda: list(s.iter_errors(xmlschema.XMLResource(io.BytesIO(src), defuse='always'))))
    return out


def check_fuzz(ctx, cases):
    impl = common.pool_map(subject_fuzz, cases)
    suspects = []
    for c, o in zip(cases, impl):
        key = c.get('doc') or c.get('hex')
        ctx.count(('fuzz', c['version'], key), nontrivial=True)
        if 'harness_exception' in o:
            ctx.violation('subject failed: %s' % o['harness_exception'], {'kind': 'fuzz', 'case': c}, no_input=True)
            continue
        bad = []
        for api, r in o.items():
            ctx.dist('outcome', '%s/%s' % (api, r.split(':')[0] if r.startswith(('FOREIGN', 'parse')) else r))
            if r.startswith('FOREIGN') or r.startswith('parse'):
                bad.append('%s raised %s' % (api, r))
            elif r == 'validation' and api in ('is_valid', 'iter_errors', 'decode_lax', 'to_dict_lax', 'decode_skip', 'lazy', 'defused', 'defused_file'):
                bad.append('%s raised a validation error although the mode is not strict' % api)
        if bad:
            suspects.append((c, o, bad))
        ctx.sample({'doc': (c.get('doc') or c.get('hex'))[:160], 'outcomes': o}, cap=4)
    known = {f['id']: f for f in ctx.known}
    for c, o, bad in suspects:
        text = c.get('doc') or bytes.fromhex(c.get('hex', '')).decode('utf-8', 'replace')
        if all('RecursionError' in b for b in bad) and c.get('deep'):
            ctx.known_finding('F-C11b')
            continue
        m = re.search(r'xmlns:t="([^"]*)"', text)
        odd_ns = m is not None and m.group(1) not in ('urn:c11', 'urn:other', '')
        if odd_ns and all(b.startswith('lazy raised FOREIGN:') for b in bad):
            ctx.known_finding('F-C11c')
            continue
        ctx.violation('%s (XSD %s) on %r' % ('; '.join(bad[:3]), c['version'], (c.get('doc') or c.get('hex'))[:200]),
                      {'kind': 'fuzz', 'case': c, 'impl': o})


# ------------------------------------------------------------------ limits
def limit_doc(depth, elems, noise):
    """a document of exactly `depth` nesting levels and `elems` elements (elems >= depth), with comments / PIs"""
    extra = elems - depth
    s = ''
    for i in range(depth):
        s += ('<!-- c -->' if noise and i % 2 else '') + '<e>'
        if i == depth - 1 or (i == 0 and depth == 1):
            pass
    # siblings at the deepest level are not possible (depth fixed): put extra leaf children under the root
    inner = ''.join('<e/>' if depth > 1 else '' for _ in range(0))
    s += '</e>' * depth
    if extra > 0:
        if depth == 1:
            return None
        # insert `extra` leaf children directly under the root (they do not raise the depth when depth >= 2)
        leaf = ('<?p x?>' if noise else '') + '<e/>'
        s = s.replace('<e>', '<e>' + leaf * extra, 1) if depth >= 2 else s
    return '<?xml version="1.0"?>' + ('<!-- prolog -->' if noise else '') + s


def doc_events(doc):
    evs = []
    for m in re.finditer(r'<!--.*?-->|<\?.*?\?>|<e( [^>]*)?/>|<e( [^>]*)?>|</e>', doc):
        t = m.group(0)
        if t.startswith('<e') and t.endswith('/>'):
            evs += ['EvStart', 'EvEnd']
        elif t.startswith('<e'):
            evs.append('EvStart')
        elif t == '</e>':
            evs.append('EvEnd')
        elif t.startswith('<?xml'):
            continue
        else:
            evs.append('EvOther')
    return evs


def subject_limit(case):
    import xmlschema
    from xmlschema import limits
    old = (limits.MAX_XML_DEPTH, limits.MAX_XML_ELEMENTS)
    limits.MAX_XML_DEPTH, limits.MAX_XML_ELEMENTS = case['D'], case['E']
    try:
        if case.get('refused') is not None:
            # an assignment that the module refuses leaves the configured limits in force
            for name in ('MAX_XML_DEPTH', 'MAX_XML_ELEMENTS'):
                try:
                    setattr(limits, name, case['refused'])
                except (ValueError, TypeError):
                    pass
                else:
                    return {'result': 'the assignment limits.%s = %r was accepted' % (name, case['refused'])}
        try:
            r = xmlschema.XMLResource(case['doc'], lazy=case['lazy'])
            n = sum(1 for _ in r.iter())
            return {'result': 'Loaded', 'elements': n}
        except Exception as e:  # noqa
            c = common.exc_class(e)
            msg = str(e)
            if c == 'resource-exceeded':
                return {'result': 'ExcDepth' if 'depth' in msg else 'ExcElems'}
            return {'result': c + ': ' + msg[:80]}
    finally:
        limits.MAX_XML_DEPTH, limits.MAX_XML_ELEMENTS = old


def check_limits(ctx):
    cases = []
    for D in (1, 2, 5, 10, 50):
        for E in (3, 20, 1000):
            for depth in (D - 1, D, D + 1):
                for elems in sorted({depth, E - 1, E, E + 1}):
                    if depth < 1 or elems < depth:
                        continue
                    for noise in (False, True):
                        doc = limit_doc(depth, elems, noise)
                        if doc is None:
                            continue
                        for lazy in (False, True):
                            cases.append({'D': D, 'E': E, 'depth': depth, 'elems': elems, 'noise': noise, 'lazy': lazy, 'doc': doc})
                            if not noise:
                                cases.append({'D': D, 'E': E, 'depth': depth, 'elems': elems, 'noise': noise, 'lazy': lazy, 'doc': doc,
                                              'refused': (0, -1, 'x', 2.5)[(depth + elems + D) % 4]})
    # records whose last child declares a namespace: the depth stays 3 however many records there are
    for D in (3, 4, 5):
        for k in (1, 2, 5, 20):
            doc = '<?xml version="1.0"?><e>' + '<e><e/><e xmlns:x="urn:x"/></e>' * k + '</e>'
            for lazy in (False, True):
                cases.append({'D': D, 'E': 1000, 'depth': 3, 'elems': 1 + 3 * k, 'noise': False, 'lazy': lazy, 'doc': doc})
    impl = common.pool_map(subject_limit, cases)
    terms = ['(parse_limited %d %d %s [%s])' % (c['D'], c['E'], 'true' if c['lazy'] else 'false', '; '.join(doc_events(c['doc'])))
             for c in cases]
    model = common.coq_eval('C11', IMPORTS, '', terms, shard=200)
    for c, o, m in zip(cases, impl, model):
        ctx.count(('limit', c['D'], c['E'], c['depth'], c['elems'], c['noise'], c['lazy'], repr(c.get('refused'))), nontrivial=True)
        ctx.dist('limits', m)
        rep = {'kind': 'limit', 'case': dict(c, doc=c['doc'][:300]), 'impl': o, 'model': m}
        if 'harness_exception' in o:
            ctx.violation('subject failed: %s' % o['harness_exception'], rep, no_input=True)
            continue
        within = c['depth'] <= c['D'] and (c['lazy'] or c['elems'] <= c['E'])
        problems = []
        if within and o['result'] != 'Loaded':
            problems.append(('primary', 'document of depth %d with %d elements is within MAX_XML_DEPTH=%d / MAX_XML_ELEMENTS=%d '
                             '(lazy=%s) but is refused: %s' % (c['depth'], c['elems'], c['D'], c['E'], c['lazy'], o['result'])))
        if not within and o['result'] == 'Loaded':
            problems.append(('primary', 'document of depth %d with %d elements exceeds MAX_XML_DEPTH=%d / MAX_XML_ELEMENTS=%d '
                             '(lazy=%s) but is processed' % (c['depth'], c['elems'], c['D'], c['E'], c['lazy'])))
        if o['result'] != m:
            problems.append(('aux', 'implementation %s, model %s' % (o['result'], m)))
        if problems:
            prim = [p for p in problems if p[0] == 'primary']
            ctx.violation('; '.join(p[1] for p in (prim or problems)), dict(rep, theorem='C11_limits_exact'), no_input=not prim)


def gen_fuzz(ctx):
    rng = ctx.rng
    q = ctx.quick()
    cases = []
    for i in range(500 if q else 12000):
        d = rng.choice(BASE_DOCS)
        for _ in range(rng.choice([1, 1, 2, 3])):
            d = mutate_doc(rng, d)
        cases.append({'doc': d, 'version': rng.choice(['10', '11'])})
    # every lexical of the pool at every simple element / attribute of the first base document (a sweep, not a sample:
    # what a value triggers depends on the type of the place it is put in)
    d0 = BASE_DOCS[0]
    spots = [m for m in re.finditer(r'>([^<>]+)<', d0)] + [m for m in re.finditer(r'="([^"]*)"', d0) if not d0[:m.start()].endswith('xmlns:t')]
    for k, m in enumerate(spots):
        for j, v in enumerate(LEX_POOL):
            v = v.replace('&#0;', 'x').replace('\ud7ff', 'y').replace('&', '&amp;').replace('<', '&lt;').replace('"', '&quot;')
            cases.append({'doc': d0[:m.start(1)] + v + d0[m.end(1):], 'version': '11' if (k + j) % 4 < 2 else '10'})
    # truncated and bit-flipped byte streams
    raw = BASE_DOCS[0].encode('utf-8')
    cuts = range(0, len(raw), 7 if q else 1)
    for k in cuts:
        cases.append({'hex': raw[:k].hex(), 'version': '10'})
    for i in range(120 if q else 3000):
        b = bytearray(raw)
        pos = rng.randrange(len(b))
        b[pos] ^= 1 << rng.randrange(8)
        cases.append({'hex': bytes(b).hex(), 'version': rng.choice(['10', '11'])})
    # XML declarations naming unknown, mismatching or multi-byte encodings (byte sources)
    body = b'<t:root xmlns:t="urn:c11"><t:item><t:n>1</t:n></t:item></t:root>'
    for enc in ('bogus-enc', 'utf-16', 'UTF-32', 'latin-1', 'ascii', 'cp037', 'utf-7', 'x-user-defined', '', 'UTF-8 ', 'idna', 'hex', 'punycode',
                'rot13', 'utf-8-sig', 'undefined', 'mbcs', 'unicode_escape'):
        cases.append({'hex': (b'<?xml version="1.0" encoding="' + enc.encode() + b'"?>' + body).hex(), 'version': '10'})
    cases.append({'hex': ('<?xml version="1.0" encoding="utf-16"?>' + body.decode()).encode('utf-16').hex(), 'version': '10'})
    cases.append({'hex': (b'<?xml version="1.0" encoding="latin-1"?>' + body.replace(b'>1<', b'>\xe9<')).hex(), 'version': '10'})
    # corpus documents of the repository's test cases with a seeded lexical mutation
    corpus = []
    base = os.path.join(str(common.REPO), 'tests', 'test_cases', 'examples')
    for name in ('collection/collection.xml', 'vehicles/vehicles.xml'):
        p = os.path.join(base, name)
        if os.path.exists(p):
            corpus.append(open(p).read())
    # deep documents (well-formed, within the default depth limit of 1000)
    for depth in (100, 300, 600, 900):
        doc = '<t:root xmlns:t="urn:c11"><t:item><t:n>1</t:n>' + '<t:sub><t:n>1</t:n>' * depth + '</t:sub>' * depth + '</t:item></t:root>'
        cases.append({'doc': doc, 'version': '10', 'deep': depth})
    return cases


def run(ctx):
    ctx.rule = ('limits: MAX_XML_DEPTH in {1,2,5,10,50} x MAX_XML_ELEMENTS in {3,20,1000} x depth in {D-1,D,D+1} x element count '
                'in {depth,E-1,E,E+1} x comments/PIs x eager/lazy; fuzz: two base documents of a schema with 12 datatypes, '
                'identity constraints, wildcards under 1-3 seeded mutations (lexical pool of %d values, stray xsi attributes, '
                'duplicate/delete/rename/foreign-namespace elements, unknown namespaces), every %s prefix of a document, bit '
                'flips, deep documents; 7 APIs per document; non-trivial = every case (all are error-path inputs)'
                % (len(LEX_POOL), '7th' if ctx.quick() else ''))
    check_limits(ctx)
    check_fuzz(ctx, gen_fuzz(ctx) + gen_wild(ctx))
    ctx.assumptions = ['exception containment is explored by seeded fuzzing and is not a theorem (C11 is partial by nature)',
                       'F-C11b: RecursionError for well-formed documents deeper than the interpreter allows is a known finding']


def replay(ctx, case):
    if case.get('kind') == 'limit':
        check_limits(ctx)
    else:
        check_fuzz(ctx, [case['case']])

"""Abstract content models: generation, rendering to XSD/XML, translation to Coq terms.

A model is a JSON tree:
  {'t':'e','n':name,'mn':int,'mx':int|None}              element reference (global element)
  {'t':'w','ns':constraint,'mn','mx'}                     element wildcard (namespace attribute)
  {'t':'g','k':'seq'|'choice'|'all','ps':[...],'mn','mx','ref':bool}
Symbols are interned: see SYMS.  Substitution: global element 'a' is the head of a group with member
'm', so the leaf `ref a` matches {a, m}.
"""
import itertools

TNS, ONS, PNS = 'urn:t', 'urn:o', 'urn:p'
# name -> (namespace, local, code)
SYMS = {
    'a': (TNS, 'a', 10), 'b': (TNS, 'b', 11), 'c': (TNS, 'c', 12), 'd': (TNS, 'd', 13),
    'm': (TNS, 'm', 14),                      # substitution member of head 'h'
    'h': (TNS, 'h', 15),                      # substitution head
    'k': (TNS, 'k', 16),                      # a second head: in XSD 1.1 'm' may substitute both (C15 dual family)
    'x': (ONS, 'x', 20), 'y': (PNS, 'y', 21), 'n': ('', 'n', 30),
}
CODE = {k: v[2] for k, v in SYMS.items()}
WILD_FORMS = ['##any', '##other', '##local', '##targetNamespace', ONS, '%s %s' % (ONS, PNS),
              '##local %s' % ONS]


def wild_allows(ns_constraint, sym, tns=TNS):
    """tns = target namespace of the schema document that declares the wildcard"""
    ns = SYMS[sym][0]
    if ns_constraint == '##any':
        return True
    if ns_constraint == '##other':
        return ns not in ('', tns)
    toks = ['' if t == '##local' else tns if t == '##targetNamespace' else t for t in ns_constraint.split()]
    return ns in toks


def leaf_symbols(leaf):
    """The symbols of SYMS that a leaf matches."""
    if 'syms' in leaf:
        return leaf['syms']
    if leaf['t'] == 'e':
        return ['h', 'm'] if leaf['n'] == 'h' else [leaf['n']]
    return [s for s in SYMS if wild_allows(leaf['ns'], s, leaf.get('tns', TNS))]


def leaves(m):
    if m['t'] == 'g':
        for p in m['ps']:
            yield from leaves(p)
    else:
        yield m


def size(m):
    return 1 + (sum(size(p) for p in m['ps']) if m['t'] == 'g' else 0)


def depth(m):
    return 1 + max(depth(p) for p in m['ps']) if m['t'] == 'g' else 0


def assign_pids(m, counter=None):
    counter = counter or [0]
    if m['t'] == 'g':
        for p in m['ps']:
            assign_pids(p, counter)
    else:
        counter[0] += 1
        m['pid'] = counter[0]
    return m


def occ_attrs(p):
    s = ''
    if p['mn'] != 1:
        s += ' minOccurs="%d"' % p['mn']
    if p['mx'] != 1:
        s += ' maxOccurs="%s"' % ('unbounded' if p['mx'] is None else p['mx'])
    return s


def render_particle(p, named):
    if p['t'] == 'e':
        return '<xs:element ref="t:%s"%s/>' % (p['n'], occ_attrs(p))
    if p['t'] == 'w':
        return '<xs:any namespace="%s" processContents="lax"%s/>' % (p['ns'], occ_attrs(p))
    tag = {'seq': 'sequence', 'choice': 'choice', 'all': 'all'}[p['k']]
    inner = ''.join(render_particle(q, named) for q in p['ps'])
    if p.get('ref'):
        name = 'g%d' % (len(named) + 1)
        named.append('<xs:group name="%s"><xs:%s>%s</xs:%s></xs:group>' % (name, tag, inner, tag))
        return '<xs:group ref="t:%s"%s/>' % (name, occ_attrs(p))
    return '<xs:%s%s>%s</xs:%s>' % (tag, occ_attrs(p), inner, tag)


def render_xsd(model, open_content=None):
    """open_content: None | ('interleave'|'suffix', namespace constraint)  (XSD 1.1 only)"""
    named = []
    body = render_particle(model, named)
    oc = ''
    if open_content:
        oc = ('<xs:openContent mode="%s"><xs:any namespace="%s" processContents="lax"/></xs:openContent>'
              % open_content)
    decls = ''.join('<xs:element name="%s" type="xs:string"/>' % k for k in ('a', 'b', 'c', 'd', 'h'))
    # 'm' substitutes the head 'h' through the abstract intermediate member 'mid'
    decls += '<xs:element name="mid" type="xs:string" substitutionGroup="t:h" abstract="true"/>'
    decls += '<xs:element name="m" type="xs:string" substitutionGroup="t:mid"/>'
    return ('<xs:schema xmlns:xs="http://www.w3.org/2001/XMLSchema" targetNamespace="%s" xmlns:t="%s" '
            'elementFormDefault="qualified">%s%s'
            '<xs:element name="r"><xs:complexType>%s%s</xs:complexType></xs:element></xs:schema>'
            % (TNS, TNS, decls, ''.join(named), oc, body))


def render_xml(word):
    parts = ['<t:r xmlns:t="%s" xmlns:o="%s" xmlns:p="%s">' % (TNS, ONS, PNS)]
    for s in word:
        ns, local, _ = SYMS[s]
        prefix = {TNS: 't:', ONS: 'o:', PNS: 'p:', '': ''}[ns]
        parts.append('<%s%s>v</%s%s>' % (prefix, local, prefix, local))
    parts.append('</t:r>')
    return ''.join(parts)


# ------------------------------------------------------------------ Coq terms
def coq_occ(p):
    return '%d %s' % (p['mn'], 'None' if p['mx'] is None else '(Some %d)' % p['mx'])


def coq_leaf(p):
    return 'Pos [%s]' % '; '.join('%d%%N' % CODE[s] for s in leaf_symbols(p))


def coq_part(p):
    if p['t'] == 'g':
        k = {'seq': 'KSeq', 'choice': 'KChoice', 'all': 'KAll'}[p['k']]
        ps = 'PNil'
        for q in reversed(p['ps']):
            ps = '(PCons %s %s)' % (coq_part(q), ps)
        return '(PGroup %s %s %s)' % (k, ps, coq_occ(p))
    return '(PLeaf %d (%s) %s)' % (p['pid'], coq_leaf(p), coq_occ(p))


def coq_syms(syms):
    return '[%s]' % '; '.join('%d%%N' % CODE[s] for s in syms)


def alphabet(model, extra=('d',)):
    syms = []
    for lf in leaves(model):
        for s in leaf_symbols(lf):
            if s not in syms:
                syms.append(s)
    for e in extra:
        if e not in syms:
            syms.append(e)
    return sorted(syms, key=lambda s: CODE[s])


def words_upto(syms, n):
    for length in range(n + 1):
        for w in itertools.product(syms, repeat=length):
            yield list(w)


def show(p):
    def occ(q):
        mn, mx = q['mn'], q['mx']
        if (mn, mx) == (1, 1):
            return ''
        if (mn, mx) == (0, 1):
            return '?'
        if (mn, mx) == (0, None):
            return '*'
        if (mn, mx) == (1, None):
            return '+'
        return '{%d,%s}' % (mn, '' if mx is None else mx)
    if p['t'] == 'e':
        return p['n'] + occ(p)
    if p['t'] == 'w':
        return 'any[%s]%s' % (p['ns'], occ(p))
    sep = {'seq': ',', 'choice': '|', 'all': '&'}[p['k']]
    return '(%s)%s%s' % (sep.join(show(q) for q in p['ps']), occ(p), '@ref' if p.get('ref') else '')


# ------------------------------------------------------------------ generators
OCCS = [(1, 1), (0, 1), (0, None), (1, None), (2, 2), (1, 2), (0, 2), (2, 3)]


def E(n, occ=(1, 1)):
    return {'t': 'e', 'n': n, 'mn': occ[0], 'mx': occ[1]}


def W(ns, occ=(1, 1)):
    return {'t': 'w', 'ns': ns, 'mn': occ[0], 'mx': occ[1]}


def G(k, ps, occ=(1, 1), ref=False):
    g = {'t': 'g', 'k': k, 'ps': ps, 'mn': occ[0], 'mx': occ[1]}
    if ref:
        g['ref'] = True
    return g


def exhaustive_depth1(names=('a', 'b'), kinds=('seq', 'choice'), occs=OCCS):
    """One group of one or two element leaves, every occurrence combination."""
    for k in kinds:
        for go in occs:
            for n1 in names:
                for o1 in occs:
                    yield G(k, [E(n1, o1)], go)
                    for n2 in names:
                        for o2 in occs:
                            yield G(k, [E(n1, o1), E(n2, o2)], go)


def random_model(rng, max_depth=3, max_leaves=6, names=('a', 'b', 'c'), version='1.0', p_wild=0.12, p_head=0.1,
                 p_ref=0.15, allow_all=True):
    budget = [max_leaves]

    def occ(small=False):
        if small:
            return rng.choice([(1, 1), (0, 1)])
        return rng.choice(OCCS + [(1, 1), (1, 1), (0, 1), (0, None)])

    def leaf():
        budget[0] -= 1
        r = rng.random()
        if r < p_wild:
            return W(rng.choice(WILD_FORMS), occ())
        if r < p_wild + p_head:
            return E('h', occ())
        return E(rng.choice(names), occ())

    def group(d, root=False):
        k = rng.choice(['seq', 'choice'])
        n = rng.randint(1, 3)
        ps = []
        for _ in range(n):
            if budget[0] <= 0:
                break
            if d < max_depth and rng.random() < 0.4 and budget[0] >= 2:
                ps.append(group(d + 1))
            else:
                ps.append(leaf())
        if not ps:
            ps = [leaf()]
        return G(k, ps, occ(), ref=(not root and rng.random() < p_ref))

    if allow_all and rng.random() < 0.12:
        n = rng.randint(1, 3)
        nm = rng.sample(list(names), min(n, len(names)))
        if version == '1.0':
            return G('all', [E(x, rng.choice([(1, 1), (0, 1)])) for x in nm], rng.choice([(1, 1), (0, 1)]))
        return G('all', [E(x, occ()) for x in nm], rng.choice([(1, 1), (0, 1)]))
    return group(1, root=True)


def shrink_candidates(m):
    """Structurally smaller variants (for shrinking a failing model)."""
    if m['t'] != 'g':
        return
    for i in range(len(m['ps'])):
        if len(m['ps']) > 1:
            yield dict(m, ps=m['ps'][:i] + m['ps'][i + 1:])
        for sub in shrink_candidates(m['ps'][i]):
            yield dict(m, ps=m['ps'][:i] + [sub] + m['ps'][i + 1:])
        q = m['ps'][i]
        if (q['mn'], q['mx']) != (1, 1):
            yield dict(m, ps=m['ps'][:i] + [dict(q, mn=1, mx=1)] + m['ps'][i + 1:])
    if (m['mn'], m['mx']) != (1, 1):
        yield dict(m, mn=1, mx=1)
    if m.get('ref'):
        yield {k: v for k, v in m.items() if k != 'ref'}

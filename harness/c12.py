"""C12 - resource access control confines every fetch to the allowed class of locations.

Exhaustive product: allow mode x reference mechanism (main source, include, import, redefine, override,
xsi:schemaLocation hint, URI mapper) x target (inside the sandbox, sibling directory sharing the sandbox name as
prefix, outside, remote) x location spelling (relative, '..' chains, dotted, absolute, file URL, percent-encoded
dots).  A temporary tree is created under build/tmp and removed afterwards.
Primary observable: interpreter audit events (`open`, `urllib.Request`) recorded while the schema is built / the
document validated - every opened location must belong to the class the mode admits, and a denied location must
not contribute declarations.  Correspondence: the decision of XMLResource.access_control on the normalised URL
vs Access.v `access_control`; posixpath normalisation vs `normalize_segments`."""
import os
import shutil
import sys
import urllib.parse

import common
from common import coq_list, coq_N

IMPORTS = 'From XV Require Import Base Access.'
REMOTE = 'http://127.0.0.1:9/inc.xsd'
_EVENTS = []
_HOOKED = [False]
_ON = [False]


def _hook(event, args):
    if not _ON[0]:
        return
    if event == 'open':
        p = args[0]
        if isinstance(p, bytes):
            p = p.decode('utf-8', 'replace')
        if isinstance(p, str):
            _EVENTS.append(('open', p))
    elif event == 'urllib.Request':
        _EVENTS.append(('url', str(args[0])))


def record(fn):
    if not _HOOKED[0]:
        sys.addaudithook(_hook)
        _HOOKED[0] = True
    del _EVENTS[:]
    _ON[0] = True
    try:
        return fn()
    finally:
        _ON[0] = False


def coq_str(s):
    return coq_list([coq_N(ord(c)) for c in s])


def make_tree(root):
    for d in ('sand', 'sand/sub', 'sand_evil', 'Sand', 'other', 'other/cwdonly'):
        os.makedirs(os.path.join(root, d), exist_ok=True)
    inc = ('<xs:schema xmlns:xs="http://www.w3.org/2001/XMLSchema" targetNamespace="%s">'
           '<xs:element name="%s" type="xs:string"/><xs:complexType name="CT"><xs:sequence/></xs:complexType>'
           '<xs:simpleType name="ST"><xs:restriction base="xs:string"/></xs:simpleType></xs:schema>')
    for d, marker in (('sand', 'inside'), ('sand/sub', 'insidesub'), ('sand_evil', 'sibling'), ('Sand', 'casesibling'),
                      ('other', 'outside'), ('other/cwdonly', 'outside')):
        with open(os.path.join(root, d, 'inc.xsd'), 'w') as f:
            f.write(inc % ('urn:t', marker))
        with open(os.path.join(root, d, 'imp.xsd'), 'w') as f:
            f.write(inc % ('urn:i', marker))


TARGETS = {'inside': 'sand/inc.xsd', 'insidesub': 'sand/sub/inc.xsd', 'sibling': 'sand_evil/inc.xsd',
           'casesibling': 'Sand/inc.xsd', 'outside': 'other/inc.xsd'}


def spellings(root, target):
    """location spellings of the target file as seen from root/sand/main.xsd"""
    if target == 'cwdonly':
        # a relative location that does not exist below the base directory; the same relative path exists below the
        # working directory of the process (root/other), which is outside the sandbox
        return {'relative': 'cwdonly/inc.xsd', 'dotted': './cwdonly/inc.xsd', 'detour': 'sub/../cwdonly/inc.xsd'}
    rel = os.path.relpath(os.path.join(root, TARGETS[target]), os.path.join(root, 'sand'))
    absp = os.path.join(root, TARGETS[target])
    out = {'relative': rel, 'dotted': './' + rel, 'absolute': absp, 'file-url': 'file://' + absp,
           'detour': 'sub/../' + rel, 'double-slash': rel.replace('/', '//', 1) if '/' in rel else './/' + rel}
    if rel.startswith('..'):
        out['encoded-dots'] = rel.replace('..', '%2e%2e', 1)
        out['encoded-dots-2'] = rel.replace('..', '%252e%252e', 1)       # percent-encoded twice / three times
        out['encoded-dots-3'] = rel.replace('..', '%25252e%25252e', 1)
    out['abs-detour'] = os.path.join(root, 'sand', 'sub', '..', rel)
    out['file-url-detour'] = 'file://' + os.path.join(root, 'sand', '..', TARGETS[target])
    return out


def main_schema(mech, location, version):
    head = '<xs:schema xmlns:xs="http://www.w3.org/2001/XMLSchema" targetNamespace="urn:t" xmlns:t="urn:t">'
    tail = '<xs:element name="root" type="xs:string"/></xs:schema>'
    loc = location.replace('imc.xsd', 'inc.xsd')
    if mech == 'include':
        return head + '<xs:include schemaLocation="%s"/>' % loc + tail
    if mech == 'import':
        return head + '<xs:import namespace="urn:i" schemaLocation="%s"/>' % loc.replace('inc.xsd', 'imp.xsd') + tail
    if mech.startswith('import2'):
        # a second import of a namespace that is already loaded from inside the sandbox (the loader classes differ in
        # whether and how they look at the second location)
        return (head + '<xs:import namespace="urn:i" schemaLocation="imp.xsd"/>'
                '<xs:import namespace="urn:i" schemaLocation="%s"/>' % loc.replace('inc.xsd', 'imp.xsd') + tail)
    if mech == 'redefine':
        return (head + '<xs:redefine schemaLocation="%s"><xs:simpleType name="ST"><xs:restriction base="t:ST">'
                '<xs:maxLength value="5"/></xs:restriction></xs:simpleType></xs:redefine>' % loc + tail)
    if mech == 'override':
        return (head + '<xs:override schemaLocation="%s"><xs:simpleType name="ST"><xs:restriction base="xs:token"/>'
                '</xs:simpleType></xs:override>' % loc + tail)
    return head + tail


def subject(case):
    import warnings
    warnings.simplefilter('ignore')
    import xmlschema
    root = os.path.join(str(common.BUILD), 'tmp', 'c12_%d' % os.getpid())
    if not os.path.isdir(os.path.join(root, 'sand')):
        make_tree(root)
    os.chdir(os.path.join(root, 'other'))
    mode, mech, target, spell, version = case['mode'], case['mech'], case['target'], case['spelling'], case['version']
    cls = xmlschema.XMLSchema11 if version == '1.1' else xmlschema.XMLSchema10
    location = REMOTE if target == 'remote' else spellings(root, target)[spell]
    main = os.path.join(root, 'sand', 'main_%s_%s.xsd' % (mech, abs(hash((target, spell, version))) % 10 ** 8))
    out = {'location': location, 'root': root}
    schema = None
    res = {}

    doc = os.path.join(root, 'sand', 'doc_%s.xml' % (abs(hash((target, spell))) % 10 ** 8))
    if mech in ('mapper', 'mapper-dict'):
        with open(main, 'w') as f:
            f.write(main_schema('include', 'mapped.xsd', version))
    elif mech == 'hint-inner':
        # the location hint sits on a non-root element of an instance document loaded from a file of the sandbox
        with open(main, 'w') as f:
            f.write('<xs:schema xmlns:xs="http://www.w3.org/2001/XMLSchema" targetNamespace="urn:t">'
                    '<xs:element name="root"><xs:complexType><xs:sequence><xs:element name="w" minOccurs="0"><xs:complexType><xs:sequence>'
                    '<xs:any namespace="##other" processContents="lax" minOccurs="0"/></xs:sequence></xs:complexType></xs:element>'
                    '</xs:sequence></xs:complexType></xs:element></xs:schema>')
        with open(doc, 'w') as f:
            f.write('<t:root xmlns:t="urn:t" xmlns:i="urn:i" xmlns:xsi="http://www.w3.org/2001/XMLSchema-instance">'
                    '<w xsi:schemaLocation="urn:i %s"><i:x>v</i:x></w></t:root>' % location.replace('inc.xsd', 'imp.xsd'))
    elif mech == 'hint':
        with open(main, 'w') as f:
            f.write('<xs:schema xmlns:xs="http://www.w3.org/2001/XMLSchema" targetNamespace="urn:t">'
                    '<xs:element name="root"><xs:complexType><xs:sequence><xs:any namespace="##other" '
                    'processContents="lax" minOccurs="0"/></xs:sequence></xs:complexType></xs:element></xs:schema>')
        with open(doc, 'w') as f:
            f.write('<t:root xmlns:t="urn:t" xmlns:i="urn:i" xmlns:xsi="http://www.w3.org/2001/XMLSchema-instance" '
                    'xsi:schemaLocation="urn:i %s"><i:%s>v</i:%s></t:root>'
                    % (location.replace('inc.xsd', 'imp.xsd'), 'x', 'x'))
    elif mech.startswith('copy-'):
        # the reference is made later, through a copy of the schema's global maps
        with open(main, 'w') as f:
            f.write(main_schema('none', location, version))
    elif mech != 'main':
        with open(main, 'w') as f:
            f.write(main_schema(mech, location, version))

    def build():
        nonlocal schema
        try:
            if mech == 'main':
                # the location itself is the main source, given relative to the sandbox base directory
                src = location if target == 'remote' or os.path.isabs(location) or location.startswith('file:') \
                    else os.path.join(root, 'sand', location)
                schema = cls(src, allow=mode, base_url=os.path.join(root, 'sand'))
            elif mech == 'mapper':
                schema = cls(main, allow=mode, uri_mapper=lambda u: location if u.endswith('mapped.xsd') else u)
            elif mech == 'mapper-dict':
                from xmlschema.utils.urls import normalize_url
                key = normalize_url('mapped.xsd', os.path.join(root, 'sand'))
                value = location
                if not (location.startswith(('file:', 'http')) or os.path.isabs(location)):
                    value = 'file://' + os.path.join(root, 'sand', location)      # an absolute URL below the sandbox prefix
                schema = cls(main, allow=mode, uri_mapper={key: value})
            elif mech in ('hint', 'hint-inner'):
                schema = cls(main, allow=mode)
                try:
                    res['hint_errors'] = len(list(schema.iter_errors(doc, use_location_hints=True)))
                except Exception as e:  # noqa
                    res['hint_exc'] = common.exc_class(e)
            elif mech.startswith('copy-'):
                base = cls(main, allow=mode, base_url=os.path.join(root, 'sand'))
                schema = base.maps.copy().validator
                if mech == 'copy-include':
                    schema.include_schema(location, base_url=os.path.join(root, 'sand'), build=True)
                else:
                    schema.import_schema('urn:i', location.replace('inc.xsd', 'imp.xsd'), base_url=os.path.join(root, 'sand'), build=True)
            elif mech.startswith('import2'):
                from xmlschema import loaders
                lc = {'import2-safe': loaders.SafeSchemaLoader, 'import2-location': loaders.LocationSchemaLoader,
                      'import2': loaders.SchemaLoader}[mech]
                schema = cls(main, allow=mode, loader_class=lc)
            else:
                schema = cls(main, allow=mode)
            res['build'] = 'ok'
        except Exception as e:  # noqa
            res['build'] = common.exc_class(e) + ': ' + str(e)[:120]

    record(build)
    events = list(_EVENTS)
    for f in (main, doc):
        if os.path.exists(f):
            os.unlink(f)
    out.update(res)
    # classify the accesses inside the temp tree (and remote ones)
    acc = []
    for kind, what in events:
        if kind == 'url':
            if what.startswith('http'):
                acc.append('remote')
            continue
        p = os.path.realpath(what) if not what.startswith('file:') else what
        if not p.startswith(root):
            continue
        relp = os.path.relpath(p, root)
        if os.path.basename(relp).startswith(('main_', 'doc_')):
            acc.append('main')
        elif relp.startswith('sand' + os.sep):
            acc.append('inside')
        elif relp.startswith('sand_evil') or relp.startswith('Sand' + os.sep):
            acc.append('sibling')
        else:
            acc.append('outside')
    out['accessed'] = sorted(set(acc))
    # which marker declarations ended up in the schema
    if schema is not None:
        names = set()
        try:
            for n in schema.maps.elements:
                names.add(n.split('}')[-1])
        except Exception:  # noqa
            pass
        out['markers'] = sorted(names & {'inside', 'insidesub', 'sibling', 'casesibling', 'outside'})
    # the decision on the normalised URL of the location (direct API) for the model correspondence
    try:
        from xmlschema.utils.urls import normalize_url
        base = os.path.join(root, 'sand')
        nurl = normalize_url(location, base)
        out['norm_url'] = nurl.replace(root, '/R')
        out['norm_base'] = normalize_url(base).replace(root, '/R')
        try:
            r = xmlschema.XMLResource.__new__(xmlschema.XMLResource)
            r._allow, r._base_url = mode, base
            r.access_control(nurl)
            out['decision'] = True
        except xmlschema.exceptions.XMLResourceBlocked:
            out['decision'] = False
    except Exception as e:  # noqa
        out['decision'] = 'EXC ' + common.exc_class(e) + ': ' + str(e)[:80]
    return out


def allowed_classes(mode):
    return {'all': {'inside', 'sibling', 'outside', 'remote'}, 'none': set(), 'local': {'inside', 'sibling', 'outside'},
            'remote': {'remote'}, 'sandbox': {'inside'}}[mode]


def target_class(target):
    return {'inside': 'inside', 'insidesub': 'inside', 'sibling': 'sibling', 'casesibling': 'sibling', 'outside': 'outside',
            'remote': 'remote', 'cwdonly': 'outside'}[target]


def model_term(case, o):
    url, base = o['norm_url'], o['norm_base']
    scheme = urllib.parse.urlsplit(url).scheme
    mode = {'all': 'AAll', 'none': 'ANone', 'local': 'ALocal', 'remote': 'ARemote', 'sandbox': 'ASandbox'}[case['mode']]
    segs = [s for s in urllib.parse.urlsplit(o['location']).path.split('/')]
    return ('(access_control %s (Some %s) %s %s, normalize_segments %s)'
            % (mode, coq_str(base), coq_str(scheme), coq_str(url), coq_list([coq_str(urllib.parse.unquote(s)) for s in segs])))


def evaluate(ctx, cases):
    impl = common.pool_map(subject, cases, procs=min(common.NPROC, 8))
    idx = [i for i, o in enumerate(impl) if isinstance(o.get('decision'), bool) and 'norm_url' in o]
    model = dict(zip(idx, common.coq_eval('C12', IMPORTS, '', [model_term(cases[i], impl[i]) for i in idx], shard=200)))
    for i, (c, o) in enumerate(zip(cases, impl)):
        rep = {'kind': 'access', 'case': c, 'impl': {k: v for k, v in o.items() if k != 'root'}}
        if 'harness_exception' in o:
            ctx.violation('subject failed: %s' % o['harness_exception'], rep, no_input=True)
            continue
        mode, tclass = c['mode'], target_class(c['target'])
        ctx.count((mode, c['mech'], c['target'], c['spelling'], c['version']),
                  nontrivial=mode in ('sandbox', 'local', 'remote', 'none') and c['target'] != 'inside')
        ctx.dist('mode_x_target', '%s/%s' % (mode, tclass))
        ok = allowed_classes(mode)
        problems = []
        # primary 1: every access belongs to the admitted class ('main' is the source the user passed; with mode
        # none / remote even that must not be opened when it is the location under test)
        for a in o['accessed']:
            if a == 'main':
                if c['mech'] != 'main' and mode in ('none', 'remote'):
                    problems.append("allow=%r but the local main source was opened" % mode)
                continue
            if a not in ok:
                problems.append("allow=%r but a %s location was opened (%s via %s spelled %r)"
                                % (mode, a, c['target'], c['mech'], o.get('location', '').replace(o['root'], '/R')))
        # primary 2: declarations of a denied location are absent
        if 'markers' in o and c['mech'] not in ('hint', 'hint-inner'):
            for mk in o['markers']:
                if target_class(mk) not in ok:
                    problems.append("allow=%r but declarations of the %s file are in the schema" % (mode, mk))
        prim = bool(problems)
        # correspondence with the model
        if i in model:
            mdec, msegs = model[i]
            if mdec != o['decision']:
                problems.append('access_control(%s, base=%s, url=%s): implementation %s, model %s'
                                % (mode, o['norm_base'], o['norm_url'], o['decision'], mdec))
        elif isinstance(o.get('decision'), str):
            problems.append('access_control raised %s' % o['decision'])
        if problems:
            ctx.violation('; '.join(problems), dict(rep, theorem='C12_decision_sound'), no_input=not prim)
        ctx.sample({'mode': mode, 'mechanism': c['mech'], 'target': c['target'], 'spelling': c['spelling'],
                    'accessed': o['accessed'], 'build': o.get('build'), 'decision': o.get('decision')}, cap=6)


def subject_remote_base(case):
    """a remote base_url: only 'all' and 'remote' may attempt the fetch"""
    import xmlschema
    mode, loc = case['mode'], case['location']
    res = {}

    def go():
        try:
            xmlschema.XMLResource(loc, base_url='http://127.0.0.1:9/schemas', allow=mode)
            res['result'] = 'ok'
        except Exception as e:  # noqa
            res['result'] = common.exc_class(e)
    record(go)
    res['remote_attempts'] = [w for k, w in _EVENTS if k == 'url' and w.startswith('http')]
    return res


def check_remote_base(ctx):
    cases = [{'mode': m, 'location': l} for m in ('all', 'remote', 'local', 'sandbox', 'none')
             for l in ('inc.xsd', 'sub/inc.xsd', 'http://127.0.0.1:9/schemas/inc.xsd', '../inc.xsd')]
    impl = common.pool_map(subject_remote_base, cases, procs=4)
    for c, o in zip(cases, impl):
        ctx.count(('remote-base', c['mode'], c['location']), nontrivial=c['mode'] not in ('all',))
        if 'harness_exception' in o:
            ctx.violation('subject failed: %s' % o['harness_exception'], {'kind': 'remote-base', 'case': c}, no_input=True)
        elif o['remote_attempts'] and c['mode'] not in ('all', 'remote'):
            ctx.violation("allow=%r with a remote base_url: remote location %s was requested (location %r)"
                          % (c['mode'], o['remote_attempts'][0], c['location']),
                          {'kind': 'remote-base', 'case': c, 'impl': o, 'theorem': 'C12_decision_sound'})


def subject_base_spelling(case):
    """a location resolved directly against a base directory given in another spelling ('//dir' is '/dir' on POSIX, the
    code path of UNC shares; a file URL; a trailing slash)"""
    import xmlschema
    root = os.path.join(str(common.BUILD), 'tmp', 'c12_%d' % os.getpid())
    if not os.path.isdir(os.path.join(root, 'sand')):
        make_tree(root)
    sand = os.path.join(root, 'sand')
    base = {'plain': sand, 'double-slash': '/' + sand, 'file-url': 'file://' + sand, 'trailing': sand + '/'}[case['base']]
    res = {}

    def go():
        for api in ('resource', 'schema'):
            try:
                if api == 'resource':
                    xmlschema.XMLResource(case['location'], base_url=base, allow=case['mode'])
                else:
                    xmlschema.XMLSchema('<xs:schema xmlns:xs="http://www.w3.org/2001/XMLSchema" targetNamespace="urn:t">'
                                        '<xs:include schemaLocation="%s"/></xs:schema>' % case['location'], base_url=base, allow=case['mode'])
                res[api] = 'ok'
            except Exception as e:  # noqa
                res[api] = common.exc_class(e)
    record(go)
    acc = set()
    for kind, what in _EVENTS:
        if kind == 'url' or what.startswith('file:'):
            continue
        p = os.path.realpath(what)
        if p.startswith(root) and p.endswith('.xsd'):
            relp = os.path.relpath(p, root)
            acc.add('inside' if relp.startswith('sand' + os.sep) else 'outside')
    res['accessed'] = sorted(acc)
    return res


def check_base_spelling(ctx):
    locs = [('inc.xsd', 'inside'), ('sub/inc.xsd', 'inside'), ('../other/inc.xsd', 'outside'), ('sub/../../other/inc.xsd', 'outside'),
            ('..%2Fother/inc.xsd', 'outside'), ('../sand_evil/inc.xsd', 'outside'), ('sub/../inc.xsd', 'inside')]
    cases = [{'mode': m, 'base': b, 'location': l, 'class': k} for m in ('sandbox', 'local', 'none')
             for b in ('plain', 'double-slash', 'file-url', 'trailing') for l, k in locs]
    impl = common.pool_map(subject_base_spelling, cases, procs=4)
    for c, o in zip(cases, impl):
        ctx.count(('base-spelling', c['mode'], c['base'], c['location']), nontrivial=True)
        if 'harness_exception' in o:
            ctx.violation('subject failed: %s' % o['harness_exception'], {'kind': 'base-spelling', 'case': c}, no_input=True)
            continue
        ctx.dist('base spelling', '%s/%s: %s' % (c['base'], c['mode'], ','.join(o['accessed']) or 'nothing opened'))
        allowed = allowed_classes(c['mode'])
        bad = [k for k in o['accessed'] if k not in allowed]
        if bad:
            ctx.violation("allow=%r with the base directory spelled as %s: a location %s the sandbox was opened (location %r)"
                          % (c['mode'], c['base'], bad[0], c['location']),
                          {'kind': 'base-spelling', 'case': c, 'impl': o, 'theorem': 'C12_sandbox_componentwise'})


def subject_chdir(case):
    """relative base directory with allow='sandbox': the sandbox is the directory the relative name denotes NOW; the same
    strings are used after the working directory has changed"""
    import xmlschema
    root = os.path.join(str(common.BUILD), 'tmp', 'c12_%d' % os.getpid())
    inc = ('<xs:schema xmlns:xs="http://www.w3.org/2001/XMLSchema" targetNamespace="urn:t">'
           '<xs:element name="%s" type="xs:string"/></xs:schema>')
    main = ('<xs:schema xmlns:xs="http://www.w3.org/2001/XMLSchema" targetNamespace="urn:t"><xs:include schemaLocation="inc.xsd"/>'
            '<xs:element name="root" type="xs:string"/></xs:schema>')
    for d, marker in (('wdA', 'fromA'), ('wdB', 'fromB')):
        os.makedirs(os.path.join(root, d, 'box'), exist_ok=True)
        with open(os.path.join(root, d, 'box', 'main.xsd'), 'w') as f:
            f.write(main)
        with open(os.path.join(root, d, 'box', 'inc.xsd'), 'w') as f:
            f.write(inc % marker)
    out = []
    for step in case['steps']:
        wd, api = step
        os.chdir(os.path.join(root, wd))
        res = {}

        def go():
            try:
                if api == 'schema-path':
                    sch = xmlschema.XMLSchema('box/main.xsd', allow='sandbox', base_url='box')
                elif api == 'schema-text':
                    sch = xmlschema.XMLSchema(main, allow='sandbox', base_url='box')
                elif api == 'abs-other':
                    # an absolute location inside the other directory's box: outside the current sandbox
                    other = 'wdB' if wd == 'wdA' else 'wdA'
                    sch = xmlschema.XMLSchema(main.replace('inc.xsd', os.path.join(root, other, 'box', 'inc.xsd')), allow='sandbox', base_url='box')
                else:
                    xmlschema.XMLResource('box/inc.xsd', allow='sandbox', base_url='box')
                    sch = None
                res['build'] = 'ok'
                res['markers'] = sorted(n.split('}')[-1] for n in sch.maps.elements if 'from' in n) if sch is not None else []
            except Exception as e:  # noqa
                res['build'] = common.exc_class(e)
                res['markers'] = []
        record(go)
        acc = set()
        for kind, what in _EVENTS:
            if kind == 'open' and not what.startswith('file:'):
                pth = os.path.realpath(what)
                if pth.startswith(root + os.sep + 'wd'):
                    acc.add(os.path.relpath(pth, root).split(os.sep)[0])
        res['accessed'] = sorted(acc)
        out.append(res)
    return out


def check_chdir(ctx):
    import random
    rng = random.Random(ctx.rng.randrange(10 ** 9))
    apis = ['schema-path', 'schema-text', 'abs-other', 'resource']
    cases = [{'steps': [[rng.choice(['wdA', 'wdB']), rng.choice(apis)] for _ in range(rng.randint(2, 5))]}
             for _ in range(24 if ctx.quick() else 300)]
    cases.insert(0, {'steps': [['wdA', 'schema-path'], ['wdB', 'schema-path']]})
    impl = common.pool_map(subject_chdir, cases, procs=4, fresh_process=True)
    for c, o in zip(cases, impl):
        rep = {'kind': 'chdir', 'case': c, 'impl': o}
        if isinstance(o, dict):
            ctx.violation('subject failed: %s' % o.get('harness_exception'), rep, no_input=True)
            continue
        for k, ((wd, api), r) in enumerate(zip(c['steps'], o)):
            ctx.count(('chdir', json_key(c['steps'][:k + 1])), nontrivial=k > 0)
            ctx.dist('relative sandbox after chdir', '%s step %d: %s' % (api, min(k, 3), r['build']))
            wrong = [a for a in r['accessed'] if a != wd]
            marks = [m for m in r['markers'] if m != 'from' + wd[-1]]
            if wrong or marks:
                ctx.violation("allow='sandbox', base_url='box' in working directory %s (step %d, %s, after %s): files of %s were opened, declarations %s"
                              % (wd, k, api, c['steps'][:k], wrong or 'no other directory', marks or 'none foreign'),
                              dict(rep, theorem='C12_sandbox_componentwise'))
                break


def json_key(x):
    import json
    return json.dumps(x)


def subject_reparse(case):
    """parse() of another source into an existing resource / document keeps the access control of the instance"""
    import xmlschema
    root = os.path.join(str(common.BUILD), 'tmp', 'c12_%d' % os.getpid())
    if not os.path.isdir(os.path.join(root, 'sand')):
        make_tree(root)
    sand = os.path.join(root, 'sand')
    target = os.path.join(root, TARGETS[case['target']])
    schema = xmlschema.XMLSchema('<xs:schema xmlns:xs="http://www.w3.org/2001/XMLSchema"><xs:element name="r"/></xs:schema>')
    res = {}

    def go():
        try:
            if case['cls'] == 'XmlDocument':
                obj = xmlschema.XmlDocument('<r/>', schema=schema, allow=case['mode'], base_url=sand)
            else:
                obj = xmlschema.XMLResource('<r/>', allow=case['mode'], base_url=sand)
            res['created'] = True
            obj.parse(target)
            res['parse'] = 'ok'
        except Exception as e:  # noqa
            res['parse'] = common.exc_class(e)
    record(go)
    res['opened'] = any(kind != 'url' and os.path.realpath(what) == os.path.realpath(target) for kind, what in _EVENTS
                        if not what.startswith('file:'))
    return res


def check_reparse(ctx):
    cases = [{'mode': m, 'cls': k, 'target': t} for m in ('none', 'sandbox', 'local', 'remote') for k in ('XMLResource', 'XmlDocument')
             for t in ('inside', 'outside', 'sibling')]
    impl = common.pool_map(subject_reparse, cases, procs=4)
    for c, o in zip(cases, impl):
        ctx.count(('reparse', c['mode'], c['cls'], c['target']), nontrivial=True)
        if 'harness_exception' in o or not o.get('created'):
            ctx.violation('subject failed: %s' % (o.get('harness_exception') or o), {'kind': 'reparse', 'case': c}, no_input=True)
            continue
        klass = 'inside' if c['target'] == 'inside' else 'sibling' if c['target'] == 'sibling' else 'outside'
        if o['opened'] and klass not in allowed_classes(c['mode']):
            ctx.violation("allow=%r: %s.parse() opened a file %s the sandbox (%s)" % (c['mode'], c['cls'], klass, TARGETS[c['target']]),
                          {'kind': 'reparse', 'case': c, 'impl': o, 'theorem': 'C12_decision_sound'})


def gen(ctx):
    cases = []
    modes = ['all', 'remote', 'local', 'sandbox', 'none']
    mechs = ['main', 'include', 'import', 'redefine', 'override', 'hint', 'hint-inner', 'mapper', 'mapper-dict',
             'import2', 'import2-safe', 'import2-location', 'copy-include', 'copy-import']
    spells = ['relative', 'dotted', 'absolute', 'file-url', 'detour', 'double-slash', 'encoded-dots', 'encoded-dots-2',
              'encoded-dots-3', 'abs-detour', 'file-url-detour']
    for mode in modes:
        for mech in mechs:
            for target in ('inside', 'insidesub', 'sibling', 'casesibling', 'outside', 'remote', 'cwdonly'):
                for sp in (spells if target not in ('remote', 'cwdonly') else ['relative'] if target == 'remote' else
                           ['relative', 'dotted', 'detour']):
                    if sp.startswith('encoded-dots') and target in ('inside', 'insidesub'):
                        continue
                    for version in ('1.0', '1.1'):
                        if mech == 'override' and version == '1.0':
                            continue
                        cases.append({'mode': mode, 'mech': mech, 'target': target, 'spelling': sp, 'version': version})
    if ctx.quick():
        keep = [c for c in cases if c['version'] == '1.1' or c['mech'] in ('include', 'main')]
        cases = keep
    return cases


def cleanup():
    tmp = os.path.join(str(common.BUILD), 'tmp')
    if os.path.isdir(tmp):
        for d in os.listdir(tmp):
            if d.startswith('c12_'):
                shutil.rmtree(os.path.join(tmp, d), ignore_errors=True)


def run(ctx):
    cleanup()
    try:
        cases = gen(ctx)
        ctx.exhaustive = True
        ctx.rule = ('allow mode (5) x mechanism (main, include, import, redefine, override, xsi:schemaLocation hint, URI '
                    'mapper) x target (inside, inside/sub, sibling sharing the sandbox name as prefix, outside, remote) x '
                    'spelling (11) x schema class%s; accesses observed through audit events; non-trivial = a restrictive mode '
                    'with a target outside the plain inside file' % (' (XSD 1.0 only for include/main in the quick tier)' if ctx.quick() else ''))
        evaluate(ctx, cases)
        check_remote_base(ctx)
        check_base_spelling(ctx)
        check_reparse(ctx)
        check_chdir(ctx)
    finally:
        cleanup()
    ctx.assumptions = ['accesses are observed as CPython audit events open / urllib.Request inside the temporary tree',
                       'remote locations use http://127.0.0.1:9 (connection refused); only the attempt is observed',
                       'symlinks are not used']


def replay(ctx, case):
    cleanup()
    try:
        if case.get('kind') == 'remote-base':
            check_remote_base(ctx)
        elif case.get('kind') == 'base-spelling':
            check_base_spelling(ctx)
        elif case.get('kind') == 'reparse':
            check_reparse(ctx)
        elif case.get('kind') == 'chdir':
            check_chdir(ctx)
        else:
            evaluate(ctx, [case['case']])
    finally:
        cleanup()

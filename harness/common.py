"""Shared machinery of the /verif checks (see DESIGN.md section 2).

A check = (1) Coq obligations: the project builds, props/Cxx.v compiles, every theorem in it is
followed by a Print Assumptions whose output is recorded; (2) correspondence: abstract cases are
run on the implementation in /repo (working tree) and through the model's executable definitions
inside Coq (`Eval vm_compute`, generated case files), and the outcomes are compared; (3) evidence.
"""
import fcntl
import hashlib
import json
import multiprocessing
import os
import random
import re
import subprocess
import sys
import time
import traceback
from pathlib import Path

VERIF = Path(__file__).resolve().parent.parent
REPO = Path(os.environ.get('VERIF_REPO', '/repo'))
COQ = VERIF / 'coq'
BUILD = VERIF / 'build'
NPROC = min(16, os.cpu_count() or 4)

FORBIDDEN = re.compile(
    r'^\s*(Axiom|Axioms|Parameter|Parameters|Conjecture|Admitted|Admit Obligations)\b|\badmit\b'
    r'|Unset Guard Checking|bypass_check|Unset Positivity|Unset Universe Checking|type-in-type'
    r'|impredicative-set', re.M)


# --------------------------------------------------------------------------- Coq value parser
_TOK = re.compile(r'\s*(\[|\]|\(|\)|;|,|"(?:[^"]|"")*"|-?\d+|[A-Za-z_][A-Za-z0-9_\.\']*|%[A-Za-z_]+|-)')


def _tokens(s):
    pos, out = 0, []
    s = s.strip()
    while pos < len(s):
        m = _TOK.match(s, pos)
        if not m:
            raise ValueError('cannot tokenise Coq output at %r' % s[pos:pos + 40])
        t = m.group(1)
        pos = m.end()
        if t.startswith('%'):
            continue
        out.append(t)
    return out


def parse_coq_value(s):
    """Parse the value printed by `Eval vm_compute in t.`: numbers -> int, true/false -> bool,
    lists -> list, tuples -> tuple, `C a b` -> ('C', a, b), bare constructor -> 'C',
    strings -> str."""
    toks = _tokens(s)
    pos = 0

    def atom():
        nonlocal pos
        t = toks[pos]
        if t == '[':
            pos += 1
            items = []
            if toks[pos] == ']':
                pos += 1
                return items
            while True:
                items.append(expr())
                if toks[pos] == ';':
                    pos += 1
                    continue
                if toks[pos] == ']':
                    pos += 1
                    return items
                raise ValueError('list syntax')
        if t == '(':
            pos += 1
            items = [expr()]
            while toks[pos] == ',':
                pos += 1
                items.append(expr())
            if toks[pos] != ')':
                raise ValueError('paren syntax')
            pos += 1
            return items[0] if len(items) == 1 else tuple(items)
        pos += 1
        if t == '-':
            v = atom()
            return -v
        if re.fullmatch(r'-?\d+', t):
            return int(t)
        if t.startswith('"'):
            return t[1:-1].replace('""', '"')
        if t == 'true':
            return True
        if t == 'false':
            return False
        return ('@', t)

    def expr():
        nonlocal pos
        head = atom()
        args = []
        while pos < len(toks) and toks[pos] not in (']', ')', ';', ','):
            args.append(atom())
        if isinstance(head, tuple) and len(head) == 2 and head[0] == '@':
            name = head[1]
            if not args:
                return None if name == 'None' else name
            return (name, *args)
        if args:
            raise ValueError('application of a non-constructor')
        return head

    v = expr()
    if pos != len(toks):
        raise ValueError('trailing tokens in Coq output')
    return v


def coq_list(items):
    return '[' + '; '.join(items) + ']'


def coq_N(n):
    return '%d%%N' % n


def coq_Z(n):
    return '(%d)%%Z' % n


def coq_bool(b):
    return 'true' if b else 'false'


def coq_opt(x, f=str):
    return 'None' if x is None else '(Some %s)' % f(x)


def coq_str(s):
    """A Python str of code points as `list N`."""
    return coq_list([coq_N(ord(c)) for c in s])


# --------------------------------------------------------------------------- Coq build
def _run(cmd, cwd=None, timeout=1800, env=None):
    try:
        p = subprocess.run(cmd, cwd=cwd, timeout=timeout, env=env, stdout=subprocess.PIPE,
                           stderr=subprocess.STDOUT, text=True)
        return p.returncode, p.stdout
    except subprocess.TimeoutExpired as e:
        out = e.stdout or ''
        if isinstance(out, bytes):
            out = out.decode('utf-8', 'replace')
        return 124, out + '\nTIMEOUT'


def coq_build():
    """Full .vo build of the project (no-op when fresh). Returns (ok, log)."""
    BUILD.mkdir(exist_ok=True)
    with open(BUILD / 'coq.lock', 'w') as lock:
        fcntl.flock(lock, fcntl.LOCK_EX)
        if not (COQ / 'Makefile').exists() or \
                (COQ / 'Makefile').stat().st_mtime < (COQ / '_CoqProject').stat().st_mtime:
            rc, out = _run(['coq_makefile', '-f', '_CoqProject', '-o', 'Makefile'], cwd=COQ)
            if rc:
                return False, out
        rc, out = _run(['make', '-k', '-j%d' % NPROC], cwd=COQ, timeout=3000)
        return rc == 0, out


def forbidden_scan():
    hits = []
    for p in sorted((COQ / 'theories').rglob('*.v')):
        txt = p.read_text()
        txt = re.sub(r'\(\*.*?\*\)', '', txt, flags=re.S)
        for m in FORBIDDEN.finditer(txt):
            hits.append('%s: %s' % (p.relative_to(COQ), m.group(0).strip()))
    return hits


def prop_obligations(pid):
    """Compile props/<pid>.v, return dict(theorems, assumptions, ok, log)."""
    src = COQ / 'theories' / 'props' / ('%s.v' % pid)
    text = src.read_text()
    theorems = re.findall(r'^Theorem\s+([A-Za-z0-9_\']+)', text, re.M)
    examples = re.findall(r'^Example\s+([A-Za-z0-9_\']+)', text, re.M)
    vo = src.with_suffix('.vo')
    ok = vo.exists() and vo.stat().st_mtime >= src.stat().st_mtime
    out_dir = BUILD / 'props'
    out_dir.mkdir(parents=True, exist_ok=True)
    # recompile into a scratch location to capture the Print Assumptions output
    scratch = out_dir / ('%s_pa.v' % pid)
    scratch.write_text(text)
    rc, out = _run(['coqc', '-Q', str(COQ / 'theories'), 'XV', str(scratch)], timeout=900)
    for ext in ('.vo', '.glob', '.vok', '.vos'):
        try:
            scratch.with_suffix(ext).unlink()
        except OSError:
            pass
    ok = ok and rc == 0
    assumptions = {}
    blocks = re.split(r'(?m)^(?=Closed under the global context|Axioms:)', out)
    blocks = [b for b in blocks if b.startswith(('Closed under', 'Axioms:'))]
    printed = re.findall(r'^Print Assumptions\s+([A-Za-z0-9_\']+)', text, re.M)
    for name, blk in zip(printed, blocks):
        if blk.startswith('Closed'):
            assumptions[name] = []
        else:
            assumptions[name] = re.findall(r'^([A-Za-z0-9_\.\']+)\s*:', blk, re.M)
    missing = [t for t in theorems if t not in assumptions]
    return dict(theorems=theorems, examples=examples, assumptions=assumptions, ok=ok,
                missing_print_assumptions=missing, log=out[-4000:])


def coq_eval(name, imports, defs, terms, shard=300, timeout=900):
    """Evaluate Coq terms (all of one type) with vm_compute; returns list of parsed values.
    Shards are compiled in parallel."""
    if not terms:
        return []
    d = BUILD / 'cases' / name
    d.mkdir(parents=True, exist_ok=True)
    for old in d.glob('*'):
        old.unlink()
    files = []
    for k in range(0, len(terms), shard):
        f = d / ('s%05d.v' % (k // shard))
        body = ';\n  '.join(terms[k:k + shard])
        f.write_text('%s\n%s\nDefinition cases_ :=\n [ %s ].\nEval vm_compute in cases_.\n'
                     % (imports, defs, body))
        files.append(f)
    procs = []
    results = [None] * len(files)

    def launch(i):
        # the output goes to a file: a pipe that nobody drains blocks coqc once the printed value exceeds its buffer
        with open(str(files[i]) + '.out', 'w') as fh:
            return subprocess.Popen(['timeout', str(timeout), 'coqc', '-Q', str(COQ / 'theories'),
                                     'XV', str(files[i])], stdout=fh, stderr=subprocess.STDOUT)
    pending = list(range(len(files)))
    running = {}
    while pending or running:
        while pending and len(running) < NPROC:
            i = pending.pop(0)
            running[i] = launch(i)
        for i, p in list(running.items()):
            if p.poll() is not None:
                results[i] = (p.returncode, open(str(files[i]) + '.out').read())
                del running[i]
        time.sleep(0.02)
    values = []
    for i, (rc, out) in enumerate(results):
        if rc != 0:
            raise RuntimeError('coqc failed on %s:\n%s' % (files[i], out[-3000:]))
        m = re.search(r'^\s*=\s(.*)\n\s*:\s', out, re.S | re.M)
        if not m:
            raise RuntimeError('no value in coqc output of %s:\n%s' % (files[i], out[-2000:]))
        v = parse_coq_value(m.group(1))
        values.extend(v)
    if len(values) != len(terms):
        raise RuntimeError('coq_eval: %d values for %d terms' % (len(values), len(terms)))
    return values


# --------------------------------------------------------------------------- subject pool
def _guard(fn_case):
    fn, case = fn_case
    try:
        return fn(case)
    except BaseException as e:  # noqa
        return {'harness_exception': '%s: %s' % (type(e).__name__, e),
                'tb': traceback.format_exc()[-1500:]}


def pool_map(fn, cases, procs=NPROC, chunksize=None, fresh_process=False):
    """fresh_process: every case runs in a newly forked process (no class-level / module-level state of the subject
    survives from one case to the next)"""
    if not cases:
        return []
    if not fresh_process and (procs <= 1 or len(cases) < 4):
        return [_guard((fn, c)) for c in cases]
    ctx = multiprocessing.get_context('fork')
    if fresh_process:
        with ctx.Pool(max(1, min(procs, len(cases))), maxtasksperchild=1) as pool:
            return pool.map(_guard, [(fn, c) for c in cases], chunksize=1)
    with ctx.Pool(procs) as pool:
        cs = chunksize or max(1, len(cases) // (procs * 8))
        return pool.map(_guard, [(fn, c) for c in cases], chunksize=cs)


def sub_seed(seed, *parts):
    h = hashlib.sha256(repr((seed,) + parts).encode()).digest()
    return int.from_bytes(h[:8], 'big')


def exc_class(e):
    """Map an exception to the small enum of DESIGN 2.2."""
    import xmlschema
    from xml.etree.ElementTree import ParseError
    if isinstance(e, xmlschema.XMLSchemaValidationError):
        return 'validation'
    for nm_, tag in (('XMLResourceBlocked', 'resource-blocked'),
                     ('XMLResourceForbidden', 'resource-forbidden'),
                     ('XMLResourceExceeded', 'resource-exceeded')):
        cls = getattr(xmlschema, nm_, None) or getattr(xmlschema.exceptions, nm_, None)
        if cls is not None and isinstance(e, cls):
            return tag
    mod_err = getattr(xmlschema.validators.exceptions, 'XMLSchemaModelError', None)
    if mod_err is not None and isinstance(e, mod_err):
        return 'model'
    if isinstance(e, xmlschema.XMLSchemaParseError):
        return 'schema-parse'
    if isinstance(e, xmlschema.XMLSchemaException):
        return 'other-library:' + type(e).__name__
    if isinstance(e, ParseError):
        return 'parse'
    return 'FOREIGN:' + type(e).__name__


def pinned_dir():
    d = VERIF / 'pinned'
    subs = sorted(x for x in d.iterdir() if x.is_dir()) if d.exists() else []
    return subs[-1] if subs else None


def run_pinned(module, function, cases, timeout=1800):
    """Run a subject function of a harness module against the pinned snapshot of the package."""
    if not cases:
        return []
    pd = pinned_dir()
    if pd is None:
        raise RuntimeError('no pinned snapshot under /verif/pinned')
    env = dict(os.environ, PYTHONPATH=str(pd), PYTHONHASHSEED='0', PYTHONDONTWRITEBYTECODE='1')
    p = subprocess.run([sys.executable, str(VERIF / 'harness' / 'worker.py'), module, function],
                       input=json.dumps(cases), env=env, stdout=subprocess.PIPE, stderr=subprocess.PIPE,
                       text=True, timeout=timeout)
    if p.returncode:
        raise RuntimeError('pinned worker failed: ' + p.stderr[-2000:])
    return json.loads(p.stdout)


# --------------------------------------------------------------------------- known findings
def load_known():
    p = VERIF / 'known_findings.json'
    if not p.exists():
        return {'findings': [], 'fixed': []}
    return json.loads(p.read_text())


# --------------------------------------------------------------------------- context
class Ctx:
    def __init__(self, pid, tier, seed):
        self.pid, self.tier, self.seed = pid, tier, seed
        self.rng = random.Random(sub_seed(seed, pid))
        self.t0 = time.time()
        self.violations = []        # (msg, replay_path, no_input)
        self.known_hits = {}        # finding id -> count
        self.evaluations = 0
        self.nontrivial = set()
        self.samples = []
        self.extra = {}
        self.assumptions = []
        self.rule = ''
        self.known = [f for f in load_known()['findings'] if f['property'] == pid]
        self.exhaustive = False

    def quick(self):
        return self.tier != 'thorough'

    def count(self, key=None, nontrivial=True, n=1):
        self.evaluations += n
        if nontrivial and key is not None:
            self.nontrivial.add(key if isinstance(key, (str, int, tuple)) else json.dumps(key, sort_keys=True))

    def sample(self, obj, cap=6):
        if len(self.samples) < cap:
            self.samples.append(obj)

    def dist(self, name, key, n=1):
        d = self.extra.setdefault('distribution', {}).setdefault(name, {})
        d[str(key)] = d.get(str(key), 0) + n

    def violation(self, msg, replay, no_input=False):
        """Record a violation with its replay object (written to replays/)."""
        (VERIF / 'replays').mkdir(exist_ok=True)
        blob = json.dumps(replay, sort_keys=True, default=str)
        h = hashlib.sha1(blob.encode()).hexdigest()[:12]
        path = VERIF / 'replays' / ('%s-%s.json' % (self.pid, h))
        replay = dict(replay)
        replay.setdefault('property', self.pid)
        replay['message'] = msg
        replay['no_failing_input_found'] = bool(no_input)
        path.write_text(json.dumps(replay, indent=1, sort_keys=True, default=str))
        if len(self.violations) < 50:
            self.violations.append((msg, str(path), no_input))

    def known_finding(self, fid):
        self.known_hits[fid] = self.known_hits.get(fid, 0) + 1

    def match_known(self, key):
        """Exact-input matching: a failing input belongs to a listed finding iff its canonical
        key is listed in that finding's `inputs`."""
        for f in self.known:
            if key in f.get('inputs', []):
                return f['id']
        return None


def write_evidence(ctx, obl, level='proof'):
    theorems = obl['theorems']
    discharged = len([t for t in theorems if t in obl['assumptions']]) if obl['ok'] else 0
    axioms = sorted({a for v in obl['assumptions'].values() for a in v})
    tb = [
        'Coq 8.16.1 kernel (coqc); vm_compute used for model evaluation and Examples; no native_compute',
        'axioms reported by Print Assumptions for the property theorems: %s'
        % (', '.join(axioms) if axioms else 'none (Closed under the global context)'),
        'hand-written Gallina model under coq/theories tied to /repo by the correspondence check of '
        'harness/%s.py (differential run of the same abstract cases on implementation and model; '
        'testing, not proof)' % ctx.pid.lower(),
        'Python harness: renderers from abstract cases to XSD/XML, canonicalisers, Coq output parser',
        'no extraction: the model is evaluated inside Coq',
    ]
    cov = {
        'obligations': len(theorems),
        'discharged': discharged,
        'checker_cmd': 'make -C coq (coq_makefile, full .vo build) && coqc -Q coq/theories XV '
                       'coq/theories/props/%s.v  # Print Assumptions under every theorem' % ctx.pid,
        'trusted_base': tb,
        'theorems': {t: obl['assumptions'].get(t) for t in theorems},
        'examples': obl['examples'],
        'evaluations': ctx.evaluations,
        'distinct_nontrivial': len(ctx.nontrivial),
        'rule': ctx.rule,
        'samples': ctx.samples or ['(no correspondence cases were run)'],
        'exhaustive': ctx.exhaustive,
        'known_finding_hits': ctx.known_hits,
    }
    cov.update(ctx.extra)
    ev = {
        'property_id': ctx.pid,
        'tier': 'thorough' if ctx.tier == 'thorough' else 'quick',
        'seed': ctx.seed,
        'level': level,
        'coverage': cov,
        'assumptions': ctx.assumptions,
        'wall_s': round(time.time() - ctx.t0, 2),
        'violations': len(ctx.violations),
    }
    (VERIF / 'evidence').mkdir(exist_ok=True)
    (VERIF / 'evidence' / ('%s.json' % ctx.pid)).write_text(
        json.dumps(ev, indent=1, sort_keys=True, default=str))
    return ev

"""Runs a harness subject function on JSON cases in a fresh interpreter: used to run the *pinned*
snapshot of the package (PYTHONPATH=/verif/pinned/<sha>) for known-finding classification.
usage: python worker.py <module> <function> < cases.json > outcomes.json"""
import importlib
import json
import os
import sys

sys.path.insert(0, os.path.dirname(os.path.abspath(__file__)))
import common  # noqa: E402


def main():
    mod = importlib.import_module(sys.argv[1])
    fn = getattr(mod, sys.argv[2])
    cases = json.load(sys.stdin)
    json.dump(common.pool_map(fn, cases), sys.stdout)


if __name__ == '__main__':
    main()

"""C08 - identity constraints: ID/IDREF and unique/key/keyref are enforced exactly.

Template: root > grp* (scope element carrying key K, unique U, keyref F refer K) > rows k*, u*, f*
with 1-3 fields on attributes or child elements, typed integer / decimal / boolean / string / QName;
rows carry optional xs:ID / xs:IDREF attributes.  Tables are enumerated exhaustively for small sizes
and seeded randomly otherwise, with lexical variants of equal values, missing fields and duplicates.
Primary: the document is rejected exactly when the declarative conditions of the property hold (computed
by the harness from value ids) - and the per-category error counts equal those of Identity.v."""
import itertools
import json
import re

import common
from common import coq_list, coq_Z

IMPORTS = 'From XV Require Import Base Identity.'

# type -> list of (lexical, value id)
POOLS = {
    'xs:integer': [('1', 1), ('01', 1), ('+1', 1), ('2', 2), ('10', 10), (' 2 ', 2)],
    'xs:decimal': [('1.0', 1), ('1', 1), ('1.00', 1), ('2.5', 2), ('2.50', 2), ('10', 10)],
    'xs:boolean': [('true', 1), ('1', 1), ('false', 0), ('0', 0)],
    'xs:string': [('x', 1), ('y', 2), ('X', 3), (' x', 4)],
    'xs:QName': [('p:a', 1), ('q:a', 1), ('p:b', 2), ('r:a', 3)],    # p and q are bound to the same namespace
}
TYPES = list(POOLS)
# field "." on elements declared xs:anySimpleType whose governing type comes from xsi:type: (lexical, value id, xsi:type).
# Values of different primitive types are never equal; xs:integer is derived from xs:decimal, so 1 and 1.0 are one value.
DOT_POOL = [('1', 101, 'xs:integer'), ('01', 101, 'xs:integer'), ('+1', 101, 'xs:integer'), ('2', 102, 'xs:integer'),
            ('1.0', 101, 'xs:decimal'), ('2.50', 125, 'xs:decimal'), ('2.5', 125, 'xs:decimal'), ('2', 102, 'xs:decimal'),
            ('true', 201, 'xs:boolean'), ('1', 201, 'xs:boolean'), ('false', 200, 'xs:boolean'), ('0', 200, 'xs:boolean'),
            ('1', 301, 'xs:string'), ('01', 302, 'xs:string'), ('true', 303, 'xs:string'), ('2.5', 304, 'xs:string')]
# with a target namespace the documents declare it as default namespace: unprefixed QNames are in urn:n1 like p: and q:
QNAME_TNS = POOLS['xs:QName'] + [('a', 1), ('b', 2)]


def pool(tmpl, i):
    if tmpl.get('dot'):
        return DOT_POOL
    ty = tmpl['types'][i]
    return QNAME_TNS if ty == 'xs:QName' and tmpl.get('tns') else POOLS[ty]


def schema_text(tmpl):
    nf, types, onattr = tmpl['nf'], tmpl['types'], tmpl['onattr']
    tns = tmpl.get('tns')
    px = 't:' if tns else ''
    if tmpl.get('dot'):
        return ('<xs:schema xmlns:xs="http://www.w3.org/2001/XMLSchema"><xs:element name="root"><xs:complexType><xs:sequence>'
                '<xs:element name="grp" minOccurs="0" maxOccurs="unbounded"><xs:complexType><xs:sequence>'
                '<xs:element name="k" type="xs:anySimpleType" minOccurs="0" maxOccurs="unbounded"/>'
                '<xs:element name="u" type="xs:anySimpleType" minOccurs="0" maxOccurs="unbounded"/>'
                '<xs:element name="f" type="xs:anySimpleType" minOccurs="0" maxOccurs="unbounded"/>'
                '</xs:sequence></xs:complexType>'
                '<xs:key name="K"><xs:selector xpath="k"/><xs:field xpath="."/></xs:key>'
                '<xs:unique name="U"><xs:selector xpath="u"/><xs:field xpath="."/></xs:unique>'
                '<xs:keyref name="F" refer="K"><xs:selector xpath="f"/><xs:field xpath="."/></xs:keyref>'
                '</xs:element></xs:sequence></xs:complexType></xs:element></xs:schema>')
    # a default value on a field's declaration: it supplies the value of an absent attribute, never that of an absent child
    dflt = tmpl.get('defaults') or [None] * nf
    def dv(i):
        return '' if dflt[i] is None else ' default="%s"' % POOLS[types[i]][dflt[i]][0]
    fields_decl_attr = ''.join('<xs:attribute name="a%d" type="%s"%s/>' % (i, types[i], dv(i)) for i in range(nf) if onattr[i])
    fields_decl_el = ''.join('<xs:element name="c%d" type="%s" minOccurs="0"%s/>' % (i, types[i], dv(i))
                             for i in range(nf) if not onattr[i])
    if tmpl.get('idel'):
        fields_decl_el += ('<xs:element name="ide" type="xs:ID" minOccurs="0"/>'
                           '<xs:element name="refe" type="xs:IDREF" minOccurs="0"/>'
                           # children with simple content that carry an xs:ID attribute of their own
                           '<xs:element name="note" minOccurs="0" maxOccurs="unbounded"><xs:complexType><xs:simpleContent>'
                           '<xs:extension base="xs:string"><xs:attribute name="id" type="xs:ID"/></xs:extension>'
                           '</xs:simpleContent></xs:complexType></xs:element>')
    row = ('<xs:complexType><xs:sequence>%s</xs:sequence>%s<xs:attribute name="id" type="xs:ID"/>'
           '<xs:attribute name="ref" type="xs:IDREF"/></xs:complexType>' % (fields_decl_el, fields_decl_attr))
    fields = ''.join('<xs:field xpath="%s"/>' % ('@a%d' % i if onattr[i] else '%sc%d' % (px, i)) for i in range(nf))
    head = ('<xs:schema xmlns:xs="http://www.w3.org/2001/XMLSchema" targetNamespace="urn:n1" xmlns:t="urn:n1" '
            'elementFormDefault="qualified">' if tns else '<xs:schema xmlns:xs="http://www.w3.org/2001/XMLSchema">')
    return (head +
            '<xs:element name="root"><xs:complexType><xs:sequence>'
            '<xs:element name="grp" minOccurs="0" maxOccurs="unbounded"><xs:complexType><xs:sequence>'
            '<xs:element name="k" minOccurs="0" maxOccurs="unbounded">%s</xs:element>'
            '<xs:element name="u" minOccurs="0" maxOccurs="unbounded">%s</xs:element>'
            '<xs:element name="f" minOccurs="0" maxOccurs="unbounded">%s</xs:element>'
            '</xs:sequence></xs:complexType>'
            '<xs:key name="K"><xs:selector xpath="%sk"/>%s</xs:key>'
            '<xs:unique name="U"><xs:selector xpath="%su"/>%s</xs:unique>'
            '<xs:keyref name="F" refer="%sK"><xs:selector xpath="%sf"/>%s</xs:keyref>'
            '</xs:element>%s</xs:sequence></xs:complexType>%s</xs:element></xs:schema>'
            % (row, row, row, px, fields, px, fields, px, px, fields,
               # a key reference declared on the ancestor of the key's scope element (refer across levels)
               '<xs:element name="fa" minOccurs="0" maxOccurs="unbounded">%s</xs:element>' % row if tmpl.get('cross') else '',
               '<xs:keyref name="FA" refer="%sK"><xs:selector xpath="%sfa"/>%s</xs:keyref>' % (px, px, fields) if tmpl.get('cross') else ''))


def render_row(tag, row, tmpl):
    if tmpl.get('dot'):
        lex, _v, ty = DOT_POOL[row['cells'][0]]
        return '<%s xsi:type="%s">%s</%s>' % (tag, ty, lex, tag)
    attrs, kids = '', ''
    for i, cell in enumerate(row['cells']):
        if cell is None:
            continue
        lex = pool(tmpl, i)[cell][0]
        if tmpl['onattr'][i]:
            attrs += ' a%d="%s"' % (i, lex)
        else:
            # a descendant that rebinds the prefixes used by QName values of the selected node itself (its own value is not a
            # QName): the fields of the selected node are resolved with the bindings in scope at that node
            rb = ' xmlns:p="urn:n2" xmlns:q="urn:n3"' if row.get('rebind') and tmpl['types'][i] != 'xs:QName' else ''
            kids += '<c%d%s>%s</c%d>' % (i, rb, lex, i)
    rb = ' xmlns:p="urn:n2" xmlns:q="urn:n3"' if row.get('rebind') else ''
    if row.get('id'):
        attrs += ' id="%s"' % row['id']
    if row.get('ref'):
        attrs += ' ref="%s"' % row['ref']
    if row.get('ide'):
        kids += '<ide%s>%s</ide>' % (rb, row['ide'])
    if row.get('refe'):
        kids += '<refe%s>%s</refe>' % (rb, row['refe'])
    for nid in row.get('notes', []):
        kids += '<note id="%s">n</note>' % nid
    return '<%s%s>%s</%s>' % (tag, attrs, kids, tag)


def render_doc(case):
    t = case['tmpl']
    parts = ['<root %sxmlns:p="urn:n1" xmlns:q="urn:n1" xmlns:r="urn:n2" '
             'xmlns:xsi="http://www.w3.org/2001/XMLSchema-instance" xmlns:xs="http://www.w3.org/2001/XMLSchema">' % ('xmlns="urn:n1" ' if t.get('tns') else '')]
    for g in case['groups']:
        parts.append('<grp>')
        for tag in ('k', 'u', 'f'):
            for row in g[tag]:
                parts.append(render_row(tag, row, t))
        parts.append('</grp>')
    for row in case.get('fa', []):
        parts.append(render_row('fa', row, t))
    parts.append('</root>')
    return ''.join(parts)


_SCHEMAS = {}


def subject(case):
    import xmlschema
    key = json.dumps(case['tmpl'], sort_keys=True) + case['version']
    if key not in _SCHEMAS:
        cls = xmlschema.XMLSchema11 if case['version'] == '1.1' else xmlschema.XMLSchema10
        _SCHEMAS[key] = cls(schema_text(case['tmpl']))
    s = _SCHEMAS[key]
    xml = render_doc(case)
    try:
        errs = list(s.iter_errors(xml))
        valid = s.is_valid(xml)
    except Exception as e:  # noqa
        return {'exc': common.exc_class(e) + ': ' + str(e)[:200]}
    counts = {'dup': 0, 'missing': 0, 'dangling': 0, 'dangling_root': 0, 'id_dup': 0, 'idref': 0, 'other': 0}
    other = []
    for e in errs:
        r = str(e.reason or '')
        if 'duplicated value' in r:
            counts['dup'] += 1
        elif 'missing key field' in r:
            counts['missing'] += 1
        elif 'not found for' in r and 'IDREF' not in r and (e.path or '').count('/') == 1:
            counts['dangling_root'] += 1
        elif 'not found for' in r:
            counts['dangling'] += 1
        elif 'duplicated xs:ID' in r:
            counts['id_dup'] += 1
        elif 'IDREF' in r and 'not found' in r:
            counts['idref'] += 1
        else:
            counts['other'] += 1
            other.append(r[:120])
    return {'valid': valid, 'counts': counts, 'other': other}


def tuple_of(row, tmpl):
    dflt = tmpl.get('defaults') or [None] * len(row['cells'])
    return [(pool(tmpl, i)[dflt[i]][1] if (dflt[i] is not None and tmpl['onattr'][i]) else None) if c is None else pool(tmpl, i)[c][1]
            for i, c in enumerate(row['cells'])]


def coq_tuple(t):
    return coq_list(['None' if v is None else '(Some %s)' % coq_Z(v) for v in t])


def model_term(case):
    t = case['tmpl']
    scopes = []
    for g in case['groups']:
        scopes.append('{| s_key := %s; s_unique := %s; s_keyref := %s |}' % tuple(
            coq_list([coq_tuple(tuple_of(r, t)) for r in g[tag]]) for tag in ('k', 'u', 'f')))
    ids, refs = doc_ids(case)
    idcode = {}
    for x in ids + refs:
        idcode.setdefault(x, len(idcode) + 1)
    fa = coq_list([coq_tuple(tuple_of(r, t)) for r in case.get('fa', [])])
    return ('(let ss := %s in let errs := doc_errors ss in let tables := map (fun s => qualified (s_key s)) ss in '
            '(length (filter (fun e => match e with Dup _ => true | _ => false end) errs), '
            'length (filter (fun e => match e with Missing _ => true | _ => false end) errs), '
            'length (filter (fun e => match e with Dangling _ => true | _ => false end) errs), '
            'ids_ok %s %s, length (ancestor_keyref_errors tables %s), length (last_table_keyref_errors tables %s)))'
            % (coq_list(scopes), coq_list([coq_Z(idcode[x]) for x in ids]), coq_list([coq_Z(idcode[x]) for x in refs]), fa, fa))


def doc_ids(case):
    ids, refs = [], []
    for g in list(case['groups']) + [{'k': [], 'u': [], 'f': case.get('fa', [])}]:
        for tag in ('k', 'u', 'f'):
            for row in g[tag]:
                if row.get('id'):
                    ids.append(row['id'])
                if row.get('ref'):
                    refs.append(row['ref'])
                # XSD 1.1: an xs:ID child identifies its parent, so the same value on the attribute and on the child of
                # one row binds the value to one element only
                if row.get('ide') and not (case['version'] == '1.1' and row.get('id') == row['ide']):
                    ids.append(row['ide'])
                if row.get('refe'):
                    refs.append(row['refe'])
                ids.extend(row.get('notes', []))      # the ID attribute of a note identifies the note element
    return ids, refs


def spec_invalid(case, last_table=None):
    """The property's conditions, computed independently of both implementation and model.
    last_table: pass a list to collect the ancestor references that the last-instance rule of the code reports."""
    t = case['tmpl']
    reasons = []
    ids, refs = doc_ids(case)
    if len(set(ids)) != len(ids):
        reasons.append('ID twice')
    if any(r not in ids for r in refs):
        reasons.append('IDREF without ID')
    for g in case['groups']:
        kt = [tuple_of(r, t) for r in g['k']]
        if any(None in x for x in kt):
            reasons.append('key field missing')
        kq = [tuple(x) for x in kt if None not in x]
        if len(set(kq)) != len(kq):
            reasons.append('key duplicate')
        uq = [tuple(tuple_of(r, t)) for r in g['u']]
        uq = [x for x in uq if None not in x]
        if len(set(uq)) != len(uq):
            reasons.append('unique duplicate')
        for r in g['f']:
            x = tuple(tuple_of(r, t))
            if None not in x and x not in kq:
                reasons.append('dangling keyref')
    # key references declared on the ancestor: the referred table is the union of the scope instances' tables
    # without the values present in more than one of them (XSD node-table propagation)
    tables = [set(tuple(x) for x in (tuple_of(r, t) for r in g['k']) if None not in x) for g in case['groups']]
    for r in case.get('fa', []):
        x = tuple(tuple_of(r, t))
        if None not in x:
            n = sum(1 for tb in tables if x in tb)
            if n != 1:
                reasons.append('dangling ancestor keyref')
            if last_table is not None and not (tables and x in tables[-1]):
                last_table.append(x)
    return reasons


def evaluate(ctx, cases):
    impl = common.pool_map(subject, cases)
    model = common.coq_eval('C08', IMPORTS, '', [model_term(c) for c in cases], shard=200)
    for c, o, m in zip(cases, impl, model):
        xml = render_doc(c)
        rep = {'kind': 'table', 'case': c, 'xml': xml, 'xsd': schema_text(c['tmpl']), 'impl': o}
        if 'harness_exception' in o or 'exc' in o:
            ctx.violation('validation raised: %s for %s' % (o.get('exc') or o.get('harness_exception'), xml), rep,
                          no_input='harness_exception' in o)
            continue
        reasons = spec_invalid(c)
        nrows = sum(len(g[t]) for g in c['groups'] for t in 'kuf')
        ctx.count(('t', xml, json.dumps(c['tmpl'], sort_keys=True), c['version']), nontrivial=nrows >= 3)
        ctx.dist('spec_verdict', 'invalid:' + ','.join(sorted(set(reasons))) if reasons else 'valid')
        ctx.dist('fields', 'field "." typed by xsi:type' if c['tmpl'].get('dot') else
                 '%d %s' % (c['tmpl']['nf'], '/'.join(t.split(':')[1] for t in c['tmpl']['types'])))
        ndup, nmiss, ndang, idsok, nanc, nlast = m
        cnt = o['counts']
        problems = []
        if c.get('fa'):
            ctx.dist('ancestor keyref', 'spec %d dangling, last-table rule %d' % (min(nanc, 3), min(nlast, 3)))
        # F-C08a: the code sees only the last scope instance's key table from an ancestor
        others = [x for x in reasons if x != 'dangling ancestor keyref']
        if c.get('fa') and len(c['groups']) >= 2 and nanc != nlast and cnt['dangling_root'] == nlast and not cnt['other'] \
                and o['valid'] == (not others and nlast == 0) and (cnt['dup'], cnt['missing'], cnt['dangling']) == (ndup, nmiss, ndang):
            ctx.known_finding('F-C08a')
            continue
        if cnt['dangling_root'] != nanc:
            problems.append(('aux', 'dangling references of the ancestor keyref: impl=%d model=%d' % (cnt['dangling_root'], nanc)))
        if o['valid'] != (not reasons):
            problems.append(('primary', 'document is %s but the identity conditions say %s (%s)'
                             % ('accepted' if o['valid'] else 'rejected', 'valid' if not reasons else 'invalid',
                                ', '.join(sorted(set(reasons))) or 'no violated constraint')))
        if cnt['other']:
            problems.append(('primary' if not reasons else 'aux', 'unexpected errors %s' % o['other'][:2]))
        if (cnt['dup'], cnt['missing'], cnt['dangling']) != (ndup, nmiss, ndang):
            problems.append(('aux', 'error counts (duplicate, missing, dangling) impl=%s model=%s'
                             % ((cnt['dup'], cnt['missing'], cnt['dangling']), (ndup, nmiss, ndang))))
        if (cnt['id_dup'] + cnt['idref'] == 0) != idsok:
            problems.append(('aux', 'ID/IDREF errors impl=%s model ids_ok=%s' % ((cnt['id_dup'], cnt['idref']), idsok)))
        if problems:
            prim = [p for p in problems if p[0] == 'primary']
            ctx.violation('%s: %s' % (xml, '; '.join(p[1] for p in (prim or problems))),
                          dict(rep, model=list(m), theorem='C08_unique/C08_key/C08_keyref/C08_ids'),
                          no_input=not prim)
        ctx.sample({'xml': xml, 'fields': c['tmpl'], 'impl': o['counts'], 'valid': o['valid']}, cap=5)


def rand_row(rng, tmpl, p_missing=0.2, ids=None):
    cells = []
    for i in range(tmpl['nf']):
        if rng.random() < p_missing:
            cells.append(None)
        else:
            cells.append(rng.randrange(len(pool(tmpl, i))))
    row = {'cells': cells}
    if 'xs:QName' in tmpl['types'] and rng.random() < 0.5:
        row['rebind'] = True
    if ids is not None:
        r = rng.random()
        if r < 0.15:
            row['id'] = rng.choice(['i1', 'i2', 'i3'])
        elif r < 0.25:
            row['ref'] = rng.choice(['i1', 'i2', 'i4'])
        if tmpl.get('idel'):
            r = rng.random()
            if r < 0.2:
                row['ide'] = rng.choice(['i1', 'i2', 'i3', 'i5'])
            elif r < 0.4:
                row['refe'] = rng.choice(['i1', 'i2', 'i5'])
            if rng.random() < 0.25:
                # same value on sibling notes, or the value of the row's own ID: distinct elements, so a duplicate
                row['notes'] = [rng.choice(['i1', 'i6', 'i7', row.get('id') or 'i6']) for _ in range(rng.randint(1, 2))]
    return row


def rand_tmpl(rng):
    nf = rng.choice([1, 1, 2, 2, 3])
    types = [rng.choice(TYPES) for _ in range(nf)]
    return {'nf': nf, 'types': types, 'onattr': [rng.random() < 0.7 for _ in range(nf)],
            'defaults': [rng.randrange(len(POOLS[t])) if t != 'xs:QName' and rng.random() < 0.3 else None for t in types],
            'tns': rng.random() < (0.7 if 'xs:QName' in types else 0.2), 'idel': rng.random() < 0.35,
            'cross': rng.random() < 0.35}


def gen(ctx):
    rng = ctx.rng
    cases = []
    # exhaustive small tables: 2 fields (integer, string) on attributes, unique rows <= 3 over 2 values + absent
    t2 = {'nf': 2, 'types': ['xs:integer', 'xs:string'], 'onattr': [True, True]}
    cells = [None, 0, 1, 3]     # absent, '1', '01' (same value), '2'
    cells2 = [None, 0, 1]
    rows = [{'cells': [a, b]} for a in cells for b in cells2]
    combos = list(itertools.product(rows, repeat=2)) + list(itertools.product(rows, repeat=3))
    if ctx.quick():
        combos = rng.sample(combos, 250)
    for tag in ('u', 'k'):
        for cb in combos:
            g = {'k': [], 'u': [], 'f': []}
            g[tag] = [dict(r) for r in cb]
            cases.append({'tmpl': t2, 'version': '1.0' if len(cases) % 2 else '1.1', 'groups': [g]})
    # keyref against a fixed key table
    for cb in (list(itertools.product(rows, repeat=2)) if not ctx.quick() else rng.sample(list(itertools.product(rows, repeat=2)), 80)):
        g = {'k': [{'cells': [0, 0]}, {'cells': [3, 1]}], 'u': [], 'f': [dict(r) for r in cb]}
        cases.append({'tmpl': t2, 'version': '1.0' if len(cases) % 2 else '1.1', 'groups': [g]})
    # seeded random templates / tables / nested scopes
    for i in range(700 if ctx.quick() else 12000):
        tm = rand_tmpl(rng)
        groups = []
        for _ in range(rng.choice([1, 1, 2, 3])):
            p_missing = rng.choice([0.0, 0.1, 0.3])
            g = {tag: [rand_row(rng, tm, p_missing if tag != 'k' else p_missing / 3, ids=True)
                       for _ in range(rng.choice([0, 1, 2, 3, 4]))] for tag in ('k', 'u', 'f')}
            # keyrefs that mostly hit the key table
            for r in g['f']:
                if g['k'] and rng.random() < 0.6:
                    src = rng.choice(g['k'])['cells']
                    r['cells'] = [c if c is None else _variant(rng, tm, j, c) for j, c in enumerate(src)]
            groups.append(g)
        case = {'tmpl': tm, 'version': '1.1' if i % 2 else '1.0', 'groups': groups}
        if tm.get('cross'):
            fa = []
            for _ in range(rng.choice([1, 1, 2, 3])):
                r = rand_row(rng, tm, 0.1, ids=None)
                g = rng.choice(groups)
                if g['k'] and rng.random() < 0.8:
                    src = rng.choice(g['k'])['cells']
                    r['cells'] = [c if c is None else _variant(rng, tm, j, c) for j, c in enumerate(src)]
                fa.append(r)
            case['fa'] = fa
        cases.append(case)
    # field "." on xs:anySimpleType elements typed by xsi:type
    td = {'nf': 1, 'types': ['xsi:type'], 'onattr': [False], 'dot': True}
    for i in range(150 if ctx.quick() else 3000):
        groups = []
        for _ in range(rng.choice([1, 1, 2])):
            g = {tag: [{'cells': [rng.randrange(len(DOT_POOL))]} for _ in range(rng.choice([0, 1, 2, 3]))] for tag in ('k', 'u', 'f')}
            for r in g['f']:
                if g['k'] and rng.random() < 0.6:
                    r['cells'] = [_variant(rng, td, 0, rng.choice(g['k'])['cells'][0])]
            groups.append(g)
        cases.append({'tmpl': td, 'version': '1.1' if i % 2 else '1.0', 'groups': groups})
    return cases


def _variant(rng, tmpl, j, idx):
    """another lexical form of the same value"""
    pl = pool(tmpl, j)
    val = pl[idx][1]
    same = [i for i, e in enumerate(pl) if e[1] == val]
    return rng.choice(same)


RECURSIVE_XSD = ('<xs:schema xmlns:xs="http://www.w3.org/2001/XMLSchema"><xs:complexType name="S"><xs:sequence>'
                 '<xs:element name="s" type="S" minOccurs="0" maxOccurs="unbounded"><xs:unique name="U"><xs:selector xpath="u"/>'
                 '<xs:field xpath="@n"/></xs:unique><xs:key name="K"><xs:selector xpath="e"/><xs:field xpath="@n"/></xs:key>'
                 '<xs:keyref name="R" refer="K"><xs:selector xpath="r"/><xs:field xpath="@n"/></xs:keyref></xs:element>'
                 + ''.join('<xs:element name="%s" minOccurs="0" maxOccurs="unbounded"><xs:complexType><xs:attribute name="n" type="xs:int"/>'
                           '</xs:complexType></xs:element>' % t for t in 'eur') +
                 '</xs:sequence>LANG</xs:complexType><xs:element name="root" type="S"/></xs:schema>')
# XSD 1.1: the scope element may carry an inheritable attribute (the element is then processed with a copy of the context)
RECURSIVE_LANG = {'1.0': '<xs:attribute name="lang" type="xs:string"/>', '1.1': '<xs:attribute name="lang" type="xs:string" inheritable="true"/>'}
RECURSIVE_DOCS = ['<root><s><s><e n="5"/></s><e n="1"/><e n="1"/></s></root>',      # duplicates after a nested scope instance
                  '<root><s><e n="1"/><e n="1"/></s></root>']                          # (no nesting)


def gen_scope(rng, depth):
    """a scope instance <s>: nested instances first (content model (s*, e*, u*, r*)), then its own key / unique / keyref rows"""
    kids = [gen_scope(rng, depth + 1) for _ in range(rng.choice([0, 0, 1, 1, 2]) if depth < 3 else 0)]
    vals = lambda n: [rng.choice([1, 1, 2, 3]) for _ in range(n)]      # noqa: E731
    return {'kids': kids, 'e': vals(rng.choice([0, 1, 2, 3])), 'u': vals(rng.choice([0, 1, 2])), 'r': vals(rng.choice([0, 1, 2])),
            'lang': rng.random() < 0.3}


def render_scope(sc):
    return '<s%s>%s%s</s>' % (' lang="en"' if sc.get('lang') else '', ''.join(render_scope(k) for k in sc['kids']),
                            ''.join('<%s n="%s"/>' % (t, v) for t in 'eur' for v in sc[t]))


def flat_scopes(sc):
    out = [sc]
    for k in sc['kids']:
        out += flat_scopes(k)
    return out


def subject_recursive(case):
    import xmlschema
    key = 'rec' + case['version']
    if key not in _SCHEMAS:
        _SCHEMAS[key] = (xmlschema.XMLSchema11 if case['version'] == '1.1' else xmlschema.XMLSchema10)(
            RECURSIVE_XSD.replace('LANG', RECURSIVE_LANG[case['version']]))
    s = _SCHEMAS[key]
    try:
        errs = [str(e.reason or '') for e in s.iter_errors(case['xml'])]
        return {'valid': s.is_valid(case['xml']), 'dup': sum('duplicated value' in r for r in errs),
                'dangling': sum('not found for' in r for r in errs), 'other': [r[:100] for r in errs if 'duplicated value' not in r and 'not found for' not in r]}
    except Exception as e:  # noqa
        return {'exc': common.exc_class(e) + ': ' + str(e)[:160]}


def check_recursive_scope(ctx):
    """an element that can contain itself declares unique / key / keyref: every instance of the element is a scope of its
    own (C08_scope_independent); fixed 8cf8a00 (was finding F-C08b)"""
    rng = ctx.rng
    cases = []
    for i in range(60 if ctx.quick() else 1500):
        tops = [gen_scope(rng, 1) for _ in range(rng.choice([1, 1, 2]))]
        cases.append({'version': '1.1' if i % 2 else '1.0', 'tops': tops, 'xml': '<root>%s</root>' % ''.join(render_scope(t) for t in tops)})
    for d in RECURSIVE_DOCS:
        cases.append({'version': '1.0', 'tops': None, 'xml': d, 'want_invalid': True})
    impl = common.pool_map(subject_recursive, cases)
    gen_cases = [c for c in cases if c['tops'] is not None]
    terms = []
    for c in gen_cases:
        scopes = [x for t in c['tops'] for x in flat_scopes(t)]
        terms.append('(let errs := doc_errors %s in (length (filter (fun e => match e with Dup _ => true | _ => false end) errs), '
                     'length (filter (fun e => match e with Dangling _ => true | _ => false end) errs)))'
                     % coq_list(['{| s_key := %s; s_unique := %s; s_keyref := %s |}' % tuple(
                         coq_list([coq_tuple([v]) for v in x[t]]) for t in 'eur') for x in scopes]))
    model = iter(common.coq_eval('C08r', IMPORTS, '', terms, shard=200))
    # the same documents through the traversal model with a stack of tables (Scopes.run_stack): duplicates of the key K and
    # of the unique U, instance by instance in document order (nested instances come first in the content model)
    def stree(x, tag):
        return '(SNode %s)' % coq_list(['(Sub %s)' % stree(k, tag) for k in x['kids']] + ['(Val %s)' % coq_Z(v) for v in x[tag]])
    sterms = ['(fold_right Nat.add 0 (map run_stack %s))' % coq_list([stree(t, tag) for t in c['tops'] for tag in ('e', 'u')])
              for c in gen_cases]
    smodel = iter(common.coq_eval('C08s', 'From XV Require Import Base Scopes.', '', sterms, shard=200))
    for c, o in zip(cases, impl):
        rep = {'kind': 'recursive', 'xml': c['xml'], 'xsd': RECURSIVE_XSD, 'version': c['version'], 'impl': o}
        ctx.count(('recursive', c['version'], c['xml']), nontrivial=True)
        if 'exc' in o or 'harness_exception' in o:
            ctx.violation('recursive scopes: validation raised %s for %s' % (o.get('exc') or o.get('harness_exception'), c['xml']), rep)
            continue
        if c['tops'] is None:
            if o['valid']:
                ctx.violation('%s is accepted although two selected nodes of K have the same field value' % c['xml'], rep)
            continue
        ndup, ndang = next(model)
        nstack = next(smodel)
        if nstack != ndup:
            ctx.violation('the traversal model (Scopes.run_stack) reports %d duplicates, the per-instance tables %d for %s'
                          % (nstack, ndup, c['xml']), dict(rep, theorem='C08_nested_scopes'), no_input=True)
        depth = max(len(flat_scopes(t)) for t in c['tops'])
        ctx.dist('recursive scopes', 'instances per top-level scope: %s, model %s' % (min(depth, 4), 'valid' if (ndup, ndang) == (0, 0) else 'invalid'))
        if o['valid'] != ((ndup, ndang) == (0, 0)) or o['other']:
            ctx.violation('nested instances of a scope element: %s is %s, per-instance tables say %s (%d duplicates, %d dangling references)%s'
                          % (c['xml'], 'accepted' if o['valid'] else 'rejected', 'valid' if (ndup, ndang) == (0, 0) else 'invalid', ndup, ndang,
                             '; unexpected errors %s' % o['other'][:2] if o['other'] else ''), dict(rep, theorem='C08_scope_independent'))
        elif (o['dup'], o['dangling']) != (ndup, ndang):
            ctx.violation('nested instances of a scope element: %s: error counts (duplicate, dangling) impl=%s model=%s'
                          % (c['xml'], (o['dup'], o['dangling']), (ndup, ndang)), dict(rep, theorem='C08_scope_independent'), no_input=True)

# ---- selected nodes that exist only in the content of a derived type reached through xsi:type
XSIEXT_XSD = ('<xs:schema xmlns:xs="http://www.w3.org/2001/XMLSchema">'
              '<xs:complexType name="Item"><xs:attribute name="k" type="xs:integer"/></xs:complexType>'
              '<xs:complexType name="Base"><xs:sequence><xs:element name="item" type="Item" minOccurs="0" maxOccurs="unbounded"/>'
              '</xs:sequence></xs:complexType>'
              '<xs:complexType name="Ext"><xs:complexContent><xs:extension base="Base"><xs:sequence>'
              '<xs:element name="extra" type="Item" minOccurs="0" maxOccurs="unbounded"/></xs:sequence></xs:extension>'
              '</xs:complexContent></xs:complexType>'
              '<xs:element name="box" type="Base"/>'
              '<xs:element name="root"><xs:complexType><xs:choice maxOccurs="unbounded">'
              '<xs:element name="sec"><xs:complexType><xs:sequence><xs:element ref="box" maxOccurs="unbounded"/></xs:sequence>'
              '</xs:complexType><xs:unique name="u"><xs:selector xpath=".//extra"/><xs:field xpath="@k"/></xs:unique></xs:element>'
              '<xs:element ref="box"/></xs:choice></xs:complexType></xs:element></xs:schema>')
XSIEXT_K = [('1', 1), ('01', 1), ('2', 2), ('+2', 2), ('3', 3), ('7', 7)]


def gen_xsiext_doc(rng):
    # in half of the documents the first use of xsi:type="Ext" is a box outside any <sec> (after a closed <sec>)
    late = rng.random() < 0.5
    seen_free = [False]

    def box(in_sec):
        ext = rng.random() < 0.7 and not (late and in_sec and not seen_free[0])
        if ext and not in_sec:
            seen_free[0] = True
        return {'ext': ext, 'items': [rng.randrange(len(XSIEXT_K)) for _ in range(rng.randint(0, 2))],
                'extras': [rng.randrange(len(XSIEXT_K)) for _ in range(rng.randint(0, 3))] if ext else []}
    parts = []
    for _ in range(rng.randint(1, 5)):
        if rng.random() < 0.6:
            parts.append({'sec': [box(True) for _ in range(rng.randint(1, 2))]})
        else:
            parts.append({'box': box(False)})
    return parts


def render_xsiext(parts):
    def rbox(b):
        return '<box%s>%s%s</box>' % (' xsi:type="Ext"' if b['ext'] else '', ''.join('<item k="%s"/>' % XSIEXT_K[i][0] for i in b['items']),
                                     ''.join('<extra k="%s"/>' % XSIEXT_K[i][0] for i in b['extras']))
    return ('<root xmlns:xsi="http://www.w3.org/2001/XMLSchema-instance">%s</root>'
            % ''.join('<sec>%s</sec>' % ''.join(rbox(b) for b in p['sec']) if 'sec' in p else rbox(p['box']) for p in parts))


def subject_xsiext(case):
    """a history: the documents are validated in order with one schema instance"""
    import xmlschema
    s = (xmlschema.XMLSchema11 if case['version'] == '1.1' else xmlschema.XMLSchema10)(
        XSIEXT_XSD.replace('xpath=".//extra"', 'xpath="%s"' % case.get('selector', './/extra')))
    out = []
    for parts in case['docs']:
        xml = render_xsiext(parts)
        try:
            errs = [str(e.reason or '') for e in s.iter_errors(xml)]
            out.append({'valid': s.is_valid(xml), 'dup': sum('duplicated value' in r for r in errs),
                        'other': [r[:100] for r in errs if 'duplicated value' not in r]})
        except Exception as e:  # noqa
            out.append({'exc': common.exc_class(e) + ': ' + str(e)[:160]})
    return out


def check_xsi_extension(ctx, cases=None):
    """unique on <sec> with selector .//extra: the selected elements are declared only in the extension type Ext of the
    global element box, which also occurs outside any <sec>; histories of 1-3 documents per schema instance"""
    rng = ctx.rng
    if cases is None:
        # selector .//extra, and the child-step spelling box/extra of the same selection (known finding F-C08c)
        cases = [{'version': '1.1' if i % 2 else '1.0', 'docs': [gen_xsiext_doc(rng) for _ in range(rng.randint(1, 3))],
                  'selector': 'box/extra' if i % 4 == 3 else './/extra'}
                 for i in range(80 if ctx.quick() else 1500)]
    impl = common.pool_map(subject_xsiext, cases)
    terms = []
    for c in cases:
        for parts in c['docs']:
            scopes = [[XSIEXT_K[i][1] for b in p['sec'] for i in b['extras']] for p in parts if 'sec' in p]
            terms.append('(length (filter (fun e => match e with Dup _ => true | _ => false end) (doc_errors %s)))'
                         % coq_list(['{| s_key := []; s_unique := %s; s_keyref := [] |}' % coq_list([coq_tuple([v]) for v in sc])
                                     for sc in scopes]))
    model = iter(common.coq_eval('C08x', IMPORTS, '', terms, shard=300))
    for c, o in zip(cases, impl):
        if isinstance(o, dict):
            ctx.violation('xsi:type extension family failed to run: %s' % o.get('harness_exception'), {'kind': 'xsiext', 'case': c}, no_input=True)
            continue
        for k, (parts, r) in enumerate(zip(c['docs'], o)):
            xml = render_xsiext(parts)
            ndup = next(model)
            rep = {'kind': 'xsiext', 'case': dict(c, docs=c['docs'][:k + 1]), 'xml': xml, 'xsd': XSIEXT_XSD, 'impl': r,
                   'history': [render_xsiext(p) for p in c['docs'][:k]]}
            ctx.count(('xsiext', c['version'], c.get('selector'), k, xml, tuple(rep['history'])), nontrivial=ndup > 0 or len(parts) >= 3)
            ctx.dist('xsi:type extension family', 'document %d of its history, model %s' % (k + 1, 'invalid' if ndup else 'valid'))
            if 'exc' in r:
                ctx.violation('validation raised %s for %s' % (r['exc'], xml), rep)
            elif c.get('selector') == 'box/extra' and ndup > 0 and r['valid'] and r['dup'] == 0 and not r['other']:
                # the selector is evaluated from the xsi:typed element itself, so a path with a step for that element finds
                # nothing in the content of the instance type
                ctx.known_finding('F-C08c')
            elif r['valid'] != (ndup == 0) or r['other']:
                ctx.violation('%s is %s after the history %s; the unique constraint over .//extra of each <sec> says %s (%d duplicates)%s'
                              % (xml, 'accepted' if r['valid'] else 'rejected', rep['history'], 'valid' if ndup == 0 else 'invalid', ndup,
                                 '; unexpected errors %s' % r['other'][:2] if r['other'] else ''), dict(rep, theorem='C08_unique_exact'))
            elif r['dup'] != ndup:
                ctx.violation('%s: %d duplicates reported, the model has %d' % (xml, r['dup'], ndup), dict(rep, theorem='C08_unique_exact'),
                              no_input=True)


def run(ctx):
    check_recursive_scope(ctx)
    check_xsi_extension(ctx)
    cases = gen(ctx)
    ctx.rule = ('tables of field tuples for key / unique / keyref in 1-3 scope instances: exhaustive 2-3 row tables over '
                '{absent, two lexical forms of one value, another value} x 2 fields (%s), seeded random templates '
                '(1-3 fields, attribute/child, integer/decimal/boolean/string/QName, with and without a target namespace declared as default namespace) '
                'with ID/IDREF attributes and element content; '
                'non-trivial = at least 3 rows; distinct by document+template+version'
                % ('sampled' if ctx.quick() else 'complete'))
    evaluate(ctx, cases)
    ctx.assumptions = ['selector/field XPath evaluation is elementpath (child-step and attribute fields only)',
                       'value ids are assigned by the harness per type: lexical variants of one value share an id']


def replay(ctx, case):
    if case.get('kind') == 'xsiext':
        check_xsi_extension(ctx, [case['case']])
    else:
        evaluate(ctx, [case['case']])

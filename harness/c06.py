"""C06 - lazy (streaming) processing gives the same results as full loading.

Generated documents (sections with items / links, nested sub-sections, namespace declarations at random nodes,
root-level key / keyref and ID / IDREF spanning the streamed chunks, small and > 16 KiB) x lazy depth
(1 claimed; 2 and 3 explored and reported only) x thin_lazy x APIs:
 * iter_errors / is_valid: same verdict, same errors in the same order as the fully loaded document;
 * to_json (lazy JSON encoding of deferred chunks): same data;
 * iter / iter_depth / iterfind / get_nsmap: same elements, text and in-scope namespaces;
 * correspondence with Lazy.v: the namespace map of every node (C06_nsmap_stack) and the chunk sequence at a depth
   (C06_iter_depth_chunks)."""
import json

import common
from common import coq_list, coq_N

IMPORTS = 'From XV Require Import Base Lazy.'
XSD = '''<xs:schema xmlns:xs="http://www.w3.org/2001/XMLSchema" targetNamespace="urn:z" xmlns:t="urn:z" elementFormDefault="qualified">
<xs:complexType name="sec"><xs:sequence>
 <xs:element name="title" type="xs:string"/>
 <xs:element name="item" minOccurs="0" maxOccurs="unbounded"><xs:complexType><xs:simpleContent><xs:extension base="xs:string">
   <xs:attribute name="n" type="xs:int" use="required"/><xs:attribute name="id" type="xs:ID"/><xs:attribute name="q" type="xs:QName"/>
 </xs:extension></xs:simpleContent></xs:complexType></xs:element>
 <xs:element name="link" minOccurs="0" maxOccurs="unbounded"><xs:complexType>
   <xs:attribute name="to" type="xs:int"/><xs:attribute name="r" type="xs:IDREF"/></xs:complexType></xs:element>
 <xs:element name="sub" type="t:sec" minOccurs="0" maxOccurs="unbounded"/>
 <xs:any namespace="##other" processContents="lax" minOccurs="0" maxOccurs="unbounded"/>
</xs:sequence><xs:attribute name="code" type="xs:string"/></xs:complexType>
<xs:element name="root"><xs:complexType><xs:sequence><xs:element name="s" type="t:sec" maxOccurs="unbounded">
   <xs:unique name="UL"><xs:selector xpath="t:link"/><xs:field xpath="@to"/></xs:unique></xs:element></xs:sequence>
  <xs:attribute name="default" type="xs:int"/></xs:complexType>
 <xs:keyref name="RD" refer="t:K"><xs:selector xpath="."/><xs:field xpath="@default"/></xs:keyref>
 <xs:key name="K"><xs:selector xpath="t:s/t:item"/><xs:field xpath="@n"/></xs:key>
 <xs:keyref name="R" refer="t:K"><xs:selector xpath="t:s/t:link"/><xs:field xpath="@to"/></xs:keyref>
 <xs:unique name="U"><xs:selector xpath="t:s"/><xs:field xpath="@code"/></xs:unique>
 <xs:unique name="UQ"><xs:selector xpath="t:s/t:item"/><xs:field xpath="@q"/></xs:unique>
</xs:element></xs:schema>'''
PFX = {7: 'p', 8: 'q', 9: 'o'}
URI = {1: 'urn:u1', 2: 'urn:u2', 3: 'urn:o'}


def gen_doc(rng, big=False, faults=True, huge=False):
    """abstract doc: node = {'tag','attrs','text','decls':[(prefix code, uri code)],'kids'}"""
    ids = [0]
    nextn = [0]

    def decls():
        if rng.random() < 0.4:
            return [(rng.choice([7, 8]), rng.choice([1, 2])) for _ in range(rng.randint(1, 2))]
        return []

    def item():
        nextn[0] += 1
        n = nextn[0]
        if faults and rng.random() < 0.06:
            n = rng.randint(1, max(1, nextn[0]))          # duplicate key (possibly in another chunk)
        a = {'n': str(n)}
        if rng.random() < 0.3:
            ids[0] += 1
            a['id'] = 'i%d' % (ids[0] if not (faults and rng.random() < 0.1) else 1)
        if faults and rng.random() < 0.05:
            a['n'] = 'x'
        return {'tag': 'item', 'attrs': a, 'text': 'v%d' % n, 'decls': decls(), 'kids': []}

    def link():
        a = {}
        if rng.random() < 0.7:
            a['to'] = str(rng.choice([rng.randint(1, 12), rng.randint(1, 2)]) if faults else rng.randint(1, 3))
        if rng.random() < 0.4:
            a['r'] = 'i%d' % rng.randint(1, 6 if faults else 1)
        return {'tag': 'link', 'attrs': a, 'text': None, 'decls': [], 'kids': []}

    def sec(tag, d):
        # (the first chunk below a section may carry declarations of its own)
        kids = [{'tag': 'title', 'attrs': {}, 'text': 'T', 'decls': decls() if rng.random() < 0.5 else [], 'kids': []}]
        kids += [item() for _ in range(rng.randint(0, 40 if big else 3) if not (huge and d == 0) else rng.randint(500, 1200))]
        kids += [link() for _ in range(rng.randint(0, 3))]
        if d < 2:
            kids += [sec('sub', d + 1) for _ in range(rng.choice([0, 0, 1, 2]))]
        if rng.random() < 0.3:
            kids.append({'tag': 'o:x', 'attrs': {}, 'text': 'w', 'decls': [(9, 3)], 'kids': []})
        a = {'code': 'c%d' % rng.randint(1, 4 if faults else 1000)} if rng.random() < 0.6 else {}
        return {'tag': tag, 'attrs': a, 'text': None, 'decls': decls(), 'kids': kids}
    kids = [sec('s', 0) for _ in range(rng.randint(1, 25 if big else 4) if not huge else rng.randint(1, 2))]
    if faults and len(kids) > 1 and rng.random() < 0.4:
        # a duplicated link value inside a later section: violates the unique constraint declared on the section element
        later = rng.choice(kids[1:])
        later['kids'] += [{'tag': 'link', 'attrs': {'to': '1'}, 'text': None, 'decls': [], 'kids': []} for _ in range(2)]
    # a key reference held by the root itself (selector "."): processed after all the streamed chunks
    rattrs = {'default': str(rng.randint(1, 12) if faults else 1)} if rng.random() < 0.5 else {}
    doc = {'tag': 'root', 'attrs': rattrs, 'text': None, 'decls': [], 'kids': kids}

    # QName values that use the prefixes in scope: declared on the item itself, on its section (a chunk root of lazy depth 1)
    # or on an enclosing section
    qn = [0]

    def local():
        # QName values are fields of the unique constraint UQ held by the root (items of the top-level sections): mostly
        # distinct local names, with faults the same local name under prefixes bound to the same or to different namespaces
        qn[0] += 1
        return 'n%d' % (qn[0] if not (faults and rng.random() < 0.3) else rng.randint(1, max(1, qn[0])))

    def walk(n, scope):
        scope = scope | {PFX[p] for p, _u in n['decls']}
        if n['tag'] == 'item' and rng.random() < 0.4:
            if faults and rng.random() < 0.05:
                n['attrs']['q'] = 'zz:name'
            elif faults and rng.random() < 0.25 and {'p', 'q'} - scope:
                # a prefix that other elements of the document declare (possibly the previous chunk) but is not in scope here
                n['attrs']['q'] = '%s:%s' % (rng.choice(sorted({'p', 'q'} - scope)), local())
            else:
                # prefer a prefix declared on the item or on an enclosing section over the root's
                inner = sorted(scope - {'t'})
                n['attrs']['q'] = '%s:%s' % (rng.choice(inner) if inner and rng.random() < 0.7 else rng.choice(sorted(scope)), local())
        for k in n['kids']:
            walk(k, scope)
    walk(doc, {'t'})
    return doc


def ensure_valid_refs(doc):
    """for fault-free documents: make every keyref / IDREF resolvable and the keys distinct"""
    items = [n for _a, n in nodes(doc) if n['tag'] == 'item']
    top_items = [k for s in doc['kids'] for k in s['kids'] if k['tag'] == 'item']
    ids = [n['attrs']['id'] for n in items if 'id' in n['attrs']]
    if 'default' in doc['attrs']:
        if top_items:
            doc['attrs']['default'] = top_items[0]['attrs']['n']
        else:
            del doc['attrs']['default']
    for _a, n in nodes(doc):
        if n['tag'] == 'link':
            if 'to' in n['attrs']:
                if top_items:
                    n['attrs']['to'] = top_items[0]['attrs']['n']
                else:
                    del n['attrs']['to']
            if 'r' in n['attrs']:
                if ids:
                    n['attrs']['r'] = ids[0]
                else:
                    del n['attrs']['r']
    # the unique constraint UL of a top-level section: one link with a 'to' value per section
    for sec in doc['kids']:
        seen = False
        for k in sec['kids']:
            if k['tag'] == 'link' and 'to' in k['attrs']:
                if seen:
                    del k['attrs']['to']
                seen = True


def nodes(n, a=()):
    yield a, n
    for i, k in enumerate(n['kids']):
        yield from nodes(k, a + (i,))


def render(n, top=True):
    tag = n['tag'] if ':' in n['tag'] else 't:' + n['tag']
    a = ''.join(' %s="%s"' % kv for kv in n['attrs'].items())
    d = ''.join(' xmlns:%s="%s"' % (PFX[p], URI[u]) for p, u in dedupe(n['decls']))
    if top:
        d = ' xmlns:t="urn:z"' + d
    return '<%s%s%s>%s%s</%s>' % (tag, d, a, n['text'] or '', ''.join(render(k, False) for k in n['kids']), tag)


def dedupe(decls):
    seen, out = set(), []
    for p, u in decls:
        if p not in seen:
            seen.add(p)
            out.append((p, u))
    return out


def err_list(errs):
    return [' '.join(str(e.reason or '').split())[:70] for e in errs]


_S = {}


def subject(case):
    import xmlschema
    if case['version'] not in _S:
        cls = xmlschema.XMLSchema11 if case['version'] == '1.1' else xmlschema.XMLSchema10
        _S[case['version']] = cls(XSD)
    s = _S[case['version']]
    xml = render(case['doc'])
    out = {}
    eager = xmlschema.XMLResource(xml)
    out['eager_errors'] = err_list(s.iter_errors(eager))
    out['eager_valid'] = s.is_valid(eager)
    ej = xmlschema.to_json(xml, schema=s, validation='lax')
    out['eager_json'] = json.loads(ej[0] if isinstance(ej, tuple) else ej)
    out['eager_json_errors'] = sorted(err_list(ej[1])) if isinstance(ej, tuple) else []
    out['eager_iter'] = [(e.tag, (e.text or '').strip(), sorted(e.attrib.items())) for e in eager.iter()]
    out['eager_nsmap'] = [sorted((k, v) for k, v in eager.get_nsmap(e).items() if k not in ('t',)) for e in eager.iter()]
    out['eager_depth1'] = [e.tag for e in eager.root]
    out['eager_find'] = [e.attrib.get('n') for e in eager.iterfind('t:s/t:item', namespaces={'t': 'urn:z'})]
    out['eager_find1'] = [len(e) for e in eager.iterfind('t:s', namespaces={'t': 'urn:z'})]
    out['eager_path_errors'] = err_list(s.iter_errors(xmlschema.XMLResource(xml), path='t:s', namespaces={'t': 'urn:z'}))
    # paths with positional / attribute predicates
    PRED = ['t:s[2]', 't:s[last()]', 't:s[1]/t:item[2]', 't:s/t:item[3]', 't:s/t:item[@id]', 't:s[2]/t:item']
    out['eager_pred'] = {p: [(e.tag.split('}')[-1], e.attrib.get('n') or e.attrib.get('code'), len(e)) for e in eager.iterfind(p, namespaces={'t': 'urn:z'})]
                         for p in PRED}
    out['lazy'] = {}
    for depth in case['depths']:
        for thin in (True, False):
            r = {}
            try:
                res = xmlschema.XMLResource(xml, lazy=depth, thin_lazy=thin)
                r['errors'] = err_list(s.iter_errors(res))
                r['valid'] = s.is_valid(xmlschema.XMLResource(xml, lazy=depth, thin_lazy=thin))
                lj = xmlschema.to_json(xmlschema.XMLResource(xml, lazy=depth, thin_lazy=thin), schema=s, validation='lax')
                r['json'] = json.loads(lj[0] if isinstance(lj, tuple) else lj)
                r['json_errors'] = sorted(err_list(lj[1])) if isinstance(lj, tuple) else []
                res = xmlschema.XMLResource(xml, lazy=depth, thin_lazy=thin)
                it, nsm = [], []
                for e in res.iter():
                    it.append((e.tag, (e.text or '').strip(), sorted(e.attrib.items())))
                r['iter_sorted'] = sorted(map(repr, it))
                res = xmlschema.XMLResource(xml, lazy=depth, thin_lazy=thin)
                r['depth_chunks'] = [e.tag for e in res.iter_depth()]
                res = xmlschema.XMLResource(xml, lazy=depth, thin_lazy=thin)
                chunk_ns = []
                for e in res.iter_depth(mode=2):
                    for x in e.iter():
                        chunk_ns.append(sorted((k, v) for k, v in res.get_nsmap(x).items() if k not in ('t',)))
                r['chunk_nsmap'] = chunk_ns
                res = xmlschema.XMLResource(xml, lazy=depth, thin_lazy=thin)
                # (a path deeper than the lazy depth is refused by design for lazy_depth >= 3)
                r['find'] = [e.attrib.get('n') for e in res.iterfind('t:s/t:item', namespaces={'t': 'urn:z'})] if depth < 3 else None
                res = xmlschema.XMLResource(xml, lazy=depth, thin_lazy=thin)
                r['find1'] = [len(e) for e in res.iterfind('t:s', namespaces={'t': 'urn:z'})] if depth == 1 else None
                r['path_errors'] = err_list(s.iter_errors(xmlschema.XMLResource(xml, lazy=depth, thin_lazy=thin), path='t:s',
                                                          namespaces={'t': 'urn:z'})) if depth == 1 else None
                r['pred'] = {}
                for p in PRED:
                    # (the selection re-evaluates the path for every candidate node: small documents only)
                    if p.count('/') + 1 >= depth and depth < 3 and len(xml) < 6000:
                        res = xmlschema.XMLResource(xml, lazy=depth, thin_lazy=thin)
                        r['pred'][p] = [(e.tag.split('}')[-1], e.attrib.get('n') or e.attrib.get('code'), len(e))
                                        for e in res.iterfind(p, namespaces={'t': 'urn:z'})]
            except Exception as e:  # noqa
                r['exc'] = common.exc_class(e) + ': ' + str(e)[:100]
            out['lazy']['%s/%s' % (depth, 'thin' if thin else 'full')] = r
    return out


IDENT = ('duplicated value', 'not found for', 'missing key field')


def strip_chunk_xmlns(data):
    """the decoded document without the xmlns entries of the chunk roots (children of the root), see F-C06c"""
    out = {}
    for k, v in data.items():
        if isinstance(v, list):
            out[k] = [{a: b for a, b in x.items() if not a.startswith('@xmlns')} if isinstance(x, dict) else x for x in v]
        else:
            out[k] = v
    return out


def coq_dtree(n, counter):
    i = counter[0]
    counter[0] += 1
    kids = [coq_dtree(k, counter) for k in n['kids']]
    return '(DNode %d %s %s)' % (i, coq_list(['(%s, %s)' % (coq_N(p), coq_N(u)) for p, u in dedupe(n['decls'])]), coq_list(kids))


def evaluate(ctx, cases):
    impl = common.pool_map(subject, cases)
    small = [i for i, c in enumerate(cases) if not c.get('big')]
    terms = ['(let d := %s in (map snd (scopes [] d), map (fun t => match t with DNode id _ _ => id end) (chunks 1 0 (cevents d))))'
             % coq_dtree(cases[i]['doc'], [0]) for i in small]
    mres = dict(zip(small, common.coq_eval('C06', IMPORTS, '', terms, shard=10)))
    for ci, (c, o) in enumerate(zip(cases, impl)):
        m = mres.get(ci)
        xml = render(c['doc'])
        rep = {'kind': 'lazy', 'case': c, 'xml': xml[:3000]}
        if 'harness_exception' in o:
            ctx.violation('subject failed: %s' % o['harness_exception'], rep, no_input=True)
            continue
        nn = sum(1 for _ in nodes(c['doc']))
        ctx.count(('d', xml, c['version']), nontrivial=len(c['doc']['kids']) >= 2, n=len(o['lazy']))
        ctx.dist('doc_bytes', '>16KiB' if len(xml) > 16384 else '<=16KiB')
        ctx.dist('eager_verdict', 'valid' if o['eager_valid'] else 'invalid')
        problems, aux, explored = [], [], []
        mscopes, mchunks = m if m is not None else ([], [])
        # model vs eager: the namespace maps of the loaded tree (without the root's own prefix t)
        want_ns = [sorted((PFX[p], URI[u]) for p, u in sc) for sc in mscopes]
        if m is not None and want_ns != o['eager_nsmap']:
            problems.append('in-scope namespaces of the loaded tree differ from the declarations of the ancestor chain: %s vs %s'
                            % (o['eager_nsmap'][:6], want_ns[:6]))
        ids_pre = []
        for i, (_a, n) in enumerate(nodes(c['doc'])):
            ids_pre.append(n['tag'])
        want_chunks = ['{urn:z}' + ids_pre[i] if ':' not in ids_pre[i] else ids_pre[i] for i in mchunks]
        if m is not None and [t.split('}')[-1] for t in o['eager_depth1']] != [t.split('}')[-1] for t in want_chunks]:
            aux.append('model chunks %s vs children of the root %s' % (want_chunks[:5], o['eager_depth1'][:5]))
        for cfg, r in o['lazy'].items():
            claimed = cfg.startswith('1/') or cfg.startswith('True/')
            sink = problems if claimed else explored
            if 'exc' in r:
                sink.append('lazy=%s: %s' % (cfg, r['exc']))
                continue
            # verdict and errors (as a multiset: the chunked traversal may report them in another order) are claimed for
            # every lazy depth; the order is claimed for depth 1
            if r['valid'] != o['eager_valid']:
                problems.append('lazy=%s verdict %s, loaded %s' % (cfg, r['valid'], o['eager_valid']))
            if sorted(r['errors']) != sorted(o['eager_errors']):
                miss = [x for x in o['eager_errors'] if x not in r['errors']]
                extra = [x for x in r['errors'] if x not in o['eager_errors']]
                problems.append('lazy=%s errors differ from the loaded document: missing %s, extra %s' % (cfg, miss[:3], extra[:3]))
            elif r['errors'] != o['eager_errors']:
                sink.append('lazy=%s errors %s, loaded document %s' % (cfg, r['errors'][:4], o['eager_errors'][:4]))
            if r['json'] != o['eager_json']:
                if claimed and strip_chunk_xmlns(r['json']) == strip_chunk_xmlns(o['eager_json']):
                    ctx.known_finding('F-C06c')
                else:
                    sink.append('lazy=%s decoded data differs from the loaded document' % cfg)
            if r['json_errors'] != o['eager_json_errors']:
                missing = [x for x in o['eager_json_errors'] if x not in r['json_errors']]
                extra = [x for x in r['json_errors'] if x not in o['eager_json_errors']]
                if claimed and not extra and missing and all(any(k in x for k in IDENT + ('IDREF',)) for x in missing):
                    ctx.known_finding('F-C06b')
                else:
                    sink.append('lazy=%s decode errors %s, loaded document %s' % (cfg, r['json_errors'][:3], o['eager_json_errors'][:3]))
            if r['iter_sorted'] != sorted(map(repr, [tuple(x) for x in o['eager_iter']])):
                sink.append('lazy=%s iter() yields other elements / text / attributes than the loaded tree' % cfg)
            if claimed and r['depth_chunks'] != o['eager_depth1']:
                sink.append('lazy=%s iter_depth() chunks %s, children of the loaded root %s' % (cfg, r['depth_chunks'][:5], o['eager_depth1'][:5]))
            if claimed and r['chunk_nsmap'] != o['eager_nsmap'][1:]:
                sink.append('lazy=%s in-scope namespaces inside the chunks differ from the loaded tree' % cfg)
            if claimed and r['find1'] != o['eager_find1']:
                sink.append('lazy=%s iterfind(t:s) gives %d chunks, loaded tree %d' % (cfg, len(r['find1']), len(o['eager_find1'])))
            if claimed and r['path_errors'] != o['eager_path_errors']:
                sink.append('lazy=%s iter_errors(path=t:s) gives %s, loaded tree %s' % (cfg, r['path_errors'][:3], o['eager_path_errors'][:3]))
            for p, got in (r.get('pred') or {}).items():
                if got != [list(x) for x in o['eager_pred'][p]] and got != o['eager_pred'][p]:
                    (problems if claimed else explored).append('lazy=%s iterfind(%s) selects %s, the loaded tree %s' % (cfg, p, got[:4], o['eager_pred'][p][:4]))
            if r['find'] is not None and r['find'] != o['eager_find']:
                sink.append('lazy=%s iterfind(t:s/t:item) gives %d items, loaded tree %d' % (cfg, len(r['find']), len(o['eager_find'])))
        if explored:
            ctx.dist('explored_deeper_lazy_depths', 'differences', len(explored))
            ctx.extra.setdefault('explored_reports', [])
            if len(ctx.extra['explored_reports']) < 5:
                ctx.extra['explored_reports'].append(explored[0][:200])
        if problems or aux:
            ctx.violation('%s [XSD %s, %d nodes, %d bytes]' % ('; '.join((problems or aux)[:3]), c['version'], nn, len(xml)),
                          dict(rep, impl={k: (v if k != 'lazy' else {a: {x: y for x, y in b.items() if x in ('errors', 'valid', 'exc', 'json_errors')}
                                                                   for a, b in v.items()})
                                          for k, v in o.items() if k in ('eager_errors', 'eager_valid', 'lazy', 'eager_json_errors')},
                               theorem='C06_nsmap_stack / C06_iter_depth_chunks'), no_input=not problems)
        ctx.sample({'xml': xml[:200], 'nodes': nn, 'eager_errors': o['eager_errors'][:3]}, cap=4)


def gen(ctx):
    rng = ctx.rng
    cases = []
    n_small, n_big = (60, 6) if ctx.quick() else (800, 60)
    for i in range(n_small + n_big):
        big = i >= n_small
        faults = i % 3 != 0
        doc = gen_doc(rng, big=big, faults=faults)
        if not faults:
            ensure_valid_refs(doc)
        cases.append({'doc': doc, 'version': '1.1' if i % 2 else '1.0', 'depths': [1, 2, 3] if not big else [1, 2], 'big': big})
    # sections with hundreds of leaf items: the chunks of lazy depth 2 span many read blocks of the parser (16 KiB)
    for i in range(3 if ctx.quick() else 20):
        doc = gen_doc(rng, faults=True, huge=True)
        cases.append({'doc': doc, 'version': '1.1' if i % 2 else '1.0', 'depths': [2] if i % 3 else [1, 2, 3], 'big': True})
    return cases


def run(ctx):
    ctx.rule = ('seeded documents: 1-4 sections (1-25 with up to 40 items each for the > 16 KiB family), nested sub-sections, '
                'random xmlns declarations, foreign-namespace children, root-level key / keyref / unique and ID / IDREF with '
                'duplicates and dangling references placed across chunks (two thirds faulty); lazy depth 1 claimed, 2 and 3 '
                'explored; thin_lazy on/off; 8 APIs; evaluations = lazy configurations run; non-trivial = at least two chunks')
    evaluate(ctx, gen(ctx))
    ctx.assumptions = ['lazy depths 2 and 3 are explored and reported in the evidence, not claimed',
                       'error paths of lazy runs are not compared (pruned trees); reasons and order are',
                       'F-C06b: lazy decoding does not report identity-constraint violations whose scope lies above the chunks']


def replay(ctx, case):
    evaluate(ctx, [case['case']])

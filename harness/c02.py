"""C02 - simple-type validation and decoding follow XSD datatype semantics.

(1) modelled types (integer and the 12 bounded integer types, decimal, boolean, string / normalizedString /
    token, date for XSD 1.0 and 1.1): boundary catalogue of lexical forms plus seeded mutations (code points
    from a pool with non-ASCII digits, '_', NBSP, tab, full-width forms) -> validity and decoded value compared
    with Datatypes.v `decode`;
(2) seeded restriction chains (bounds, digits, length family, enumeration in value space, whiteSpace), list and
    union types x candidate values, two derivation levels, compared with the model;
(3) every built-in atomic type of both versions: for each accepted lexical form, encode(decode(s)) decodes to the
    same value again, with datetime_types / binary_types / decimal_type options (metamorphic; reference
    validity for the non-modelled types comes from XSD regular expressions kept in the harness)."""
import decimal
import json
import re

import common
from common import coq_list, coq_N, coq_Z

IMPORTS = 'From XV Require Import Base Datatypes.'
DEFS = ('Definition opt_list (l : list (option val)) : list val := '
        'flat_map (fun o => match o with Some v => [v] | None => [] end) l.\n'
        'Definition BIG : Z := (10 ^ 1000)%Z.\n')

BOUNDED = {
    'xs:long': (-2 ** 63, 2 ** 63 - 1), 'xs:int': (-2 ** 31, 2 ** 31 - 1), 'xs:short': (-2 ** 15, 2 ** 15 - 1),
    'xs:byte': (-128, 127), 'xs:nonNegativeInteger': (0, None), 'xs:positiveInteger': (1, None),
    'xs:unsignedLong': (0, 2 ** 64 - 1), 'xs:unsignedInt': (0, 2 ** 32 - 1), 'xs:unsignedShort': (0, 2 ** 16 - 1),
    'xs:unsignedByte': (0, 255), 'xs:nonPositiveInteger': (None, 0), 'xs:negativeInteger': (None, -1),
}
BIG = 'BIG'      # a Coq constant (10^1000) that stands for "no bound": every catalogue value is far smaller


def coq_str(s):
    return coq_list([coq_N(ord(c)) for c in s])


def coq_type(t, version='1.0'):
    k = t[0]
    if k == 'builtin':
        n = t[1]
        if n == 'xs:integer':
            return 'TInteger'
        if n in BOUNDED:
            lo, hi = BOUNDED[n]
            return '(TBounded %s %s)' % ('(- BIG)%Z' if lo is None else coq_Z(lo), 'BIG' if hi is None else coq_Z(hi))
        if n == 'xs:decimal':
            return 'TDecimal'
        if n == 'xs:boolean':
            return 'TBoolean'
        if n == 'xs:string':
            return '(TString Preserve)'
        if n == 'xs:normalizedString':
            return '(TString Replace)'
        if n == 'xs:token':
            return '(TString Collapse)'
        if n == 'xs:QName':
            # only used as list item type with a catalogue of unprefixed NCNames, on which QName and token agree
            return '(TString Collapse)'
        if n == 'xs:date':
            return '(TDate %s)' % ('true' if version == '1.1' else 'false')
        raise KeyError(n)
    if k == 'restrict':
        base = coq_type(t[1], version)
        fs = []
        for name, v in t[3]:
            if name in ('minInclusive', 'maxInclusive', 'minExclusive', 'maxExclusive'):
                m, sc = dec_tuple(v)
                cons = {'minInclusive': 'FMinInc', 'maxInclusive': 'FMaxInc', 'minExclusive': 'FMinExc',
                        'maxExclusive': 'FMaxExc'}[name]
                fs.append('%s (%s, %d)' % (cons, coq_Z(m), sc))
            elif name in ('length', 'minLength', 'maxLength', 'totalDigits', 'fractionDigits'):
                cons = {'length': 'FLength', 'minLength': 'FMinLength', 'maxLength': 'FMaxLength',
                        'totalDigits': 'FTotalDigits', 'fractionDigits': 'FFractionDigits'}[name]
                fs.append('%s %d' % (cons, int(v)))
            elif name == 'enumeration':
                fs.append('FEnum (opt_list %s)' % coq_list(['decode %s %s' % (base, coq_str(x)) for x in v]))
        return '(TRestrict %s %s %s)' % (base, t[2], coq_list(fs))
    if k == 'list':
        return '(TList %s)' % coq_type(t[1], version)
    if k == 'union':
        return '(TUnion %s %s)' % (coq_type(t[1], version), coq_type(t[2], version))
    raise KeyError(k)


def dec_tuple(lex):
    d = decimal.Decimal(lex.strip())
    sign, digits, exp = d.as_tuple()
    m = int(''.join(map(str, digits)) or '0')
    if exp >= 0:
        m *= 10 ** exp
        sc = 0
    else:
        sc = -exp
    while sc > 0 and m % 10 == 0:
        m //= 10
        sc -= 1
    return (-m if sign else m), sc


def ws_of(t):
    """whitespace mode of a type expression"""
    if t[0] == 'builtin':
        return {'xs:string': 'Preserve', 'xs:normalizedString': 'Replace'}.get(t[1], 'Collapse')
    if t[0] == 'restrict':
        return t[2]
    return 'Collapse'


def xsd_type(t, defs, counter):
    """returns a type name; appends named simpleType definitions to defs"""
    if t[0] == 'builtin':
        return t[1]
    counter[0] += 1
    name = 'T%d' % counter[0]
    if t[0] == 'restrict':
        base = xsd_type(t[1], defs, counter)
        body = ''
        if t[2] != ws_of(t[1]):
            body += '<xs:whiteSpace value="%s"/>' % t[2].lower()
        for fname, v in t[3]:
            if fname == 'enumeration':
                body += ''.join('<xs:enumeration value="%s"/>' % esc(x) for x in v)
            else:
                body += '<xs:%s value="%s"/>' % (fname, esc(str(v)))
        defs.append('<xs:simpleType name="%s"><xs:restriction base="%s">%s</xs:restriction></xs:simpleType>'
                    % (name, base, body))
    elif t[0] == 'list':
        item = xsd_type(t[1], defs, counter)
        defs.append('<xs:simpleType name="%s"><xs:list itemType="%s"/></xs:simpleType>' % (name, item))
    else:
        a = xsd_type(t[1], defs, counter)
        b = xsd_type(t[2], defs, counter)
        if len(t) > 3:
            # the second member as a <xs:simpleType> child: the members named by memberTypes still come first
            defs.append('<xs:simpleType name="%s"><xs:union memberTypes="%s"><xs:simpleType><xs:restriction base="%s"/></xs:simpleType>'
                        '</xs:union></xs:simpleType>' % (name, a, b))
        else:
            defs.append('<xs:simpleType name="%s"><xs:union memberTypes="%s %s"/></xs:simpleType>' % (name, a, b))
    return name


def esc(s):
    return s.replace('&', '&amp;').replace('<', '&lt;').replace('"', '&quot;')


def schema_for(t):
    defs = []
    name = xsd_type(t, defs, [0])
    return ('<xs:schema xmlns:xs="http://www.w3.org/2001/XMLSchema">%s<xs:element name="e" type="%s"/>'
            '<xs:element name="w"><xs:complexType><xs:attribute name="a" type="%s"/></xs:complexType></xs:element>'
            '</xs:schema>' % (''.join(defs), name, name)), name


def canon_value(v):
    if isinstance(v, bool):
        return ['bool', v]
    if isinstance(v, int):
        return ['int', v]
    if isinstance(v, decimal.Decimal):
        sign, digits, exp = v.as_tuple()
        if not isinstance(exp, int):
            return ['dec-special', str(v)]
        m = int(''.join(map(str, digits)) or '0')
        if exp >= 0:
            m *= 10 ** exp
            sc = 0
        else:
            sc = -exp
        while sc > 0 and m % 10 == 0:
            m //= 10
            sc -= 1
        return ['dec', -m if sign else m, sc]
    if isinstance(v, str):
        return ['str', v]
    if isinstance(v, (list, tuple)):
        return ['list', [canon_value(x) for x in v]]
    if v is None:
        return ['none']
    if hasattr(v, 'year') and hasattr(v, 'month') and hasattr(v, 'day'):
        # the lexical year from the fields of the object (XSD 1.1 classes count a year 0000, so their internal year of a
        # BCE date is the lexical one minus 1); str() is not used: for negative years of more than four digits it is off
        # by one in the 1.1 classes (finding F-C02b, judged on the round trip)
        year = v.year + 1 if getattr(v, 'bce', False) and getattr(v, '_xsd_version', getattr(v, 'xsd_version', '1.0')) == '1.1' else v.year
        return ['date', int(year), int(v.month), int(v.day)]
    return ['other', type(v).__name__, str(v)]


_SCH = {}


def get_schema(t, version):
    import xmlschema
    key = json.dumps(t) + version
    if key not in _SCH:
        cls = xmlschema.XMLSchema11 if version == '1.1' else xmlschema.XMLSchema10
        xsd, name = schema_for(t)
        try:
            _SCH[key] = (cls(xsd), name)
        except Exception as e:  # noqa
            _SCH[key] = ('ERR:%s: %s' % (common.exc_class(e), str(e)[:200]), name)
    return _SCH[key]


def subject(case):
    s, name = get_schema(case['type'], case['version'])
    if isinstance(s, str):
        return {'build': s}
    ty = s.types[name] if name in s.types else s.elements['e'].type
    out = []
    for text in case['texts']:
        r = {}
        try:
            val, errs = ty.decode(text, validation='lax', datetime_types=True)
            r['valid'] = not errs
            r['value'] = canon_value(val) if not errs else None
            r['is_valid'] = ty.is_valid(text)
        except Exception as e:  # noqa
            r['exc'] = common.exc_class(e) + ': ' + str(e)[:120]
        if 'exc' not in r and r['valid']:
            try:
                enc = ty.encode(val)
                v2, e2 = ty.decode(enc, validation='lax', datetime_types=True)
                r['roundtrip'] = (not e2) and same_value(canon_value(v2), r['value'])
                r['encoded'] = enc if isinstance(enc, str) else repr(enc)
            except Exception as e:  # noqa
                r['roundtrip'] = 'EXC ' + common.exc_class(e) + ': ' + str(e)[:100]
        # through an element of a document when the text survives XML parsing unchanged
        if 'exc' not in r and all(ord(c) >= 32 and c not in '<>&' for c in text):
            try:
                r['elem_valid'] = s.is_valid('<e>%s</e>' % text)
            except Exception as e:  # noqa
                r['elem_valid'] = 'EXC ' + common.exc_class(e)
        out.append(r)
    return {'build': 'ok', 'results': out}


def model_terms(case):
    ty = coq_type(case['type'], case['version'])
    return ['(decode %s %s)' % (ty, coq_str(t)) for t in case['texts']]


def model_value(m):
    """parsed Coq `option val` -> canonical value (or None)"""
    if m is None:
        return None
    v = m[1] if isinstance(m, tuple) and m[0] == 'Some' else m
    return conv_val(v)


def conv_val(v):
    tag = v[0]
    if tag == 'VInt':
        return ['int', v[1]]
    if tag == 'VDec':
        return ['dec', v[1], v[2]]
    if tag == 'VBool':
        return ['bool', v[1]]
    if tag == 'VStr':
        return ['str', ''.join(chr(c) for c in v[1])]
    if tag == 'VDate':
        return ['date', v[1], v[2], v[3]]
    if tag == 'VList':
        return ['list', [conv_val(x) for x in v[1]]]
    raise ValueError(v)


def same_value(a, b):
    """value-space equality of canonical values (an integer equals the decimal with scale 0)"""
    if a is None or b is None:
        return a is b
    if a[0] == 'list' and b[0] == 'list':
        return len(a[1]) == len(b[1]) and all(same_value(x, y) for x, y in zip(a[1], b[1]))
    na = ['dec', a[1], 0] if a[0] == 'int' else a
    nb = ['dec', b[1], 0] if b[0] == 'int' else b
    return na == nb


def kind_matters(t):
    return t[0] == 'builtin'


def evaluate(ctx, cases):
    impl = common.pool_map(subject, cases)
    terms, owner = [], []
    for ci, (c, o) in enumerate(zip(cases, impl)):
        if o.get('build') != 'ok':
            if 'harness_exception' in o:
                ctx.violation('subject failed: %s' % o['harness_exception'], {'kind': 'c02', 'case': c}, no_input=True)
            else:
                ctx.dist('schema_build', 'refused')
            continue
        for k, t in enumerate(model_terms(c)):
            terms.append(t)
            owner.append((ci, k))
    model = common.coq_eval('C02', IMPORTS, DEFS, terms, shard=400)
    for (ci, k), m in zip(owner, model):
        c, o, text = cases[ci], impl[ci]['results'][k], cases[ci]['texts'][k]
        rep = {'kind': 'c02', 'case': dict(c, texts=[text]), 'text': text, 'codepoints': [ord(x) for x in text],
               'xsd': schema_for(c['type'])[0], 'impl': o}
        tdesc = type_desc(c['type'])
        ctx.count((tdesc, c['version'], text), nontrivial=len(text) > 0)
        if 'exc' in o:
            ctx.violation('%s: decoding %r raised %s' % (tdesc, text, o['exc']), rep)
            continue
        mv = model_value(m)
        ctx.dist('model_verdict', 'valid' if mv is not None else 'invalid')
        problems = []
        if o['valid'] != (mv is not None) and mv is not None and max((len(x) for x in re.findall(r'[0-9]+', text)), default=0) > 9 \
                and type_desc(c['type']).startswith('xs:date'):
            ctx.dist('implementation_limit', 'huge year refused')
        elif mv is not None and not o['valid'] and c['version'] == '1.1' and 'xs:date' in type_desc(c['type']) \
                and re.fullmatch(r'-?[0-9]{5,}-02-29(Z|[+-][0-9:]+)?', text.strip(' \t\n\r')):
            ctx.known_finding('F-C02a')     # elementpath (XSD 1.1 dates): leap years with more than four digits
        elif o['valid'] != (mv is not None):
            problems.append('text %r (code points %s) is %s by the implementation but %s for %s'
                            % (text, [ord(x) for x in text], 'accepted' if o['valid'] else 'rejected',
                               'valid' if mv is not None else 'not valid', tdesc))
        elif o['valid']:
            if not same_value(o['value'], mv) or (kind_matters(c['type']) and o['value'][0] != mv[0]):
                problems.append('text %r decodes to %s, the XSD value is %s (%s)' % (text, o['value'], mv, tdesc))
            if o.get('roundtrip') is not True and not has_union(c['type']) and c['version'] == '1.1' \
                    and 'xs:date' in type_desc(c['type']) and re.match(r'\s*-[0-9]{5,}', text):
                ctx.known_finding('F-C02b')     # elementpath (XSD 1.1): str() of negative years with more than four digits
            elif o.get('roundtrip') is not True and not has_union(c['type']):
                problems.append('encode(decode(%r)) = %r does not decode to the same value (%s): %s'
                                % (text, o.get('encoded'), tdesc, o.get('roundtrip')))
        if o['is_valid'] != o['valid']:
            problems.append('is_valid() and decode() disagree on %r (%s)' % (text, tdesc))
        if 'elem_valid' in o and o['elem_valid'] != o['valid']:
            problems.append('element validation and type decode disagree on %r (%s): %s' % (text, tdesc, o['elem_valid']))
        if problems:
            ctx.violation('; '.join(problems), dict(rep, model=repr(m), theorem='Datatypes.decode (props/C02.v)'))
        ctx.sample({'type': tdesc, 'text': text, 'impl': o.get('value'), 'valid': o['valid']}, cap=8)


def has_union(t):
    return t[0] == 'union' or (t[0] in ('restrict', 'list') and has_union(t[1]))


def type_desc(t):
    if t[0] == 'builtin':
        return t[1]
    if t[0] == 'restrict':
        return 'restriction(%s, %s, %s)' % (type_desc(t[1]), t[2].lower(), ', '.join('%s=%s' % (a, b) for a, b in t[3]))
    if t[0] == 'list':
        return 'list(%s)' % type_desc(t[1])
    return 'union(%s, %s%s)' % (type_desc(t[1]), type_desc(t[2]), ' as simpleType child' if len(t) > 3 else '')


# ------------------------------------------------------------------ catalogues
INT_CAT = ['0', '1', '-1', '+1', '007', '-0', '127', '128', '-128', '-129', '255', '256', '32767', '32768', '-32768',
           '-32769', '65535', '65536', '2147483647', '2147483648', '-2147483648', '-2147483649', '4294967295',
           '4294967296', '9223372036854775807', '9223372036854775808', '-9223372036854775808', '-9223372036854775809',
           '18446744073709551615', '18446744073709551616', '123456789012345678901234567890', '', ' ', ' 12 ', '\t12\n',
           '1 2', '1_000', '１２', '١٢', '12.0', '1.', '+', '-', '--1', '+-1', '0x10', '1e2', '１', '12 ', ' 12',
           '1 2', 'true', 'INF', '12a', '٣', '9' * 400, '-1' + '0' * 320]      # (beyond the range of a float)
DEC_CAT = ['0.00000000', '0.0000000', '-0.000000000', '0.00000001', '0', '1', '-1', '+1.5', '1.50', '1.', '.5', '-.5', '.', '', ' 1.5 ', '12 1', '1e2', '1E2', 'NaN', 'INF', '1,5',
           '0.000000001', '123456789012345678901234567890.123456789', '00.100', '+', '1..2', '1.2.3', '１.５', '1_0.5',
           '-0', '-0.0', '٣.٥', ' 1.5']
BOOL_CAT = ['true', 'false', '1', '0', ' true ', 'TRUE', 'True', 'yes', '', '01', '10', 't', 'true false', '\ttrue\n',
            '１', 'tru e']
STR_CAT = ['', 'a', ' a ', 'a  b', 'a\tb', ' \n a \r\n b ', 'a b', ' a', '  ', 'ab c']
DATE_CAT = ['12000-02-29', '20920-02-29', '10100-02-29', '2020-02-29', '2021-02-29', '1900-02-29', '2000-02-29', '2020-13-01', '2020-00-10', '2020-04-31',
            '2020-04-30', '2020-1-01', '20-01-01', '0000-01-01', '-0001-01-01', '-0000-01-01', '12345-01-01',
            '012345-01-01', '2020-01-01Z', '2020-01-01+14:00', '2020-01-01+14:01', '2020-01-01-13:59', '2020-01-01+15:00',
            '2020-01-01+05:60', '2020-01-01z', ' 2020-01-01 ', '2020-01-01T00:00:00', '2020-01-32', '2020-12-31', '',
            '2020-02-30', '2020-06-31', '2020-01-01+5:00', '２０２０-01-01', '2020-01-01+00:00', '99999999999999999999-01-01']
MUT_POOL = ['0', '9', ' ', '\t', '_', '-', '+', '.', 'e', '１', '٣', ' ', ' ', 'a', ':', 'Z', 'T']


def mutate(rng, s):
    if not s:
        return rng.choice(MUT_POOL)
    i = rng.randrange(len(s) + 1)
    r = rng.random()
    if r < 0.4:
        return s[:i] + rng.choice(MUT_POOL) + s[i:]
    if r < 0.7 and i < len(s):
        return s[:i] + s[i + 1:]
    if i < len(s):
        return s[:i] + rng.choice(MUT_POOL) + s[i + 1:]
    return s + rng.choice(MUT_POOL)


def rand_restriction(rng, depth=2):
    kind = rng.choice(['int', 'dec', 'str', 'list', 'union', 'bool'])
    if kind == 'int':
        base = ('builtin', rng.choice(['xs:integer', 'xs:int', 'xs:byte', 'xs:nonNegativeInteger', 'xs:unsignedShort']))
        cat = INT_CAT

        def facets():
            fs = []
            for n in rng.sample(['minInclusive', 'maxInclusive', 'minExclusive', 'maxExclusive', 'totalDigits', 'enumeration'],
                                rng.randint(1, 2)):
                if n == 'enumeration':
                    fs.append((n, rng.sample(['1', '01', '7', '127', '-1', '100'], 3)))
                elif n == 'totalDigits':
                    fs.append((n, rng.choice([1, 2, 3, 5])))
                else:
                    fs.append((n, rng.choice(['-1', '0', '1', '7', '100', '127'])))
            return fs
    elif kind == 'dec':
        base = ('builtin', 'xs:decimal')
        cat = DEC_CAT + ['10', '99.9', '100', '100.0', '99.99', '0.10', '0.101', '1234.5', '-99.9']

        def facets():
            fs = []
            for n in rng.sample(['minInclusive', 'maxInclusive', 'totalDigits', 'fractionDigits', 'enumeration', 'maxExclusive'],
                                rng.randint(1, 2)):
                if n == 'enumeration':
                    fs.append((n, rng.sample(['1.0', '1', '1.50', '99.9', '-0.5', '100'], 3)))
                elif n == 'totalDigits':
                    fs.append((n, rng.choice([1, 2, 3, 4, 6])))
                elif n == 'fractionDigits':
                    fs.append((n, rng.choice([0, 1, 2])))
                else:
                    fs.append((n, rng.choice(['-1', '0', '1.5', '99.9', '100', '100.00'])))
            return fs
    elif kind == 'bool':
        base = ('builtin', 'xs:boolean')
        cat = BOOL_CAT

        def facets():
            return []
    elif kind == 'str':
        base = ('builtin', rng.choice(['xs:string', 'xs:normalizedString', 'xs:token']))
        cat = STR_CAT + ['abc', 'abcd', 'a b', 'a b c']

        def facets():
            fs = []
            for n in rng.sample(['length', 'minLength', 'maxLength', 'enumeration'], rng.randint(1, 2)):
                if n == 'enumeration':
                    fs.append((n, rng.sample(['a', 'a b', ' a ', 'abc', 'ab c'], 3)))
                else:
                    fs.append((n, rng.choice([0, 1, 2, 3, 5])))
            return fs
    elif kind == 'list':
        item = ('builtin', rng.choice(['xs:integer', 'xs:byte', 'xs:boolean', 'xs:token', 'xs:QName', 'xs:QName']))
        t = ('list', item)
        cat = ['', '1', '1 2', ' 1  2 ', '1\t2\n3', '1 x', 'true false', '1 2 3 4', '127 128', 'a b', '1,2']
        if item[1] == 'xs:QName':
            cat = ['', 'a', 'a b', ' a  b ', 'a b c', 'a b c d', 'x y z w v']      # unprefixed names only
        if rng.random() < 0.6:
            t = ('restrict', t, 'Collapse', [(rng.choice(['length', 'minLength', 'maxLength']), rng.choice([0, 1, 2, 3]))])
        return t, cat
    else:
        a = ('builtin', rng.choice(['xs:byte', 'xs:integer', 'xs:boolean', 'xs:date']))
        b = ('builtin', rng.choice(['xs:decimal', 'xs:boolean', 'xs:token', 'xs:integer']))
        cat = ['1', '128', '1.5', 'true', '0', 'abc', ' 1 ', '2020-01-01', '', '01', '1e2']
        return (('union', a, b, 'child') if rng.random() < 0.5 else ('union', a, b)), cat
    t = base
    ws = ws_of(base)
    for _ in range(rng.randint(1, depth)):
        if base[1] in ('xs:string', 'xs:normalizedString') and rng.random() < 0.3:
            ws = {'Preserve': rng.choice(['Replace', 'Collapse']), 'Replace': 'Collapse'}.get(ws, ws)
        t = ('restrict', t, ws, facets())
    return t, cat


def gen(ctx):
    rng = ctx.rng
    q = ctx.quick()
    cases = []
    nmut = 12 if q else 150
    for version in ('1.0', '1.1'):
        for name in ['xs:integer'] + list(BOUNDED):
            texts = INT_CAT + [mutate(rng, rng.choice(INT_CAT[:30])) for _ in range(nmut)]
            cases.append({'type': ('builtin', name), 'version': version, 'texts': texts})
        for name, cat in (('xs:decimal', DEC_CAT), ('xs:boolean', BOOL_CAT), ('xs:string', STR_CAT),
                          ('xs:normalizedString', STR_CAT), ('xs:token', STR_CAT), ('xs:date', DATE_CAT)):
            texts = cat + [mutate(rng, rng.choice(cat)) for _ in range(nmut * 2)]
            cases.append({'type': ('builtin', name), 'version': version, 'texts': texts})
    # unions whose members accept the same text with different values, the second member written in memberTypes or as a
    # <xs:simpleType> child (the {member type definitions} list the memberTypes first)
    ucat = ['1', '128', '1.5', 'true', '0', 'abc', ' 1 ', '2020-01-01', '', '01', '1e2']
    for version in ('1.0', '1.1'):
        for a, b in (('xs:integer', 'xs:token'), ('xs:token', 'xs:integer'), ('xs:boolean', 'xs:token'), ('xs:date', 'xs:token'),
                     ('xs:byte', 'xs:decimal'), ('xs:boolean', 'xs:integer')):
            for form in ((), ('child',)):
                cases.append({'type': ('union', ('builtin', a), ('builtin', b)) + form, 'version': version, 'texts': ucat})
    for i in range(120 if q else 3000):
        t, cat = rand_restriction(rng)
        texts = list(cat) + ([mutate(rng, rng.choice(cat)) for _ in range(4)] if 'xs:QName' not in json.dumps(t) else [])
        cases.append({'type': t, 'version': '1.1' if i % 2 else '1.0', 'texts': texts})
    return cases


# ------------------------------------------------------------------ (3) all built-in types: metamorphic round trip
REF = {   # reference lexical spaces (XSD part 2) for types outside the model: validity only
    'xs:float': r'[ \t\n\r]*((\+|-)?([0-9]+(\.[0-9]*)?|\.[0-9]+)([Ee](\+|-)?[0-9]+)?|(\+|-)?INF|NaN)[ \t\n\r]*',
    'xs:double': r'[ \t\n\r]*((\+|-)?([0-9]+(\.[0-9]*)?|\.[0-9]+)([Ee](\+|-)?[0-9]+)?|(\+|-)?INF|NaN)[ \t\n\r]*',
    'xs:hexBinary': r'[ \t\n\r]*([0-9a-fA-F]{2})*[ \t\n\r]*',
    'xs:gYear': r'[ \t\n\r]*-?([1-9][0-9]{3,}|0[0-9]{3})(Z|(\+|-)((0[0-9]|1[0-3]):[0-5][0-9]|14:00))?[ \t\n\r]*',
    'xs:gMonth': r'[ \t\n\r]*--(0[1-9]|1[0-2])(Z|(\+|-)((0[0-9]|1[0-3]):[0-5][0-9]|14:00))?[ \t\n\r]*',
    'xs:gDay': r'[ \t\n\r]*---(0[1-9]|[12][0-9]|3[01])(Z|(\+|-)((0[0-9]|1[0-3]):[0-5][0-9]|14:00))?[ \t\n\r]*',
    'xs:time': r'[ \t\n\r]*(([01][0-9]|2[0-3]):[0-5][0-9]:[0-5][0-9](\.[0-9]+)?|(24:00:00(\.0+)?))'
               r'(Z|(\+|-)((0[0-9]|1[0-3]):[0-5][0-9]|14:00))?[ \t\n\r]*',
    'xs:duration': r'[ \t\n\r]*-?P((([0-9]+Y([0-9]+M)?([0-9]+D)?|([0-9]+M)([0-9]+D)?|([0-9]+D))'
                   r'(T(([0-9]+H)([0-9]+M)?([0-9]+(\.[0-9]+)?S)?|([0-9]+M)([0-9]+(\.[0-9]+)?S)?|([0-9]+(\.[0-9]+)?S)))?)'
                   r'|(T(([0-9]+H)([0-9]+M)?([0-9]+(\.[0-9]+)?S)?|([0-9]+M)([0-9]+(\.[0-9]+)?S)?|([0-9]+(\.[0-9]+)?S))))[ \t\n\r]*',
}
REF_CAT = {
    'xs:float': ['1', '1.5', '-1.5E3', '1e-2', 'INF', '-INF', '+INF', 'NaN', 'nan', 'inf', '1.', '.5', '', '1e', '0x1p3',
                 '1_0', '１', ' 1.5 ', 'Infinity', '1E+400', '-0', '٣'],
    'xs:double': ['1', '1.5', '-1.5E3', 'INF', '+INF', 'NaN', 'nan', 'infinity', '1e', '0x1p3', '1_0.5', ' 2 ', '1d', ''],
    'xs:hexBinary': ['', '0A', '0a', 'FF00', 'F', 'GG', '0 A', ' 0A ', '0x0A', '0A0'],
    'xs:gYear': ['2020', '0000', '-0001', '12345', '012345', '202', '2020Z', '2020+14:00', '2020+14:01', '99999999999999999999',
                 ' 2020 ', '2020-01', '+2020'],
    'xs:gMonth': ['--01', '--12', '--13', '--00', '--1', '--01Z', '--01--', '-01', ' --02 '],
    'xs:gDay': ['---01', '---31', '---32', '---00', '---1', '---15Z', '--15'],
    'xs:time': ['00:00:00', '23:59:59', '24:00:00', '24:00:01', '12:60:00', '12:00:60', '12:00:00.123', '12:00:00Z',
                '12:00:00+14:00', '12:00:00+14:01', '1:00:00', '12:00', ' 12:00:00 ', '24:00:00.0'],
    'xs:duration': ['P1Y', 'P1M', 'P1D', 'PT1H', 'PT1M', 'PT1.5S', 'P1Y2M3DT4H5M6S', '-P1D', 'P', 'PT', 'P1S', 'P1YT', '1Y',
                    'P-1Y', 'P1.5Y', 'PT1.S', 'P1Y2D', 'P99999999999999999999Y', ' P1D ', 'p1d', 'P1DT'],
}
ROUNDTRIP_TYPES = ['xs:integer', 'xs:decimal', 'xs:boolean', 'xs:float', 'xs:double', 'xs:date', 'xs:dateTime', 'xs:time',
                   'xs:gYear', 'xs:gYearMonth', 'xs:gMonth', 'xs:gDay', 'xs:gMonthDay', 'xs:duration', 'xs:hexBinary',
                   'xs:base64Binary', 'xs:anyURI', 'xs:language', 'xs:NCName', 'xs:token', 'xs:string',
                   'xs:unsignedByte', 'xs:negativeInteger']
ROUNDTRIP_CAT = {
    'xs:dateTime': ['2020-02-29T12:00:00', '2020-02-29T24:00:00', '2020-02-29T12:00:00.5Z', '2020-02-29T12:00:00+05:30',
                    '-0044-03-15T00:00:00', '2020-02-30T00:00:00', '2020-02-29T25:00:00', '2020-02-29 12:00:00'],
    'xs:gYearMonth': ['2020-02', '2020-13', '-0001-01', '2020-02Z', '20-02'],
    'xs:gMonthDay': ['--02-29', '--02-30', '--12-31', '--04-31', '--1-1'],
    'xs:base64Binary': ['', 'QQ==', 'QUI=', 'QUJD', 'Q', 'QQ=', 'Q Q = =', 'QUJD\n', '====', 'QQ==QQ=='],
    'xs:anyURI': ['', 'http://example.com/a b', 'urn:x', '%zz', '#frag', 'a\\b', ' http://x '],
    'xs:QName': ['a', 'xs:a', ':a', 'a:', 'a:b:c', '1a', 'p:a'],
    'xs:language': ['en', 'en-US', 'x-klingon', '', 'e n', 'abcdefghi', 'en-', 'EN-us-x-1'],
    'xs:NCName': ['a', 'a:b', '1a', '_a', 'a-b.c', '', 'a b', 'é'],
}


def subject_roundtrip(case):
    import xmlschema
    key = 'rt' + case['version']
    if key not in _SCH:
        cls = xmlschema.XMLSchema11 if case['version'] == '1.1' else xmlschema.XMLSchema10
        _SCH[key] = cls('<xs:schema xmlns:xs="http://www.w3.org/2001/XMLSchema"><xs:element name="e" type="xs:string"/></xs:schema>')
    s = _SCH[key]
    ty = s.maps.types['{http://www.w3.org/2001/XMLSchema}' + case['name'][3:]]
    out = []
    for text in case['texts']:
        r = {}
        for opts in ({}, {'datetime_types': True, 'binary_types': True}, {'decimal_type': str},
                     {'decimal_type': str, 'datetime_types': True, 'binary_types': True}, {}):
            # the last, plain call repeats the first one: its value must not depend on the option calls in between
            try:
                val, errs = ty.decode(text, validation='lax', namespaces={'xs': 'http://www.w3.org/2001/XMLSchema', 'p': 'urn:p'},
                                      **opts)
            except Exception as e:  # noqa
                r['exc'] = '%s with %s: %s' % (common.exc_class(e), opts, str(e)[:100])
                break
            valid = not errs
            if not opts:
                plain = '%s %r' % (type(val).__name__, val)
                if r.setdefault('plain', plain) != plain:
                    r['roundtrip'] = 'plain decode(%r) gave %s before and %s after decodes with datetime_types / binary_types / decimal_type' % (text, r['plain'], plain)
            r.setdefault('valid', valid)
            if valid != r['valid']:
                r['option_dependent'] = str(opts)
            if valid:
                try:
                    enc = ty.encode(val, namespaces={'xs': 'http://www.w3.org/2001/XMLSchema', 'p': 'urn:p'})
                    v2, e2 = ty.decode(enc, validation='lax',
                                       namespaces={'xs': 'http://www.w3.org/2001/XMLSchema', 'p': 'urn:p'}, **opts)
                    same = (not e2) and (v2 == val or str(v2) == str(val) or (v2 != v2 and val != val))
                    if not same:
                        r['roundtrip'] = 'decode(%r) = %r, encode -> %r, decode -> %r (errors %d) with %s' % (
                            text, val, enc, v2, len(e2), opts)
                except Exception as e:  # noqa
                    r['roundtrip'] = 'EXC %s: %s with %s' % (common.exc_class(e), str(e)[:100], opts)
        out.append(r)
    return out


def check_roundtrip(ctx, cases):
    impl = common.pool_map(subject_roundtrip, cases)
    for c, o in zip(cases, impl):
        if isinstance(o, dict) and 'harness_exception' in o:
            ctx.violation('subject failed: %s' % o['harness_exception'], {'kind': 'roundtrip', 'case': c}, no_input=True)
            continue
        ref = REF.get(c['name'])
        if ref is not None and c['version'] == '1.0':
            ref = ref.replace(r'(\+|-)?INF', '-?INF').replace(r'-?([1-9][0-9]{3,}|0[0-9]{3})', r'-?([1-9][0-9]{3,}|0(?!000)[0-9]{3})')
        for text, r in zip(c['texts'], o):
            rep = {'kind': 'roundtrip', 'case': dict(c, texts=[text]), 'text': text, 'impl': r}
            ctx.count(('rt', c['name'], c['version'], text), nontrivial=len(text) > 0)
            if 'exc' in r:
                ctx.violation('%s: decoding %r raised %s' % (c['name'], text, r['exc']), rep)
                continue
            if 'option_dependent' in r:
                ctx.violation('%s: validity of %r depends on decode options %s' % (c['name'], text, r['option_dependent']), rep)
            if 'roundtrip' in r and c['version'] == '1.1' and c['name'] in ('xs:gYear', 'xs:gYearMonth', 'xs:date', 'xs:dateTime') \
                    and re.match(r'\s*-[0-9]{5,}', text):
                ctx.known_finding('F-C02b')     # elementpath (XSD 1.1): str() of negative years with more than four digits
            elif 'roundtrip' in r:
                ctx.violation('%s: %s' % (c['name'], r['roundtrip']), rep)
            if ref is not None:
                want = re.fullmatch(ref, text) is not None
                ctx.dist('reference_lexical', '%s/%s' % (c['name'], 'valid' if want else 'invalid'))
                if want != r['valid'] and not (want and implementation_limit(c['name'], text)):
                    ctx.violation('%s: text %r is %s by the implementation but %s the XSD lexical space'
                                  % (c['name'], text, 'accepted' if r['valid'] else 'rejected', 'in' if want else 'outside'), rep)


def implementation_limit(name, text):
    """lexically valid values beyond minimum-conformance limits may be refused (library error, not a foreign one)"""
    digits = max((len(x) for x in re.findall(r'[0-9]+', text)), default=0)
    return digits > 9 or (name in ('xs:float', 'xs:double') and False)


# ------------------------------------------------------------------ (4) pattern facets (reference: Python re on a small dialect)
XWS = ' \t\n\r'
PATTERNS = ['[a-z0-9]+( [a-z0-9]+)*', '[0-9]+', '[a-z ]*', 'a.*', '.{1,3}', '[^ ]+', '( )?a( )?']
PAT_TEXTS = ['a', 'a b', 'a  b', ' a b', 'a\tb', 'a b ', '12', ' 12 ', '1 2', 'ab1', '', ' ', 'a', ' a ', 'abc d', 'A', 'a\nb']


def xml_collapse(t):
    return ' '.join(x for x in re.split('[ \t\n\r]+', t) if x)


def xml_replace(t):
    return re.sub('[\t\n\r]', ' ', t)


def pattern_reference(kind, pattern, text):
    """validity of `text` for restriction(kind, pattern): the pattern is matched on the text normalised as the
    (first matching member) type prescribes"""
    def norm(k, t):
        return {'xs:string': t, 'xs:normalizedString': xml_replace(t), 'xs:token': xml_collapse(t), 'xs:int': xml_collapse(t)}[k]
    def member_ok(k, t):
        if k == 'xs:int':
            m = re.fullmatch('[+-]?[0-9]+', xml_collapse(t))
            return m is not None and -2 ** 31 <= int(xml_collapse(t)) <= 2 ** 31 - 1
        return True
    members = kind if isinstance(kind, list) else [kind]
    for k in members:
        if member_ok(k, text):
            # a list of patterns = one restriction level per pattern; the single matches are taken from Python re, the
            # model (Options.chain_ok) combines the levels
            return [re.fullmatch(p, norm(k, text)) is not None for p in (pattern if isinstance(pattern, list) else [pattern])]
    return None


def subject_pattern(case):
    import xmlschema
    kind, pattern = case['kind'], case['pattern']
    if isinstance(kind, list):
        base = '<xs:simpleType name="U"><xs:union memberTypes="%s"/></xs:simpleType>' % ' '.join(kind)
        bname = 'U'
    else:
        base, bname = '', kind
    levels = pattern if isinstance(pattern, list) else [pattern]
    for i, p in enumerate(levels[:-1]):
        base += '<xs:simpleType name="P%d"><xs:restriction base="%s"><xs:pattern value="%s"/></xs:restriction></xs:simpleType>' % (i, bname, p)
        bname = 'P%d' % i
    xsd = ('<xs:schema xmlns:xs="http://www.w3.org/2001/XMLSchema">%s<xs:simpleType name="P"><xs:restriction base="%s">'
           '<xs:pattern value="%s"/></xs:restriction></xs:simpleType></xs:schema>' % (base, bname, levels[-1]))
    cls = xmlschema.XMLSchema11 if case['version'] == '1.1' else xmlschema.XMLSchema10
    ty = cls(xsd).types['P']
    out = []
    for t in case['texts']:
        try:
            out.append(bool(ty.is_valid(t)))
        except Exception as e:  # noqa
            out.append('EXC ' + common.exc_class(e))
    return out


def check_patterns(ctx):
    cases = []
    kinds = ['xs:string', 'xs:normalizedString', 'xs:token', 'xs:int', ['xs:int', 'xs:string'],
             ['xs:int', 'xs:normalizedString'], ['xs:int', 'xs:token']]
    for version in ('1.0', '1.1'):
        for kind in kinds:
            for p in PATTERNS:
                cases.append({'kind': kind, 'pattern': p, 'version': version, 'texts': PAT_TEXTS})
            # two and three restriction levels, one pattern each
            chains = [[p, q] for p in PATTERNS for q in PATTERNS if p != q] + [[PATTERNS[2], PATTERNS[4], PATTERNS[0]], [PATTERNS[4], PATTERNS[2], PATTERNS[3]]]
            for ch in (chains if not ctx.quick() else ctx.rng.sample(chains, 8)):
                cases.append({'kind': kind, 'pattern': ch, 'version': version, 'texts': PAT_TEXTS})
    impl = common.pool_map(subject_pattern, cases)
    refs = [[pattern_reference(c['kind'], c['pattern'], t) for t in c['texts']] for c in cases]
    # one model term per case: the verdict of every text (no member accepts the text: false)
    terms = [coq_list(['false' if r is None else '(union_check_all bool (fun p _ => p) %s [])'
                       % coq_list([coq_list(['true' if b else 'false']) for b in r]) for r in rs]) for rs in refs]
    model = common.coq_eval('C02p', 'From XV Require Import Base Datatypes Options.', '', terms, shard=60)
    for c, o, ms in zip(cases, impl, model):
        if isinstance(o, dict):
            ctx.violation('pattern subject failed: %s' % o.get('harness_exception'), {'kind': 'pattern', 'case': c}, no_input=True)
            continue
        for t, v, want in zip(c['texts'], o, ms):
            ctx.count(('pat', json.dumps(c['kind']), json.dumps(c['pattern']), c['version'], t), nontrivial=len(t) > 0)
            if v != want:
                ctx.violation('restriction(%s, pattern=%r) (XSD %s): text %r is %s, the pattern on the normalised text says %s'
                              % (c['kind'], c['pattern'], c['version'], t, v, want),
                              {'kind': 'pattern', 'case': dict(c, texts=[t]), 'text': t})


# ------------------------------------------------------------------ (5) facet-restricted lists at element / attribute sites under decode options
LIST_POOLS = {
    'xs:date': [('2020-01-01', 1), ('2020-01-02', 2), ('2021-12-31', 3)],
    'xs:decimal': [('1.0', 1), ('1', 1), ('1.00', 1), ('2.5', 2), ('2.50', 2), ('0.1', 3), ('0.10', 3)],
    'xs:QName': [('xs:a', 1), ('x2:a', 1), ('xs:b', 2), ('p:a', 3)],
    'xs:hexBinary': [('0A', 1), ('0a', 1), ('FF', 2), ('ff', 2), ('00', 3)],
    'xs:boolean': [('true', 1), ('1', 1), ('false', 2), ('0', 2)],
    'xs:int': [('1', 1), ('01', 1), ('+2', 2), ('2', 2), ('3', 3)],
}
LIST_OPTS = [{}, {'datetime_types': True, 'binary_types': True}, {'decimal_type': str}, {'decimal_type': float},
             {'decimal_type': str, 'datetime_types': True}]
LIST_NS = 'xmlns:xs="http://www.w3.org/2001/XMLSchema" xmlns:x2="http://www.w3.org/2001/XMLSchema" xmlns:p="urn:p"'


def list_schema():
    """per item type T: L = list(T), LE = L restricted by enumeration {v1 v2, v2, v3 v1 v1}, LN = LE restricted by
    minLength 2 (two levels), LL = L restricted by length 2; an element and an attribute of each"""
    defs, els, atts = [], [], []
    for i, (ty, pl) in enumerate(LIST_POOLS.items()):
        lex = {}
        for lx, v in pl:
            lex.setdefault(v, lx)
        defs.append('<xs:simpleType name="L%d"><xs:list itemType="%s"/></xs:simpleType>' % (i, ty))
        defs.append('<xs:simpleType name="LE%d"><xs:restriction base="L%d"><xs:enumeration value="%s %s"/><xs:enumeration value="%s"/>'
                    '<xs:enumeration value="%s %s %s"/></xs:restriction></xs:simpleType>' % (i, i, lex[1], lex[2], lex[2], lex[max(lex)], lex[1], lex[1]))
        defs.append('<xs:simpleType name="LN%d"><xs:restriction base="LE%d"><xs:minLength value="2"/></xs:restriction></xs:simpleType>' % (i, i))
        defs.append('<xs:simpleType name="LL%d"><xs:restriction base="L%d"><xs:length value="2"/></xs:restriction></xs:simpleType>' % (i, i))
        # the enumeration on the outer level of a two-level chain (the inner level only bounds the length)
        defs.append('<xs:simpleType name="LI%d"><xs:restriction base="L%d"><xs:maxLength value="3"/></xs:restriction></xs:simpleType>' % (i, i))
        defs.append('<xs:simpleType name="LM%d"><xs:restriction base="LI%d"><xs:enumeration value="%s %s"/><xs:enumeration value="%s"/>'
                    '<xs:enumeration value="%s %s %s"/></xs:restriction></xs:simpleType>' % (i, i, lex[1], lex[2], lex[2], lex[max(lex)], lex[1], lex[1]))
        for k in ('LE', 'LN', 'LL', 'LM'):
            els.append('<xs:element name="e%s%d" type="%s%d" minOccurs="0"/>' % (k, i, k, i))
            atts.append('<xs:attribute name="a%s%d" type="%s%d"/>' % (k, i, k, i))
    return ('<xs:schema xmlns:xs="http://www.w3.org/2001/XMLSchema" xmlns:p="urn:p">%s<xs:element name="r"><xs:complexType><xs:sequence>%s'
            '</xs:sequence>%s</xs:complexType></xs:element></xs:schema>' % (''.join(defs), ''.join(els), ''.join(atts)))


def list_reference(kind, ids, top=3):
    enum = ids in ([1, 2], [2], [top, 1, 1])
    return {'LE': enum, 'LN': enum and len(ids) >= 2, 'LL': len(ids) == 2, 'LM': enum}[kind]


def list_expected(ty, lex, opts):
    """the decoded item as the decode options prescribe"""
    if ty == 'xs:date':
        return 'Date' if opts.get('datetime_types') else lex
    if ty == 'xs:decimal':
        d = decimal.Decimal(lex)
        return d if opts.get('decimal_type') is None else opts['decimal_type'](d)
    if ty == 'xs:QName':
        return lex
    if ty == 'xs:hexBinary':
        return 'HexBinary' if opts.get('binary_types') else lex.upper()
    if ty == 'xs:boolean':
        return lex in ('true', '1')
    return int(lex)


def subject_lists(case):
    import xmlschema
    key = 'lists' + case['version']
    if key not in _SCH:
        cls = xmlschema.XMLSchema11 if case['version'] == '1.1' else xmlschema.XMLSchema10
        _SCH[key] = cls(list_schema())
    s = _SCH[key]
    out = []
    for site, name, text in case['docs']:
        xml = ('<r %s %s="%s"/>' % (LIST_NS, name, text)) if site == 'attr' else '<r %s><%s>%s</%s></r>' % (LIST_NS, name, text, name)
        r = {'xml': xml, 'runs': []}
        try:
            r['is_valid'] = s.is_valid(xml)
            r['iter_errors'] = len(list(s.iter_errors(xml)))
            for opts in LIST_OPTS:
                data, errs = s.decode(xml, validation='lax', **opts)
                val = (data or {}).get(('@' if site == 'attr' else '') + name) if isinstance(data, dict) else data
                strict = 'ok'
                try:
                    s.decode(xml, **opts)
                except xmlschema.XMLSchemaValidationError:
                    strict = 'raised'
                r['runs'].append({'errors': len(errs), 'strict': strict,
                                  'value': [x if isinstance(x, (str, int, float, bool, decimal.Decimal)) else type(x).__name__.rstrip('0123456789') for x in val]
                                  if isinstance(val, list) else repr(val)})
        except Exception as e:  # noqa
            r['exc'] = common.exc_class(e) + ': ' + str(e)[:120]
        out.append(r)
    return out


def check_lists(ctx):
    rng = ctx.rng
    cases = []
    for version in ('1.0', '1.1'):
        docs = []
        for i, (ty, pl) in enumerate(LIST_POOLS.items()):
            for kind in ('LE', 'LN', 'LL', 'LM'):
                picks = [[0], [0, 1]] + [[rng.randrange(len(pl)) for _ in range(rng.choice([1, 2, 2, 3]))] for _ in range(6 if ctx.quick() else 60)]
                # the enumerated values in other lexical forms
                byid = {}
                for k, (_lx, v) in enumerate(pl):
                    byid.setdefault(v, []).append(k)
                for ids in ([1, 2], [2], [max(byid), 1, 1]):
                    picks.append([rng.choice(byid[v]) for v in ids])
                for pk in picks:
                    sep = rng.choice([' ', '  ', ' \n '])
                    docs.append((rng.choice(['attr', 'elem']), kind, i, pk, sep))
        cases.append({'version': version, 'spec': docs,
                      'docs': [(site, ('a' if site == 'attr' else 'e') + kind + str(i), sep.join(list(LIST_POOLS.values())[i][k][0] for k in pk))
                               for site, kind, i, pk, sep in docs]})
    impl = common.pool_map(subject_lists, cases)
    for c, o in zip(cases, impl):
        if isinstance(o, dict):
            ctx.violation('list subject failed: %s' % o.get('harness_exception'), {'kind': 'lists'}, no_input=True)
            continue
        for (site, kind, i, pk, _sep), r in zip(c['spec'], o):
            ty, pl = list(LIST_POOLS.items())[i]
            ids = [pl[k][1] for k in pk]
            want = list_reference(kind, ids, max(v for _l, v in pl))
            ctx.count(('lists', c['version'], r['xml']), nontrivial=True)
            ctx.dist('restricted lists', '%s %s %s' % (ty, kind, 'valid' if want else 'invalid'))
            rep = {'kind': 'lists', 'xml': r['xml'], 'xsd': list_schema(), 'version': c['version'], 'impl': r}
            what = '%s of %s (XSD %s) %s' % ({'LE': 'enumerated list', 'LN': 'enumerated list with minLength 2', 'LL': 'list with length 2',
                                      'LM': 'list with maxLength 3 restricted by an enumeration'}[kind], ty, c['version'], r['xml'])
            if 'exc' in r:
                ctx.violation('%s: raised %s' % (what, r['exc']), rep)
                continue
            if r['is_valid'] != want or (r['iter_errors'] == 0) != want:
                ctx.violation('%s: is_valid=%s, iter_errors reports %d error(s), the value is %s the facets' % (what, r['is_valid'], r['iter_errors'], 'within' if want else 'outside'), rep)
                continue
            for opts, run in zip(LIST_OPTS, r['runs']):
                if (run['errors'] == 0) != want or (run['strict'] == 'ok') != want:
                    ctx.violation('%s: decode with %s reports %d error(s) / strict decode %s, while the value is %s the facets (is_valid=%s)'
                                  % (what, opts or 'default options', run['errors'], run['strict'], 'within' if want else 'outside', r['is_valid']), rep)
                    break
                exp = [list_expected(ty, pl[k][0], opts) for k in pk]
                if run['value'] != exp or [type(x) for x in run['value']] != [type(x) for x in exp]:
                    ctx.violation('%s: decode with %s gives %r, the options prescribe %r' % (what, opts or 'default options', run['value'], exp), rep)
                    break


def gen_roundtrip(ctx):
    rng = ctx.rng
    cases = []
    for version in ('1.0', '1.1'):
        for name in ROUNDTRIP_TYPES:
            cat = REF_CAT.get(name) or ROUNDTRIP_CAT.get(name) or {
                'xs:integer': INT_CAT, 'xs:decimal': DEC_CAT, 'xs:boolean': BOOL_CAT, 'xs:date': DATE_CAT,
                'xs:token': STR_CAT, 'xs:string': STR_CAT, 'xs:unsignedByte': INT_CAT, 'xs:negativeInteger': INT_CAT}[name]
            texts = list(cat) + [mutate(rng, rng.choice(cat)) for _ in range(6 if ctx.quick() else 80)]
            cases.append({'name': name, 'version': version, 'texts': texts})
    return cases


def run(ctx):
    cases = gen(ctx)
    ctx.rule = ('built-in types of the model (integer family, decimal, boolean, string family, date) x boundary catalogue + '
                'seeded single-code-point mutations (pool with non-ASCII digits, "_", NBSP, tab); seeded restriction chains '
                '(1-2 levels; bounds, digits, length family, enumeration, whiteSpace), lists and unions x candidate values; '
                'all built-in atomic types: decode/encode/decode round trip under three option sets and reference lexical '
                'spaces for float/double/hexBinary/gYear/gMonth/gDay/time/duration; lists of date / decimal / QName / hexBinary / boolean / int '
                'restricted by enumeration, enumeration + minLength, length at element and attribute sites: verdict of is_valid / '
                'iter_errors / lax and strict decode under five option sets and the decoded items the options prescribe; non-trivial = non-empty text; distinct by '
                '(type, version, text)')
    evaluate(ctx, cases)
    check_roundtrip(ctx, gen_roundtrip(ctx))
    check_patterns(ctx)
    check_lists(ctx)
    ctx.assumptions = ['value spaces of float/double/duration/dateTime/g* /binary/anyURI/QName are not modelled: lexical validity '
                       '(reference regular expressions) and the round trip only',
                       'pattern facets are checked against Python re on a small dialect (reference in the harness, not proved)',
                       'values with more than 9 digits in a date/time/duration field may be refused as an implementation limit']


def replay(ctx, case):
    if case.get('kind') == 'pattern':
        check_patterns(ctx)
    elif case.get('kind') == 'lists':
        check_lists(ctx)
    elif case.get('kind') == 'roundtrip':
        check_roundtrip(ctx, [case['case']])
    else:
        c = case['case']
        c['type'] = tuplify(c['type'])
        evaluate(ctx, [c])


def tuplify(t):
    if isinstance(t, list):
        if t and t[0] in ('builtin', 'restrict', 'list', 'union'):
            if t[0] == 'restrict':
                return ('restrict', tuplify(t[1]), t[2], [tuple(x) if not isinstance(x[1], list) else (x[0], x[1]) for x in t[3]])
            return tuple(tuplify(x) for x in t)
    return t
